//! C17 — stream framing is independent of how the bytes are chunked.
//!
//! Drives the real `hickory_net::tcp::TcpStream` (optionally wrapped in `TcpClientStream` or
//! `hickory_server::server::TimeoutStream`) over a scripted `DnsTcpStream`.
//!
//! Case line:  `io <wrap> <v|s> <read-script> <write-script> <prog>`
//!   wrap   t = TcpStream, c = TcpClientStream, o = TimeoutStream(0 = off), O = TimeoutStream(1 h),
//!          b = TcpStream::from_stream_with_buffer_size(.., 32), f = TcpStream::with_future (the
//!          connection future is ready at once); b and f are the same machine as t for the model
//!   v|s    socket with a real `poll_write_vectored` / with the default one only;
//!          V|S the same two kinds of socket as a *tokio* transport behind the
//!          `hickory_net::runtime::iocompat::AsyncIoTokioAsStd` adapter (V: own tokio socket that is
//!          write-vectored; S: `AsyncIoTokioAsStd(AsyncIoStdAsTokio(socket))`, i.e. through both
//!          adapters, not write-vectored); the model treats the adapters as transparent (V = v, S = s)
//!   read   `d<hex>` k bytes available, `p` Pending (waker woken at once), `e` EOF, `x` Err; `-` empty;
//!          an exhausted script blocks for ever (Pending, nobody wakes the task)
//!   write  `a<n>` accept up to n bytes, `p` Pending, `x` Err; exhausted = blocks for ever;
//!          `poll_flush` succeeds on `a…` (event stays), Pending on `p`, Err on `x`
//!   prog   `s<hex>` handle.send, `S<hex>` send through `with_remote_addr(other)`, `p` poll once,
//!          `h` drop every sender handle (the stream must go on delivering what the peer sends);
//!          afterwards the stream is polled while the task is woken.
//! Output: every `poll_next` result (`m<hex>` / `P` woken Pending / `I` un-woken Pending / `end` / `err`),
//!         ` w=<bytes accepted by the socket> f=<successful flushes> r=<sends refused by the full queue>`.
use std::collections::VecDeque;
use std::io::{self, IoSlice};
use std::net::SocketAddr;
use std::pin::Pin;
use std::sync::atomic::{AtomicBool, Ordering};
use std::sync::{Arc, Mutex, OnceLock};
use std::task::{Context, Poll, Wake, Waker};
use std::time::Duration;

use futures_io::{AsyncRead, AsyncWrite};
use futures_util::stream::{Stream, StreamExt};
use hickory_net::runtime::iocompat::{AsyncIoStdAsTokio, AsyncIoTokioAsStd};
use hickory_net::runtime::{DnsTcpStream, TokioTime};
use hickory_net::tcp::{TcpClientStream, TcpStream};
use hickory_net::xfer::DnsStreamHandle;
use hickory_proto::op::SerialMessage;
use hickory_server::server::TimeoutStream;

use crate::common::*;

#[derive(Clone, Debug, PartialEq)]
enum REv {
    Data(Vec<u8>),
    Pending,
    Eof,
    Err,
}

#[derive(Clone, Debug, PartialEq)]
enum WEv {
    Accept(usize),
    Pending,
    Err,
}

#[derive(Clone, Debug, PartialEq)]
enum Act {
    Send(Vec<u8>, bool),
    Poll,
    /// every sender handle is dropped (receive-only use of the stream from here on)
    DropHandles,
}

#[derive(Default)]
struct Sock {
    rs: VecDeque<REv>,
    ws: VecDeque<WEv>,
    vectored: bool,
    written: Vec<u8>,
    flushes: usize,
    /// which half answered "blocks for ever" during the current poll
    idle_side: Option<char>,
    /// protocol violations of the caller (never expected)
    misuse: Vec<String>,
}

struct ScriptSock(Arc<Mutex<Sock>>);

impl AsyncRead for ScriptSock {
    fn poll_read(self: Pin<&mut Self>, cx: &mut Context<'_>, buf: &mut [u8]) -> Poll<io::Result<usize>> {
        let mut g = self.0.lock().unwrap();
        loop {
            match g.rs.front_mut() {
                None => {
                    g.idle_side = Some('r');
                    return Poll::Pending;
                }
                Some(REv::Pending) => {
                    g.rs.pop_front();
                    cx.waker().wake_by_ref();
                    return Poll::Pending;
                }
                Some(REv::Err) => {
                    g.rs.pop_front();
                    return Poll::Ready(Err(io::Error::new(io::ErrorKind::ConnectionReset, "scripted")));
                }
                Some(REv::Eof) => return Poll::Ready(Ok(0)),
                Some(REv::Data(d)) => {
                    if d.is_empty() {
                        g.rs.pop_front();
                        continue;
                    }
                    if buf.is_empty() {
                        return Poll::Ready(Ok(0));
                    }
                    let n = buf.len().min(d.len());
                    buf[..n].copy_from_slice(&d[..n]);
                    d.drain(..n);
                    if d.is_empty() {
                        g.rs.pop_front();
                    }
                    return Poll::Ready(Ok(n));
                }
            }
        }
    }
}

impl ScriptSock {
    fn write(g: &mut Sock, cx: &mut Context<'_>, buf: &[u8]) -> Poll<io::Result<usize>> {
        match g.ws.pop_front() {
            None => {
                g.idle_side = Some('w');
                Poll::Pending
            }
            Some(WEv::Accept(n)) => {
                let n = n.min(buf.len());
                g.written.extend_from_slice(&buf[..n]);
                Poll::Ready(Ok(n))
            }
            Some(WEv::Pending) => {
                cx.waker().wake_by_ref();
                Poll::Pending
            }
            Some(WEv::Err) => Poll::Ready(Err(io::Error::new(io::ErrorKind::ConnectionReset, "scripted"))),
        }
    }
}

impl AsyncWrite for ScriptSock {
    fn poll_write(self: Pin<&mut Self>, cx: &mut Context<'_>, buf: &[u8]) -> Poll<io::Result<usize>> {
        let mut g = self.0.lock().unwrap();
        if buf.is_empty() {
            g.misuse.push("poll_write with an empty buffer".into());
        }
        Self::write(&mut g, cx, buf)
    }

    fn poll_write_vectored(self: Pin<&mut Self>, cx: &mut Context<'_>, bufs: &[IoSlice<'_>]) -> Poll<io::Result<usize>> {
        let mut g = self.0.lock().unwrap();
        if g.vectored {
            let all: Vec<u8> = bufs.iter().flat_map(|b| b.iter().copied()).collect();
            Self::write(&mut g, cx, &all)
        } else {
            // the default method of futures_io::AsyncWrite: first non-empty buffer
            let first: &[u8] = bufs.iter().find(|b| !b.is_empty()).map_or(&[][..], |b| &**b);
            Self::write(&mut g, cx, first)
        }
    }

    fn poll_flush(self: Pin<&mut Self>, cx: &mut Context<'_>) -> Poll<io::Result<()>> {
        let mut g = self.0.lock().unwrap();
        match g.ws.front() {
            None => {
                g.idle_side = Some('w');
                Poll::Pending
            }
            Some(WEv::Pending) => {
                g.ws.pop_front();
                cx.waker().wake_by_ref();
                Poll::Pending
            }
            Some(WEv::Err) => {
                g.ws.pop_front();
                Poll::Ready(Err(io::Error::new(io::ErrorKind::ConnectionReset, "scripted")))
            }
            Some(WEv::Accept(_)) => {
                g.flushes += 1;
                Poll::Ready(Ok(()))
            }
        }
    }

    fn poll_close(self: Pin<&mut Self>, _cx: &mut Context<'_>) -> Poll<io::Result<()>> {
        Poll::Ready(Ok(()))
    }
}

impl DnsTcpStream for ScriptSock {
    type Time = TokioTime;
}

/// the scripted socket as a tokio transport that is write-vectored
struct TokioSock(Arc<Mutex<Sock>>);

impl tokio::io::AsyncRead for TokioSock {
    fn poll_read(self: Pin<&mut Self>, cx: &mut Context<'_>, buf: &mut tokio::io::ReadBuf<'_>) -> Poll<io::Result<()>> {
        let mut inner = ScriptSock(self.0.clone());
        let dst = buf.initialize_unfilled();
        match Pin::new(&mut inner).poll_read(cx, dst) {
            Poll::Ready(Ok(n)) => {
                buf.advance(n);
                Poll::Ready(Ok(()))
            }
            Poll::Ready(Err(e)) => Poll::Ready(Err(e)),
            Poll::Pending => Poll::Pending,
        }
    }
}

impl tokio::io::AsyncWrite for TokioSock {
    fn poll_write(self: Pin<&mut Self>, cx: &mut Context<'_>, buf: &[u8]) -> Poll<io::Result<usize>> {
        let mut inner = ScriptSock(self.0.clone());
        Pin::new(&mut inner).poll_write(cx, buf)
    }
    fn poll_write_vectored(self: Pin<&mut Self>, cx: &mut Context<'_>, bufs: &[IoSlice<'_>]) -> Poll<io::Result<usize>> {
        let mut inner = ScriptSock(self.0.clone());
        Pin::new(&mut inner).poll_write_vectored(cx, bufs)
    }
    fn is_write_vectored(&self) -> bool {
        self.0.lock().unwrap().vectored
    }
    fn poll_flush(self: Pin<&mut Self>, cx: &mut Context<'_>) -> Poll<io::Result<()>> {
        let mut inner = ScriptSock(self.0.clone());
        Pin::new(&mut inner).poll_flush(cx)
    }
    fn poll_shutdown(self: Pin<&mut Self>, _cx: &mut Context<'_>) -> Poll<io::Result<()>> {
        Poll::Ready(Ok(()))
    }
}

/// a tokio transport behind hickory's tokio-to-futures adapter (local newtype: `DnsTcpStream` can
/// only be implemented for a local type; every method goes straight to the adapter)
struct Adapted<T: tokio::io::AsyncRead + tokio::io::AsyncWrite>(AsyncIoTokioAsStd<T>);

impl<T: tokio::io::AsyncRead + tokio::io::AsyncWrite + Unpin> AsyncRead for Adapted<T> {
    fn poll_read(mut self: Pin<&mut Self>, cx: &mut Context<'_>, buf: &mut [u8]) -> Poll<io::Result<usize>> {
        Pin::new(&mut self.0).poll_read(cx, buf)
    }
}

impl<T: tokio::io::AsyncRead + tokio::io::AsyncWrite + Unpin> AsyncWrite for Adapted<T> {
    fn poll_write(mut self: Pin<&mut Self>, cx: &mut Context<'_>, buf: &[u8]) -> Poll<io::Result<usize>> {
        Pin::new(&mut self.0).poll_write(cx, buf)
    }
    fn poll_write_vectored(mut self: Pin<&mut Self>, cx: &mut Context<'_>, bufs: &[IoSlice<'_>]) -> Poll<io::Result<usize>> {
        Pin::new(&mut self.0).poll_write_vectored(cx, bufs)
    }
    fn poll_flush(mut self: Pin<&mut Self>, cx: &mut Context<'_>) -> Poll<io::Result<()>> {
        Pin::new(&mut self.0).poll_flush(cx)
    }
    fn poll_close(mut self: Pin<&mut Self>, cx: &mut Context<'_>) -> Poll<io::Result<()>> {
        Pin::new(&mut self.0).poll_close(cx)
    }
}

impl<T: tokio::io::AsyncRead + tokio::io::AsyncWrite + Unpin + Send + Sync + 'static> DnsTcpStream for Adapted<T> {
    type Time = TokioTime;
}

struct Flag(AtomicBool);
impl Wake for Flag {
    fn wake(self: Arc<Self>) {
        self.0.store(true, Ordering::SeqCst);
    }
    fn wake_by_ref(self: &Arc<Self>) {
        self.0.store(true, Ordering::SeqCst);
    }
}

#[derive(Clone, Debug, PartialEq)]
enum Tok {
    Msg(Vec<u8>),
    P,
    I,
    End,
    Err,
}

impl Tok {
    fn show(&self) -> String {
        match self {
            Tok::Msg(m) => format!("m{}", hex(m)),
            Tok::P => "P".into(),
            Tok::I => "I".into(),
            Tok::End => "end".into(),
            Tok::Err => "err".into(),
        }
    }
}

struct Case {
    wrap: char,
    vec: bool,
    /// the socket is a tokio transport behind `AsyncIoTokioAsStd`
    adapted: bool,
    rs: Vec<REv>,
    ws: Vec<WEv>,
    prog: Vec<Act>,
}

fn parse_list<T>(s: &str, f: impl Fn(&str) -> Option<T>) -> Option<Vec<T>> {
    if s == "-" {
        return Some(vec![]);
    }
    s.split(',').map(f).collect()
}

fn parse_case(t: &[&str]) -> Option<Case> {
    let ["io", wrap, vec, rs, ws, prog] = t else { return None };
    let wrap = match *wrap {
        "t" => 't',
        "c" => 'c',
        "o" => 'o',
        "O" => 'O',
        "b" => 'b',
        "f" => 'f',
        _ => return None,
    };
    let (vec, adapted) = match *vec {
        "v" => (true, false),
        "s" => (false, false),
        "V" => (true, true),
        "S" => (false, true),
        _ => return None,
    };
    let rs = parse_list(rs, |e| match e {
        "p" => Some(REv::Pending),
        "e" => Some(REv::Eof),
        "x" => Some(REv::Err),
        _ => unhex(e.strip_prefix('d')?).map(REv::Data),
    })?;
    let ws = parse_list(ws, |e| match e {
        "p" => Some(WEv::Pending),
        "x" => Some(WEv::Err),
        _ => e.strip_prefix('a')?.parse().ok().map(WEv::Accept),
    })?;
    let prog = parse_list(prog, |e| match e {
        "p" => Some(Act::Poll),
        "h" => Some(Act::DropHandles),
        _ => {
            if let Some(h) = e.strip_prefix('s') {
                unhex(h).map(|m| Act::Send(m, true))
            } else {
                unhex(e.strip_prefix('S')?).map(|m| Act::Send(m, false))
            }
        }
    })?;
    Some(Case { wrap, vec, adapted, rs, ws, prog })
}

fn show_rs(rs: &[REv]) -> String {
    if rs.is_empty() {
        return "-".into();
    }
    rs.iter()
        .map(|e| match e {
            REv::Data(d) => format!("d{}", hex(d)),
            REv::Pending => "p".into(),
            REv::Eof => "e".into(),
            REv::Err => "x".into(),
        })
        .collect::<Vec<_>>()
        .join(",")
}

fn show_ws(ws: &[WEv]) -> String {
    if ws.is_empty() {
        return "-".into();
    }
    ws.iter()
        .map(|e| match e {
            WEv::Accept(n) => format!("a{n}"),
            WEv::Pending => "p".into(),
            WEv::Err => "x".into(),
        })
        .collect::<Vec<_>>()
        .join(",")
}

fn show_prog(p: &[Act]) -> String {
    if p.is_empty() {
        return "-".into();
    }
    p.iter()
        .map(|e| match e {
            Act::Send(m, true) => format!("s{}", hex(m)),
            Act::Send(m, false) => format!("S{}", hex(m)),
            Act::Poll => "p".into(),
            Act::DropHandles => "h".into(),
        })
        .collect::<Vec<_>>()
        .join(",")
}

fn case_line(wrap: char, vec: bool, rs: &[REv], ws: &[WEv], prog: &[Act]) -> String {
    format!("io {} {} {} {} {}", wrap, if vec { "v" } else { "s" }, show_rs(rs), show_ws(ws), show_prog(prog))
}

struct RunOut {
    trace: Vec<Tok>,
    written: Vec<u8>,
    flushes: usize,
    /// messages handed to `send` (in order) with their dst-ok flag
    sent: Vec<(Vec<u8>, bool)>,
    send_failed: bool,
    rejected: usize,
    /// a Pending that nobody will wake although no socket half said "blocks for ever"
    lost_wakeup: bool,
    /// which half blocked when the run ended with `I`
    idle_side: Option<char>,
    /// after a read-side idle: did a later `send` wake the task?
    idle_send_wakes: Option<bool>,
    misuse: Vec<String>,
}

fn tokio_rt() -> &'static tokio::runtime::Runtime {
    static RT: OnceLock<tokio::runtime::Runtime> = OnceLock::new();
    RT.get_or_init(|| tokio::runtime::Builder::new_current_thread().enable_time().build().expect("runtime"))
}

type Items = Pin<Box<dyn Stream<Item = Result<Vec<u8>, ()>> + Send>>;

fn run_case(c: &Case) -> RunOut {
    let peer: SocketAddr = "192.0.2.1:53".parse().unwrap();
    let other: SocketAddr = "192.0.2.2:53".parse().unwrap();
    let sock = Arc::new(Mutex::new(Sock {
        rs: c.rs.iter().cloned().collect(),
        ws: c.ws.iter().cloned().collect(),
        vectored: c.vec,
        ..Default::default()
    }));
    let _guard = tokio_rt().enter();
    fn wrap<S: DnsTcpStream>(wrap: char, tcp: TcpStream<S>) -> Items {
        match wrap {
            't' => Box::pin(tcp.map(|r| r.map(|m| m.into_parts().0).map_err(|_| ()))),
            'c' => Box::pin(TcpClientStream::from_stream(tcp).map(|r| r.map(|m| m.into_parts().0).map_err(|_| ()))),
            'o' => Box::pin(TimeoutStream::new(tcp, Duration::from_secs(0)).map(|r| r.map(|m| m.into_parts().0).map_err(|_| ()))),
            _ => Box::pin(TimeoutStream::new(tcp, Duration::from_secs(3600)).map(|r| r.map(|m| m.into_parts().0).map_err(|_| ()))),
        }
    }
    /// the three ways of building a `TcpStream` around an established socket
    fn make<S: DnsTcpStream>(wrap: char, s: S, peer: SocketAddr) -> (TcpStream<S>, hickory_net::BufDnsStreamHandle) {
        match wrap {
            'b' => TcpStream::from_stream_with_buffer_size(s, peer, 32),
            'f' => {
                let (fut, handle) = TcpStream::with_future(std::future::ready(Ok(s)), peer, Duration::from_secs(3600));
                (tokio_rt().block_on(fut).expect("a ready connection future"), handle)
            }
            _ => TcpStream::from_stream(s, peer),
        }
    }
    let (mut stream, handle): (Items, _) = if !c.adapted {
        let (tcp, handle) = make(c.wrap, ScriptSock(sock.clone()), peer);
        (wrap(c.wrap, tcp), handle)
    } else if c.vec {
        let (tcp, handle) = make(c.wrap, Adapted(AsyncIoTokioAsStd(TokioSock(sock.clone()))), peer);
        (wrap(c.wrap, tcp), handle)
    } else {
        let (tcp, handle) = make(c.wrap, Adapted(AsyncIoTokioAsStd(AsyncIoStdAsTokio(ScriptSock(sock.clone())))), peer);
        (wrap(c.wrap, tcp), handle)
    };
    let flag = Arc::new(Flag(AtomicBool::new(false)));
    let waker = Waker::from(flag.clone());
    let mut cx = Context::from_waker(&waker);
    let mut out = RunOut {
        trace: vec![],
        written: vec![],
        flushes: 0,
        sent: vec![],
        send_failed: false,
        rejected: 0,
        lost_wakeup: false,
        idle_side: None,
        idle_send_wakes: None,
        misuse: vec![],
    };
    let mut poll_once = |out: &mut RunOut| -> Tok {
        flag.0.store(false, Ordering::SeqCst);
        sock.lock().unwrap().idle_side = None;
        let t = match stream.as_mut().poll_next(&mut cx) {
            Poll::Ready(Some(Ok(m))) => Tok::Msg(m),
            Poll::Ready(Some(Err(()))) => Tok::Err,
            Poll::Ready(None) => Tok::End,
            Poll::Pending => {
                if flag.0.load(Ordering::SeqCst) {
                    Tok::P
                } else {
                    let side = sock.lock().unwrap().idle_side;
                    if side.is_none() {
                        out.lost_wakeup = true;
                    }
                    out.idle_side = side;
                    Tok::I
                }
            }
        };
        out.trace.push(t.clone());
        t
    };
    let mut done = false;
    let mut handle = Some(handle);
    for a in &c.prog {
        match a {
            Act::DropHandles => {
                handle = None;
            }
            Act::Send(m, ok) => {
                let Some(handle) = handle.as_mut() else { continue };
                let r = if *ok {
                    handle.send(SerialMessage::new(m.clone(), peer))
                } else {
                    handle.with_remote_addr(other).send(SerialMessage::new(m.clone(), peer))
                };
                if r.is_err() {
                    // rejected by the bounded outbound queue: the caller is told, the message is not sent
                    out.send_failed = true;
                    out.rejected += 1;
                } else {
                    out.sent.push((m.clone(), *ok));
                }
            }
            Act::Poll => {
                let t = poll_once(&mut out);
                if matches!(t, Tok::End | Tok::Err) {
                    done = true;
                    break;
                }
            }
        }
    }
    while !done {
        let t = poll_once(&mut out);
        done = matches!(t, Tok::End | Tok::Err | Tok::I);
    }
    {
        let g = sock.lock().unwrap();
        out.written = g.written.clone();
        out.flushes = g.flushes;
        out.misuse = g.misuse.clone();
    }
    // waker contract of the outbound queue (validated only): after the read half blocked, the
    // queue has been polled empty in the same poll_next, so a later send must wake the task
    if let (Some(handle), true) = (handle.as_mut(), out.trace.last() == Some(&Tok::I) && out.idle_side == Some('r')) {
        flag.0.store(false, Ordering::SeqCst);
        let _ = handle.send(SerialMessage::new(vec![0xEE], peer));
        out.idle_send_wakes = Some(flag.0.load(Ordering::SeqCst));
    }
    out
}

fn frame(m: &[u8]) -> Vec<u8> {
    let mut v = vec![(m.len() >> 8) as u8, m.len() as u8];
    v.extend_from_slice(m);
    v
}

#[derive(Debug, PartialEq, Clone, Copy)]
enum Tail {
    Boundary,
    InPrefix,
    InBody,
    ZeroFrame,
}

/// independent reference: cut a byte stream into length-prefixed messages
fn deframe(mut b: &[u8]) -> (Vec<Vec<u8>>, Tail) {
    let mut out = vec![];
    loop {
        if b.is_empty() {
            return (out, Tail::Boundary);
        }
        if b.len() < 2 {
            return (out, Tail::InPrefix);
        }
        let n = ((b[0] as usize) << 8) | b[1] as usize;
        if n == 0 {
            return (out, Tail::ZeroFrame);
        }
        if b.len() - 2 < n {
            return (out, Tail::InBody);
        }
        out.push(b[2..2 + n].to_vec());
        b = &b[2 + n..];
    }
}

#[derive(Debug, PartialEq, Clone, Copy)]
enum Ending {
    Eof,
    Err,
    Open,
}

fn stream_of(rs: &[REv]) -> (Vec<u8>, Ending) {
    let mut b = vec![];
    for e in rs {
        match e {
            REv::Data(d) => b.extend_from_slice(d),
            REv::Pending => {}
            REv::Eof => return (b, Ending::Eof),
            REv::Err => return (b, Ending::Err),
        }
    }
    (b, Ending::Open)
}

pub fn exec(line: &str, rec: &mut Recorder) {
    let t: Vec<&str> = line.split_whitespace().collect();
    let Some(c) = parse_case(&t) else {
        rec.stat("skipped.unparsable-case");
        return;
    };
    let r = catch(|| run_case(&c));
    let o = match r {
        Ok(o) => o,
        Err(p) => {
            let idx = rec.case(line.to_string(), format!("panic {p}"));
            rec.fail(idx, format!("panic: {p}"), "");
            return;
        }
    };
    let out = format!(
        "{} w={} f={} r={}",
        o.trace.iter().map(Tok::show).collect::<Vec<_>>().join(","),
        hex(&o.written),
        o.flushes,
        o.rejected
    );
    if o.send_failed {
        rec.stat_n("send.rejected-by-full-queue", o.rejected as u64);
    }
    let idx = rec.case(line.to_string(), out);

    // ---------------------------------------------------------------- the property's oracle
    let mut fails: Vec<String> = vec![];
    let delivered: Vec<&Vec<u8>> = o.trace.iter().filter_map(|t| if let Tok::Msg(m) = t { Some(m) } else { None }).collect();
    let term = o.trace.last().cloned().unwrap_or(Tok::I);
    let (bytes, ending) = stream_of(&c.rs);
    let (exp, tail) = deframe(&bytes);
    let write_can_fail = c.ws.contains(&WEv::Err) || c.prog.iter().any(|a| matches!(a, Act::Send(_, false)));
    let write_blocked = term == Tok::I && o.idle_side == Some('w');
    let oversize = o.sent.iter().any(|(m, _)| m.len() > 0xFFFF);

    // every delivered message is one of the framed messages, whole, in order, once
    if delivered.len() > exp.len() || delivered.iter().zip(&exp).any(|(a, b)| *a != b) {
        fails.push(format!(
            "delivered messages are not a prefix of the framed messages (truncated/merged/duplicated): got {} expected {}",
            delivered.len(),
            exp.len()
        ));
    }
    if delivered.iter().any(|m| m.is_empty()) {
        fails.push("an empty message was delivered".into());
    }
    if matches!(term, Tok::Msg(_) | Tok::P) {
        fails.push("run did not end in end/err/blocked".into());
    }
    if !write_can_fail && !write_blocked {
        // the receive side ran to the end of the script: all complete frames, then the right ending
        if delivered.len() != exp.len() {
            fails.push(format!("only {} of {} complete messages delivered", delivered.len(), exp.len()));
        }
        let want: &[Tok] = match (tail, ending) {
            (Tail::ZeroFrame, _) => &[Tok::Err, Tok::I], // allowed to end with an error (or wait for the close)
            (Tail::Boundary, Ending::Eof) => &[Tok::End],
            (_, Ending::Eof) => &[Tok::Err],
            (_, Ending::Err) => &[Tok::Err],
            (_, Ending::Open) => &[Tok::I],
        };
        if !want.contains(&term) {
            fails.push(format!("stream ended with {} but {:?}/{:?} requires {:?}", term.show(), tail, ending, want.iter().map(Tok::show).collect::<Vec<_>>()));
        }
    }
    // send side: bytes accepted by the socket = concatenated frames (a prefix while incomplete)
    if !oversize {
        let mut want = vec![];
        for (m, ok) in &o.sent {
            if !*ok {
                break;
            }
            want.extend(frame(m));
        }
        if !want.starts_with(&o.written) {
            fails.push("bytes written are not a prefix of the concatenated frames".into());
        }
        if !write_can_fail && !write_blocked {
            if o.written != want {
                fails.push(format!("bytes written incomplete although the send loop finished: {} of {}", o.written.len(), want.len()));
            }
            if o.flushes != o.sent.len() {
                fails.push(format!("{} flushes for {} messages", o.flushes, o.sent.len()));
            }
        }
    } else {
        rec.stat("send.oversize(>65535, outside the property)");
    }
    if o.send_failed && o.sent.len() < 33 {
        fails.push(format!("handle.send rejected a message with only {} queued (buffer 32 + 1)", o.sent.len()));
    }
    // validated only: wake-ups
    if o.lost_wakeup {
        fails.push("poll_next returned Pending although no socket call blocked and nobody woke the task".into());
    }
    if o.idle_send_wakes == Some(false) {
        fails.push("after the socket blocked, a later handle.send did not wake the task".into());
    }
    for m in &o.misuse {
        fails.push(format!("socket misuse: {m}"));
    }
    for f in fails {
        rec.fail(idx, f, "");
    }

    // ---------------------------------------------------------------- distribution
    rec.stat(&format!("wrap.{}", c.wrap));
    rec.stat(if c.vec { "sock.vectored" } else { "sock.default-vectored" });
    rec.stat(&format!("read.msgs-delivered.{}", delivered.len().min(4)));
    rec.stat(&format!("read.tail.{tail:?}.{ending:?}"));
    rec.stat(&format!("end.{}", match term { Tok::I => format!("blocked-{}", o.idle_side.unwrap_or('?')), t => t.show() }));
    let nchunks = c.rs.iter().filter(|e| matches!(e, REv::Data(_))).count();
    rec.stat(&format!(
        "read.chunks.{}",
        match nchunks {
            0 => "0",
            1 => "1",
            2..=4 => "2-4",
            5..=16 => "5-16",
            17..=64 => "17-64",
            _ => "65+",
        }
    ));
    rec.stat_n("read.pending-events", c.rs.iter().filter(|e| **e == REv::Pending).count() as u64);
    rec.stat_n("write.pending-events", c.ws.iter().filter(|e| **e == WEv::Pending).count() as u64);
    rec.stat(&format!("send.msgs.{}", o.sent.len().min(4)));
    for m in exp.iter().chain(o.sent.iter().map(|(m, _)| m)) {
        rec.stat(&format!(
            "msg.len.{}",
            match m.len() {
                0 => "0",
                1 => "1",
                2 => "2",
                3..=254 => "3-254",
                255 => "255",
                256 => "256",
                257..=300 => "257-300",
                _ => "301+",
            }
        ));
    }
    if c.prog.iter().any(|a| *a == Act::Poll) {
        rec.stat("prog.interleaved-polls");
    }
    // chunk boundary inside a length prefix?
    let mut off = 0usize;
    let mut starts = vec![];
    {
        let mut p = 0usize;
        for m in &exp {
            starts.push(p);
            p += 2 + m.len();
        }
        starts.push(p);
    }
    let mut inside = false;
    for e in &c.rs {
        if let REv::Data(d) = e {
            off += d.len();
            if starts.iter().any(|s| off == s + 1) {
                inside = true;
            }
        }
        if matches!(e, REv::Eof | REv::Err) {
            break;
        }
    }
    if inside {
        rec.stat("read.chunk-boundary-inside-length-prefix");
    }
    if !delivered.is_empty() || (!o.written.is_empty() && c.ws.len() > 1) {
        if c.rs.len() + c.ws.len() >= 2 {
            rec.nontrivial(idx);
        }
    }
}

// -------------------------------------------------------------------- generators

fn gen_len(r: &mut Rng) -> usize {
    match r.below(3) {
        0 => *r.pick(&[1usize, 2, 255, 256]),
        1 => r.range(1, 12) as usize,
        _ => r.range(1, 300) as usize,
    }
}

/// cut `bytes` into chunks by `style`
fn chunk(r: &mut Rng, bytes: &[u8], style: u64, marks: &[usize]) -> Vec<Vec<u8>> {
    let mut out = vec![];
    let mut i = 0;
    while i < bytes.len() {
        let rest = bytes.len() - i;
        let n = match style {
            0 => 1,
            1 => r.range(1, 8) as usize,
            2 => r.range(1, rest as u64) as usize,
            3 => rest,
            4 => {
                // cut exactly after the first byte of each length prefix and nowhere else
                let next = marks.iter().map(|m| m + 1).find(|m| *m > i).unwrap_or(bytes.len());
                next - i
            }
            _ => {
                if r.chance(1, 2) {
                    r.range(1, 3) as usize
                } else {
                    r.range(1, 400) as usize
                }
            }
        }
        .min(rest)
        .max(1);
        out.push(bytes[i..i + n].to_vec());
        i += n;
    }
    out
}

fn sprinkle(r: &mut Rng, chunks: Vec<Vec<u8>>, dens: u64) -> Vec<REv> {
    // dens: 0 none, 1 = 1/4, 2 = 1/2, 3 = before every chunk (and runs of Pending)
    let mut out = vec![];
    for c in chunks {
        let k = match dens {
            0 => 0,
            1 => r.chance(1, 4) as u64,
            2 => r.chance(1, 2) as u64,
            _ => 1 + r.below(3) * r.chance(1, 4) as u64,
        };
        for _ in 0..k {
            out.push(REv::Pending);
        }
        out.push(REv::Data(c));
    }
    out
}

fn gen_write_script(r: &mut Rng, total: usize, nmsgs: usize) -> Vec<WEv> {
    let mut ws = vec![];
    let style = r.below(5);
    let mut budget = 0usize;
    while budget < total + 4 {
        let n = match style {
            0 => 1,
            1 => r.range(1, 8) as usize,
            2 => r.range(1, 400) as usize,
            3 => 65535,
            _ => *r.pick(&[1usize, 2, 3, 255, 256, 257, 300]),
        };
        if r.chance(1, 5) {
            ws.push(WEv::Pending);
        }
        if r.chance(1, 40) {
            ws.push(WEv::Accept(0));
        }
        ws.push(WEv::Accept(n));
        budget += n.min(2); // an accept may be spent on the 2-byte prefix alone
        if style == 3 && ws.len() > 4 * nmsgs + 8 {
            break;
        }
    }
    if r.chance(1, 25) && !ws.is_empty() {
        let i = r.below(ws.len() as u64) as usize;
        ws.insert(i, WEv::Err);
    }
    if r.chance(7, 8) {
        for _ in 0..(2 * nmsgs + 2) {
            if r.chance(1, 6) {
                ws.push(WEv::Pending);
            }
            ws.push(WEv::Accept(65535));
        }
    } else if r.chance(1, 2) {
        // short script: the write half blocks for ever somewhere
        let k = r.below(ws.len() as u64 + 1) as usize;
        ws.truncate(k);
    }
    ws
}

/// many tiny messages against the bounded outbound queue (32 + 1), drained in fits and starts
fn gen_burst(r: &mut Rng) -> String {
    let n = r.range(28, 48) as usize;
    let mut prog = vec![];
    for i in 0..n {
        let l = r.range(1, 3) as usize;
        let mut m = r.bytes(l);
        m[0] = i as u8;
        prog.push(Act::Send(m, !r.chance(1, 30)));
        if r.chance(1, 9) {
            prog.push(Act::Poll);
        }
    }
    let mut ws = vec![];
    for _ in 0..r.range(0, 3 * n as u64) {
        match r.below(6) {
            0 => ws.push(WEv::Pending),
            1 => ws.push(WEv::Accept(1)),
            _ => ws.push(WEv::Accept(*r.pick(&[2usize, 3, 4, 5, 65535]))),
        }
    }
    if r.chance(3, 4) {
        for _ in 0..(3 * n) {
            ws.push(WEv::Accept(65535));
        }
    }
    let rs = if r.chance(1, 2) { vec![REv::Eof] } else { vec![REv::Pending, REv::Data(vec![0, 1, 0x61]), REv::Pending, REv::Eof] };
    case_line('t', r.chance(1, 2), &rs, &ws, &prog)
}

fn gen_case(r: &mut Rng) -> String {
    if r.chance(1, 40) {
        return gen_burst(r);
    }
    // ---- receive direction
    let k = r.range(1, 3) as usize;
    let mut msgs: Vec<Vec<u8>> = (0..k).map(|_| { let n = gen_len(r); r.bytes(n) }).collect();
    if r.chance(1, 12) {
        let i = r.below(msgs.len() as u64 + 1) as usize;
        msgs.insert(i, vec![]); // zero-length frame
    }
    if r.chance(1, 10) {
        msgs.clear();
    }
    let mut bytes = vec![];
    let mut marks = vec![];
    for m in &msgs {
        marks.push(bytes.len());
        bytes.extend(frame(m));
    }
    let ending = r.below(20);
    // 0..8 eof at the boundary, 8..13 eof inside, 13..16 open, 16..18 err somewhere, 18..20 open after a cut
    let cut = |r: &mut Rng, b: &mut Vec<u8>| {
        if b.len() > 1 {
            let k = r.range(1, b.len() as u64 - 1) as usize;
            b.truncate(k);
        }
    };
    match ending {
        8..=12 | 18 | 19 => cut(r, &mut bytes),
        16 | 17 => {
            if r.chance(1, 2) {
                cut(r, &mut bytes)
            }
        }
        _ => {}
    }
    let style = r.below(6);
    let dens = r.below(4);
    let chunks = chunk(r, &bytes, style, &marks);
    let mut rs = sprinkle(r, chunks, dens);
    match ending {
        0..=12 => {
            if r.chance(1, 3) {
                rs.push(REv::Pending);
            }
            rs.push(REv::Eof);
            if r.chance(1, 8) {
                rs.push(REv::Data(vec![0, 1, 0x41])); // bytes after the close are never seen
            }
        }
        16 | 17 => rs.push(REv::Err),
        _ => {
            if r.chance(1, 3) {
                rs.push(REv::Pending);
            }
        }
    }
    // ---- send direction
    let mut ws = vec![];
    let mut prog = vec![];
    if r.chance(1, 2) {
        let n = r.range(1, 3) as usize;
        let mut total = 0;
        let mut sends = vec![];
        for _ in 0..n {
            let l = if r.chance(1, 15) { 0 } else { gen_len(r) };
            total += l + 2;
            sends.push(Act::Send(r.bytes(l), !r.chance(1, 40)));
        }
        ws = gen_write_script(r, total, n);
        let inter = r.chance(1, 3);
        for s in sends {
            prog.push(s);
            if inter {
                for _ in 0..r.below(3) {
                    prog.push(Act::Poll);
                }
            }
        }
    } else if r.chance(1, 6) {
        for _ in 0..r.range(1, 3) {
            prog.push(Act::Poll);
        }
    }
    if r.chance(1, 5) {
        // receive-only use: every handle dropped up front, after the sends, or after a few polls
        match r.below(3) {
            0 => prog.insert(0, Act::DropHandles),
            1 => prog.push(Act::DropHandles),
            _ => {
                for _ in 0..r.range(1, 3) {
                    prog.push(Act::Poll);
                }
                prog.push(Act::DropHandles);
            }
        }
    }
    let wrap = *r.pick(&['t', 't', 't', 'c', 'o', 'O']);
    case_line(wrap, r.chance(1, 2), &rs, &ws, &prog)
}

/// all compositions of `bytes` into chunks (2^(n-1) of them), each as a read script
fn all_compositions(bytes: &[u8], mut f: impl FnMut(Vec<Vec<u8>>)) {
    let n = bytes.len();
    if n == 0 {
        f(vec![]);
        return;
    }
    for mask in 0u32..(1u32 << (n - 1)) {
        let mut chunks = vec![];
        let mut cur = vec![bytes[0]];
        for i in 1..n {
            if mask & (1 << (i - 1)) != 0 {
                chunks.push(std::mem::take(&mut cur));
            }
            cur.push(bytes[i]);
        }
        chunks.push(cur);
        f(chunks);
    }
}

fn enumerate(o: &Opts, rec: &mut Recorder) {
    // message-length configurations whose stream has at most `cap` bytes
    let cap = if o.thorough() { 16 } else { 10 };
    let cfgs: &[&[usize]] = &[
        &[1], &[2], &[1, 1], &[3], &[2, 1], &[1, 2], &[5], &[1, 1, 1], &[7], &[3, 2], &[2, 2, 2], &[1, 2, 3], &[10], &[4, 4],
        &[3, 3, 2], &[5, 5], &[12], &[3, 3, 3], &[13], &[14], &[6, 6], &[4, 4, 2], &[0], &[1, 0], &[0, 1], &[1, 0, 1], &[2, 0, 2, 0],
    ];
    let mut seed = 0x41u8;
    for cfg in cfgs {
        let total: usize = cfg.iter().map(|l| l + 2).sum();
        if total > cap {
            continue;
        }
        let mut bytes = vec![];
        let mut msgs = vec![];
        for l in *cfg {
            let m: Vec<u8> = (0..*l).map(|_| { seed = seed.wrapping_add(1); seed }).collect();
            bytes.extend(frame(&m));
            msgs.push(m);
        }
        // EOF at every position × every composition of the bytes before it
        for cutpos in 0..=bytes.len() {
            if !o.thorough() && cutpos != bytes.len() && cutpos > 6 {
                continue;
            }
            let mut lines = vec![];
            all_compositions(&bytes[..cutpos], |chunks| {
                let mut rs: Vec<REv> = chunks.iter().cloned().map(REv::Data).collect();
                rs.push(REv::Eof);
                lines.push(case_line('t', true, &rs, &[], &[]));
                if cutpos == bytes.len() {
                    // the same with Pending before every chunk, and left open instead of closed
                    let mut rp = vec![];
                    for c in &chunks {
                        rp.push(REv::Pending);
                        rp.push(REv::Data(c.clone()));
                    }
                    lines.push(case_line('t', true, &rp, &[], &[]));
                }
            });
            for l in lines {
                exec(&l, rec);
            }
        }
        // send direction: every composition of the frame bytes as acceptance sizes, both socket kinds
        if msgs.iter().all(|m| !m.is_empty()) || total <= 9 {
            let prog: Vec<Act> = msgs.iter().map(|m| Act::Send(m.clone(), true)).collect();
            let mut lines = vec![];
            all_compositions(&bytes, |chunks| {
                let mut ws: Vec<WEv> = chunks.iter().map(|c| WEv::Accept(c.len())).collect();
                for _ in 0..(2 * msgs.len() + 1) {
                    ws.push(WEv::Accept(65535));
                }
                lines.push(case_line('t', true, &[REv::Eof], &ws, &prog));
                lines.push(case_line('t', false, &[REv::Eof], &ws, &prog));
                lines.push(adapted(&case_line('t', true, &[REv::Eof], &ws, &prog)));
                lines.push(adapted(&case_line('t', false, &[REv::Eof], &ws, &prog)));
            });
            for l in lines {
                exec(&l, rec);
            }
        }
    }
}

/// the same case with the socket as a tokio transport behind `AsyncIoTokioAsStd` (v -> V, s -> S)
fn adapted(line: &str) -> String {
    let mut t: Vec<String> = line.split(' ').map(|x| x.to_string()).collect();
    if t.len() > 2 {
        t[2] = t[2].to_uppercase();
    }
    t.join(" ")
}

/// hand-built cases that are too long for the corpus file
fn built() -> Vec<String> {
    let mut v = vec![];
    // 40 one-byte messages queued before the first poll: the bounded queue (32 + 1 sender slot) rejects the tail
    let prog: Vec<Act> = (0..40u8).map(|i| Act::Send(vec![i], true)).collect();
    let ws: Vec<WEv> = (0..90).map(|_| WEv::Accept(65535)).collect();
    v.push(case_line('t', true, &[REv::Eof], &ws, &prog));
    // 33 fit exactly
    let prog: Vec<Act> = (0..33u8).map(|i| Act::Send(vec![i], true)).collect();
    v.push(case_line('t', false, &[REv::Data(vec![0, 1, 0x61]), REv::Eof], &ws, &prog));
    // 65535 bytes: the largest message a two-byte prefix can announce; 65536 / 65539: `len as u16` wraps
    for n in [65535usize, 65536, 65539] {
        let m: Vec<u8> = (0..n).map(|i| (i % 251) as u8).collect();
        let ws = vec![WEv::Accept(1), WEv::Accept(40000), WEv::Pending, WEv::Accept(65535), WEv::Accept(65535)];
        v.push(case_line('t', true, &[REv::Eof], &ws, &[Act::Send(m, true)]));
    }
    // a 65535-byte message received in three chunks
    let m: Vec<u8> = (0..65535usize).map(|i| (i % 253) as u8).collect();
    let f = frame(&m);
    v.push(case_line(
        't',
        true,
        &[REv::Data(f[..1].to_vec()), REv::Data(f[1..30000].to_vec()), REv::Pending, REv::Data(f[30000..].to_vec()), REv::Eof],
        &[],
        &[],
    ));
    v
}

pub fn run(o: &Opts, rec: &mut Recorder) {
    rec.rule = "scripted sockets from a seeded generator: 0-3 framed messages of lengths 1..300 (1, 2, 255, 256 forced often), zero-length frames, six chunking styles (all 1-byte, small, large, whole, cuts inside every length prefix, mixed), Pending sprinkled at four densities, EOF at the boundary / inside prefix / inside body, read errors, open ends; 0-3 outbound messages with acceptance scripts (1-byte, small, large, accept-0, Pending, errors, blocked), sends up front or interleaved with polls; one case in three with the socket as a tokio transport behind the iocompat adapters (V/S); plus ALL compositions of small streams (see distribution; the send direction also through the adapters). Non-trivial: at least one message delivered or framed bytes written through a multi-event script; distinct by case line".into();
    for l in o.pre_lines.clone() {
        exec(&l, rec);
    }
    rec.corpus_cases = rec.cases.len();
    if o.replay_only {
        return;
    }
    for l in built() {
        exec(&l, rec);
    }
    let before = rec.cases.len();
    enumerate(o, rec);
    rec.stat_n("enumerated.all-compositions-cases", (rec.cases.len() - before) as u64);
    let mut r = Rng::new(o.seed);
    for _ in 0..o.n(12_000, 300_000) {
        let mut l = gen_case(&mut r);
        if r.chance(1, 3) {
            l = adapted(&l);
        }
        if l.starts_with("io t ") && r.chance(1, 6) {
            // the other two constructors of the same machine
            l = format!("io {} {}", if r.chance(1, 2) { "b" } else { "f" }, &l[5..]);
        }
        exec(&l, rec);
    }
}
