//! C12 — dynamic update (RFC 2136) on the real `SqliteZoneHandler`.
//!
//! A history is `begin <origin> <rec>*`, then `upd P <rec>* U <rec>*` / `raw <rec>*` / `pre <rec>*`
//! lines, then `end`.  `upd` runs `verify_prerequisites` → `pre_scan` → `update_records(.., true)` in the
//! order `ZoneHandler::update` does (authorisation is C13's subject).  After every line the zone
//! (`records()`, map order, Vec order inside a set), the SOA serial and the result are printed.
//!
//! The oracle is a reference implementation written from the RFC 2136 pseudocode (§3.2.5, §3.4.1.3,
//! §3.4.2.7) over a flat set of RRs, plus the zone invariants and the serial clause of the property.
use std::collections::BTreeSet;

use hickory_net::runtime::TokioRuntimeProvider;
use hickory_net::xfer::Protocol;
use hickory_proto::op::{Message, OpCode, Query, ResponseCode};
use hickory_proto::rr::TSigner;
use hickory_proto::rr::rdata::tsig::TsigAlgorithm;
use futures_util::{FutureExt, StreamExt};
use hickory_net::runtime::Time;
use hickory_net::BufDnsStreamHandle;
use hickory_proto::dnssec::rdata::DNSKEY;
use hickory_proto::dnssec::{crypto::Ed25519SigningKey, DnssecSigner, SigningKey};
use hickory_proto::rr::LowerName;
use hickory_server::dnssec::NxProofKind;
use hickory_server::server::{Request, RequestHandler, ResponseHandle};
use hickory_server::zone_handler::Catalog;
use std::sync::Arc;
use hickory_server::zone_handler::ZoneHandler;
use hickory_proto::rr::rdata::SOA;
use hickory_proto::rr::{DNSClass, Name, RData, Record, RecordType};
use hickory_proto::serialize::binary::{BinDecodable, BinDecoder, BinEncodable, BinEncoder};
use hickory_server::store::in_memory::InMemoryZoneHandler;
use hickory_server::store::sqlite::SqliteZoneHandler;
use hickory_server::zone_handler::{AxfrPolicy, ZoneType};

use crate::common::*;

pub const T_A: u16 = 1;
pub const T_NS: u16 = 2;
pub const T_CNAME: u16 = 5;
pub const T_SOA: u16 = 6;
pub const T_TXT: u16 = 16;
pub const T_AAAA: u16 = 28;
pub const T_IXFR: u16 = 251;
pub const T_AXFR: u16 = 252;
pub const T_ANY: u16 = 255;
pub const C_IN: u16 = 1;
pub const C_CH: u16 = 3;
pub const C_NONE: u16 = 254;
pub const C_ANY: u16 = 255;

pub type Handler = SqliteZoneHandler<TokioRuntimeProvider>;

// ------------------------------------------------------------------------------------------------
// record tokens  <name>,<type>,<class>,<ttl>,<rdata>
// ------------------------------------------------------------------------------------------------

/// the SOA fields other than the serial, abstracted to one id on the case line
fn soa_rest(id: u32) -> (Name, Name, i32, i32, i32, u32) {
    let n = |s: &str| Name::from_ascii(s).unwrap();
    match id {
        0 => (n("ns1.example.com."), n("admin.example.com."), 3600, 600, 86400, 300),
        1 => (n("ns1.example.com."), n("admin.example.com."), 3600, 600, 86400, 60),
        _ => (n("ns2.example.com."), n("hostmaster.example.com."), 7200, 900, 1209600, 3600),
    }
}

fn soa_rest_id(s: &SOA) -> u32 {
    for id in 0..3 {
        let (m, r, a, b, c, d) = soa_rest(id);
        if s.mname == m && s.rname == r && s.refresh == a && s.retry == b && s.expire == c && s.minimum == d {
            return id;
        }
    }
    99
}

pub fn rdata_tok(d: &RData) -> String {
    match d {
        RData::Update0(_) => "-".into(),
        RData::SOA(s) => format!("s{}.{}", s.serial, soa_rest_id(s)),
        d => {
            let mut buf = Vec::new();
            {
                let mut enc = BinEncoder::new(&mut buf);
                d.emit(&mut enc).expect("rdata emit");
            }
            format!("x{}", hex(&buf))
        }
    }
}

/// RDATA token as the reference compares it: the domain name inside NS / CNAME RDATA ignores ASCII case
/// (RFC 4343; a length octet <= 63 is never a letter, so lower-casing the octets lower-cases the labels)
pub fn norm_rd(rtype: u16, rd: String) -> String {
    if (rtype == T_NS || rtype == T_CNAME) && rd.starts_with('x') {
        if let Some(b) = unhex(&rd[1..]) {
            let l: Vec<u8> = b.iter().map(|c| c.to_ascii_lowercase()).collect();
            return format!("x{}", hex(&l));
        }
    }
    rd
}

pub fn rec_tok(r: &Record) -> String {
    format!("{},{},{},{},{}", name_tok(&r.name), u16::from(r.record_type()), u16::from(r.dns_class), r.ttl, rdata_tok(&r.data))
}

pub fn parse_rec(tok: &str) -> Option<Record> {
    let p: Vec<&str> = tok.split(',').collect();
    if p.len() != 5 {
        return None;
    }
    let name = parse_name(p[0])?;
    let rtype: u16 = p[1].parse().ok()?;
    let class: u16 = p[2].parse().ok()?;
    let ttl: u32 = p[3].parse().ok()?;
    let mut rec = if p[4] == "-" {
        Record::update0(name, ttl, RecordType::from(rtype))
    } else if let Some(s) = p[4].strip_prefix('s') {
        let (serial, rest) = s.split_once('.')?;
        let (m, r, a, b, c, d) = soa_rest(rest.parse().ok()?);
        if rtype != T_SOA {
            return None;
        }
        Record::from_rdata(name, ttl, RData::SOA(SOA::new(m, r, serial.parse().ok()?, a, b, c, d)))
    } else if let Some(h) = p[4].strip_prefix('x') {
        // through the real wire decoder: name type class ttl rdlength rdata
        let rd = unhex(h)?;
        if rd.is_empty() {
            return None;
        }
        let mut wire = Vec::new();
        {
            let mut enc = BinEncoder::new(&mut wire);
            name.emit(&mut enc).ok()?;
        }
        wire.extend_from_slice(&rtype.to_be_bytes());
        wire.extend_from_slice(&C_IN.to_be_bytes());
        wire.extend_from_slice(&ttl.to_be_bytes());
        wire.extend_from_slice(&(rd.len() as u16).to_be_bytes());
        wire.extend_from_slice(&rd);
        let mut dec = BinDecoder::new(&wire);
        let mut r = Record::read(&mut dec).ok()?;
        r.name = name; // keep the letter case / fqdn flag of the token
        r
    } else {
        return None;
    };
    rec.dns_class = DNSClass::from(class);
    Some(rec)
}

// ------------------------------------------------------------------------------------------------
// the handler under test
// ------------------------------------------------------------------------------------------------

pub fn rt() -> tokio::runtime::Runtime {
    tokio::runtime::Builder::new_current_thread().enable_all().build().expect("runtime")
}

pub fn new_handler(origin: &Name, recs: &[Record]) -> Handler {
    new_handler_as(origin, recs, ZoneType::Primary, true)
}

pub fn new_handler_as(origin: &Name, recs: &[Record], zone_type: ZoneType, allow_update: bool) -> Handler {
    let mut mem = InMemoryZoneHandler::<TokioRuntimeProvider>::empty(origin.clone(), zone_type, AxfrPolicy::Deny, None);
    for r in recs {
        mem.upsert_mut(r.clone(), 0);
    }
    let mut h = SqliteZoneHandler::new(mem, AxfrPolicy::Deny, allow_update, false);
    h.set_tsig_signers(vec![signer()]);
    h
}

/// one RR of the observed zone
#[derive(Clone, Debug, PartialEq, Eq, PartialOrd, Ord)]
pub struct RR {
    pub name: String, // lower-case name token
    pub rtype: u16,
    pub ttl: u32,
    pub rd: String, // rdata token
}

impl RR {
    pub fn soa_serial(&self) -> Option<u32> {
        self.rd.strip_prefix('s')?.split_once('.')?.0.parse().ok()
    }
    fn soa_masked(&self) -> RR {
        let mut r = self.clone();
        if let Some(s) = self.rd.strip_prefix('s') {
            if let Some((_, rest)) = s.split_once('.') {
                r.rd = format!("s*.{rest}");
            }
        }
        r
    }
}

/// what `records()` shows: canonical dump (for the model diff), the flat RR set and the keys whose
/// `RecordSet` is empty (left behind by `RecordSet::remove`)
#[derive(Clone, Debug, Default, PartialEq)]
pub struct Snap {
    pub dump: String,
    pub rrs: Vec<RR>,
    pub ghosts: Vec<(String, u16)>,
    pub serial: u32,
}

pub fn snapshot(rt: &tokio::runtime::Runtime, h: &Handler) -> Snap {
    rt.block_on(async {
        let recs = h.records().await;
        let mut parts = Vec::new();
        let mut rrs = Vec::new();
        let mut ghosts = Vec::new();
        for (k, set) in recs.iter() {
            let kn = name_tok(&Name::from(k.name()));
            let t = u16::from(k.record_type);
            let mut items = Vec::new();
            for r in set.records_without_rrsigs() {
                let rd = rdata_tok(&r.data);
                items.push(format!("{}:{}", r.ttl, rd));
                rrs.push(RR { name: kn.clone(), rtype: t, ttl: r.ttl, rd: norm_rd(t, rd) });
            }
            if items.is_empty() {
                ghosts.push((kn.clone(), t));
            }
            parts.push(format!("{kn}/{t}={}", items.join(";")));
        }
        drop(recs);
        let serial = h.serial().await;
        Snap { dump: if parts.is_empty() { "-".into() } else { parts.join(" ") }, rrs, ghosts, serial }
    })
}

pub fn rc_tok(c: ResponseCode) -> &'static str {
    match c {
        ResponseCode::FormErr => "FORMERR",
        ResponseCode::ServFail => "SERVFAIL",
        ResponseCode::NXDomain => "NXDOMAIN",
        ResponseCode::NotImp => "NOTIMP",
        ResponseCode::Refused => "REFUSED",
        ResponseCode::YXDomain => "YXDOMAIN",
        ResponseCode::YXRRSet => "YXRRSET",
        ResponseCode::NXRRSet => "NXRRSET",
        ResponseCode::NotAuth => "NOTAUTH",
        ResponseCode::NotZone => "NOTZONE",
        _ => "OTHER",
    }
}

/// (stage, result token).  Mirrors `ZoneHandler::update` after authorisation.
pub fn run_update(rt: &tokio::runtime::Runtime, h: &Handler, pre: &[Record], upd: &[Record]) -> (&'static str, String) {
    let r = catch(|| {
        rt.block_on(async {
            if let Err(c) = h.verify_prerequisites(pre).await {
                return ("prereq", rc_tok(c).to_string());
            }
            if let Err(c) = h.pre_scan(upd).await {
                return ("prescan", rc_tok(c).to_string());
            }
            match h.update_records(upd, true).await {
                Ok(true) => ("apply", "ok1".to_string()),
                Ok(false) => ("apply", "ok0".to_string()),
                Err(c) => ("apply", rc_tok(c).to_string()),
            }
        })
    });
    match r {
        Ok(x) => x,
        Err(_) => ("apply", "panic".to_string()),
    }
}

/// the TSIG key every `updf` message is signed with (authorisation itself is C13's subject)
pub fn signer() -> TSigner {
    TSigner::new(b"0123456789abcdef0123456789abcdef".to_vec(), TsigAlgorithm::HmacSha256, Name::from_ascii("update-key.").unwrap(), 300).expect("tsigner")
}

pub const NOW: u64 = 1_700_000_000;

/// a signed UPDATE message on the wire, parsed back into a `Request` as the server does
pub fn build_request(origin: &Name, pre: &[Record], upd: &[Record], signer: &TSigner) -> Option<Request> {
    let mut zone = Query::new(origin.clone(), RecordType::SOA);
    zone.set_query_class(DNSClass::IN);
    let mut m = Message::query();
    m.id = 4711;
    m.op_code = OpCode::Update;
    m.recursion_desired = false;
    m.add_query(zone);
    m.add_answers(pre.iter().cloned());
    m.add_authorities(upd.iter().cloned());
    m.finalize(signer, NOW).ok()?;
    let bytes = m.to_vec().ok()?;
    // a message that does not fit into 65 535 octets is silently truncated by the encoder (RRs dropped, TC set):
    // that is the client's problem, not an UPDATE the server ever sees in full — skip it
    let back = Message::from_vec(&bytes).ok()?;
    if back.truncation || back.answers.len() != pre.len() || back.authorities.len() != upd.len() {
        return None;
    }
    Request::from_bytes(bytes, "127.0.0.1:5300".parse().unwrap(), Protocol::Udp).ok()
}

/// the clock of the `Catalog` path: the fixed instant the messages are signed at
pub struct FixedTime;

#[async_trait::async_trait]
impl Time for FixedTime {
    async fn delay_for(duration: std::time::Duration) {
        tokio::time::sleep(duration).await
    }
    async fn timeout<F: 'static + std::future::Future + Send>(duration: std::time::Duration, future: F) -> Result<F::Output, std::io::Error> {
        tokio::time::timeout(duration, future).await.map_err(|_| std::io::Error::new(std::io::ErrorKind::TimedOut, "timeout"))
    }
    fn current_time() -> u64 {
        NOW
    }
}

/// an UPDATE message on the wire for the `Catalog` entry point.  `kind`: ok (signed with the configured key) | unsigned |
/// badkey (signed with a key the server does not know) | ztype (zone section of type A) | nozone (a zone the catalog
/// does not serve)
pub fn catalog_message(origin: &Name, pre: &[Record], upd: &[Record], kind: &str) -> Option<Vec<u8>> {
    let zname = if kind == "nozone" { Name::from_ascii("example.org.").unwrap() } else { origin.clone() };
    let mut zone = Query::new(zname, if kind == "ztype" { RecordType::A } else { RecordType::SOA });
    zone.set_query_class(DNSClass::IN);
    let mut m = Message::query();
    m.id = 4712;
    m.op_code = OpCode::Update;
    m.recursion_desired = false;
    m.add_query(zone);
    m.add_answers(pre.iter().cloned());
    m.add_authorities(upd.iter().cloned());
    match kind {
        "unsigned" => {}
        "badkey" => {
            let other = TSigner::new(b"ffffffffffffffffffffffffffffffff".to_vec(), TsigAlgorithm::HmacSha256, Name::from_ascii("other-key.").unwrap(), 300).ok()?;
            m.finalize(&other, NOW).ok()?;
        }
        "badsig" => {
            // the configured key name, another secret
            let other = TSigner::new(b"ffffffffffffffffffffffffffffffff".to_vec(), TsigAlgorithm::HmacSha256, Name::from_ascii("update-key.").unwrap(), 300).ok()?;
            m.finalize(&other, NOW).ok()?;
        }
        "expired" => {
            m.finalize(&signer(), NOW - 100_000).ok()?;
        }
        _ => {
            m.finalize(&signer(), NOW).ok()?;
        }
    }
    let bytes = m.to_vec().ok()?;
    let back = Message::from_vec(&bytes).ok()?;
    if back.truncation || back.answers.len() != pre.len() || back.authorities.len() != upd.len() {
        return None;
    }
    Some(bytes)
}

/// the server's real dispatch: `Catalog::handle_request` → `Catalog::update` → `ZoneHandler::update`; the rcode of the response
pub fn run_update_catalog(rt: &tokio::runtime::Runtime, cat: &Catalog, bytes: Vec<u8>) -> String {
    let src: std::net::SocketAddr = "127.0.0.1:5300".parse().unwrap();
    let r = catch(|| {
        rt.block_on(async {
            let Ok(req) = Request::from_bytes(bytes, src, Protocol::Tcp) else { return "undecodable".to_string() };
            let (handle, mut rx) = BufDnsStreamHandle::new(src);
            cat.handle_request::<ResponseHandle, FixedTime>(&req, ResponseHandle::new(src, handle, Protocol::Tcp)).await;
            match rx.next().now_or_never() {
                Some(Some(m)) => match Message::from_vec(&m.into_parts().0) {
                    Ok(resp) => match resp.response_code {
                        ResponseCode::NoError => "NOERROR".to_string(),
                        c => rc_tok(c).to_string(),
                    },
                    Err(_) => "undecodable-response".to_string(),
                },
                _ => "no-response".to_string(),
            }
        })
    });
    r.unwrap_or_else(|_| "panic".to_string())
}

/// a DNSSEC-enabled handler (`is_dnssec_enabled`, one Ed25519 zone signing key, NSEC chain): `update_records` then
/// goes through `secure_zone()` (regenerate NSEC, bump the serial, re-sign) instead of `increment_soa_serial`
pub fn new_dnssec_handler(origin: &Name, recs: &[Record], nsec3: bool) -> Option<Handler> {
    let nx = if nsec3 {
        NxProofKind::Nsec3 { algorithm: hickory_proto::dnssec::Nsec3HashAlgorithm::SHA1, salt: Arc::from(vec![0xAAu8, 0xBB]), iterations: 1, opt_out: false }
    } else {
        NxProofKind::Nsec
    };
    let mut mem = InMemoryZoneHandler::<TokioRuntimeProvider>::empty(origin.clone(), ZoneType::Primary, AxfrPolicy::Deny, Some(nx));
    for r in recs {
        mem.upsert_mut(r.clone(), 0);
    }
    let pk = Ed25519SigningKey::generate_pkcs8().ok()?;
    let key = Ed25519SigningKey::from_pkcs8(&pk).ok()?;
    let signer_ = DnssecSigner::new(DNSKEY::from_key(&key.to_public_key().ok()?), Box::new(key), origin.clone(), std::time::Duration::from_secs(86400));
    mem.add_zone_signing_key_mut(signer_).ok()?;
    mem.secure_zone_mut().ok()?;
    let mut h = SqliteZoneHandler::new(mem, AxfrPolicy::Deny, true, true);
    h.set_tsig_signers(vec![signer()]);
    Some(h)
}

/// the records the DNSSEC machinery itself maintains are not the UPDATE's business: the oracle looks at the rest
fn without_dnssec(mut s: Snap) -> Snap {
    // (the zone's DNSKEY / NSEC3PARAM are ordinary data an UPDATE may delete; NSEC / NSEC3 / RRSIG are regenerated)
    s.rrs.retain(|r| ![46u16, 47, 50, 51].contains(&r.rtype));
    s
}

/// the whole `ZoneHandler::update` (authorise → prerequisites → prescan → apply)
pub fn run_update_full(rt: &tokio::runtime::Runtime, h: &Handler, origin: &Name, pre: &[Record], upd: &[Record]) -> Option<String> {
    let req = build_request(origin, pre, upd, &signer())?;
    Some(match catch(|| rt.block_on(h.update(&req, NOW))) {
        Ok((Ok(true), _)) => "ok1".to_string(),
        Ok((Ok(false), _)) => "ok0".to_string(),
        Ok((Err(c), _)) => rc_tok(c).to_string(),
        Err(_) => "panic".to_string(),
    })
}

// ------------------------------------------------------------------------------------------------
// reference implementation of RFC 2136 (from the RFC's pseudocode; flat set of RRs)
// ------------------------------------------------------------------------------------------------

/// one RR of a message, in the reference's vocabulary
#[derive(Clone, Debug)]
pub struct MRR {
    pub name: String, // lower-case name token
    pub in_zone: bool,
    pub rtype: u16,
    pub class: u16,
    pub ttl: u32,
    pub rd: String, // "-" = RDLENGTH 0
}

fn lower_name(n: &Name) -> Name {
    n.to_lowercase()
}

pub fn mrr(origin: &Name, r: &Record) -> MRR {
    let ln = lower_name(&r.name);
    // RFC 2136 §1.2 zone_of: the name is at or below the zone name (label-wise suffix)
    let ol: Vec<Vec<u8>> = lower_name(origin).iter().map(|l| l.to_vec()).collect();
    let nl: Vec<Vec<u8>> = ln.iter().map(|l| l.to_vec()).collect();
    let in_zone = nl.len() >= ol.len() && nl[nl.len() - ol.len()..] == ol[..];
    let rtype = u16::from(r.record_type());
    MRR { name: name_tok(&ln), in_zone, rtype, class: u16::from(r.dns_class), ttl: r.ttl, rd: norm_rd(rtype, rdata_tok(&r.data)) }
}

/// RFC 1982 serial comparison, 32 bit: a < b
pub fn serial_lt(a: u32, b: u32) -> bool {
    a != b && ((a < b && b - a < 0x8000_0000) || (a > b && a - b > 0x8000_0000))
}

fn zone_name(z: &[RR], name: &str) -> bool {
    z.iter().any(|r| r.name == name)
}
fn zone_rrset<'a>(z: &'a [RR], name: &str, t: u16) -> Vec<&'a RR> {
    z.iter().filter(|r| r.name == name && r.rtype == t).collect()
}

/// §3.2.5: every rcode that some prerequisite raises (empty = prerequisites satisfied)
pub fn ref_prereq(z: &[RR], pre: &[MRR]) -> BTreeSet<&'static str> {
    let mut errs = BTreeSet::new();
    let mut temp: Vec<&MRR> = vec![];
    for rr in pre {
        if rr.ttl != 0 {
            errs.insert("FORMERR");
            continue;
        }
        if !rr.in_zone {
            errs.insert("NOTZONE");
            continue;
        }
        if rr.class == C_ANY {
            if rr.rd != "-" {
                errs.insert("FORMERR");
            } else if rr.rtype == T_ANY {
                if !zone_name(z, &rr.name) {
                    errs.insert("NXDOMAIN");
                }
            } else if zone_rrset(z, &rr.name, rr.rtype).is_empty() {
                errs.insert("NXRRSET");
            }
        } else if rr.class == C_NONE {
            if rr.rd != "-" {
                errs.insert("FORMERR");
            } else if rr.rtype == T_ANY {
                if zone_name(z, &rr.name) {
                    errs.insert("YXDOMAIN");
                }
            } else if !zone_rrset(z, &rr.name, rr.rtype).is_empty() {
                errs.insert("YXRRSET");
            }
        } else if rr.class == C_IN {
            temp.push(rr);
        } else {
            errs.insert("FORMERR");
        }
    }
    // for rrset in temp: if zone_rrset<name,type> != rrset → NXRRSET   (set equality on RDATA)
    let keys: BTreeSet<(String, u16)> = temp.iter().map(|r| (r.name.clone(), r.rtype)).collect();
    for (n, t) in keys {
        let want: BTreeSet<&str> = temp.iter().filter(|r| r.name == n && r.rtype == t).map(|r| r.rd.as_str()).collect();
        let have: BTreeSet<&str> = zone_rrset(z, &n, t).iter().map(|r| r.rd.as_str()).collect();
        if want != have {
            errs.insert("NXRRSET");
        }
    }
    errs
}

fn is_meta(t: u16) -> bool {
    // ANY | AXFR | MAILA | MAILB | IXFR (QUERY metatypes)
    (251..=255).contains(&t)
}

/// §3.4.1.3
pub fn ref_prescan(upd: &[MRR]) -> BTreeSet<&'static str> {
    let mut errs = BTreeSet::new();
    for rr in upd {
        if !rr.in_zone {
            errs.insert("NOTZONE");
        } else if rr.class == C_IN {
            if is_meta(rr.rtype) {
                errs.insert("FORMERR");
            }
        } else if rr.class == C_ANY {
            if rr.ttl != 0 || rr.rd != "-" || (is_meta(rr.rtype) && rr.rtype != T_ANY) {
                errs.insert("FORMERR");
            }
        } else if rr.class == C_NONE {
            if rr.ttl != 0 || is_meta(rr.rtype) {
                errs.insert("FORMERR");
            }
        } else {
            errs.insert("FORMERR");
        }
    }
    errs
}

/// The two places where RFC 2136's text and its pseudocode differ; both readings are accepted.
#[derive(Clone, Copy, Debug)]
pub struct Variant {
    /// §3.4.2.2 text: an SOA with *equal* serial is ignored; pseudocode (`>`): it replaces
    pub soa_equal_replaces: bool,
    /// §3.4.2.4 text: SOA / last-NS deletions are ignored only at the zone name; pseudocode: at any name
    pub protect_any_name: bool,
    /// RFC 1982 leaves serials exactly 2^31 apart incomparable; either outcome is accepted
    pub soa_undefined_replaces: bool,
}

pub const VARIANTS: [Variant; 8] = [
    Variant { soa_equal_replaces: false, protect_any_name: false, soa_undefined_replaces: false },
    Variant { soa_equal_replaces: false, protect_any_name: true, soa_undefined_replaces: false },
    Variant { soa_equal_replaces: true, protect_any_name: false, soa_undefined_replaces: false },
    Variant { soa_equal_replaces: true, protect_any_name: true, soa_undefined_replaces: false },
    Variant { soa_equal_replaces: false, protect_any_name: false, soa_undefined_replaces: true },
    Variant { soa_equal_replaces: false, protect_any_name: true, soa_undefined_replaces: true },
    Variant { soa_equal_replaces: true, protect_any_name: false, soa_undefined_replaces: true },
    Variant { soa_equal_replaces: true, protect_any_name: true, soa_undefined_replaces: true },
];

/// §3.4.2.7 — the zone's RRs after the Update Section (before any automatic serial bump)
pub fn ref_apply(z: &[RR], zname: &str, upd: &[MRR], v: Variant) -> Vec<RR> {
    ref_apply_steps(z, zname, upd, v).0
}

/// also: did any single Update RR change the zone (even if a later one undid it)?
pub fn ref_apply_steps(z: &[RR], zname: &str, upd: &[MRR], v: Variant) -> (Vec<RR>, bool) {
    let mut z: Vec<RR> = z.to_vec();
    let mut touched = false;
    for rr in upd {
        let before: BTreeSet<RR> = z.iter().cloned().collect();
        z = ref_apply_one(z, zname, rr, v);
        if before != z.iter().cloned().collect::<BTreeSet<RR>>() {
            touched = true;
        }
    }
    (z, touched)
}

fn ref_apply_one(mut z: Vec<RR>, zname: &str, rr: &MRR, v: Variant) -> Vec<RR> {
    'rr: for rr in std::iter::once(rr) {
        if rr.class == C_IN {
            if rr.rtype == T_CNAME {
                if z.iter().any(|r| r.name == rr.name && r.rtype != T_CNAME) {
                    continue 'rr;
                }
            } else if z.iter().any(|r| r.name == rr.name && r.rtype == T_CNAME) {
                continue 'rr;
            }
            let new = RR { name: rr.name.clone(), rtype: rr.rtype, ttl: rr.ttl, rd: rr.rd.clone() };
            if rr.rtype == T_SOA {
                let cur = z.iter().find(|r| r.name == rr.name && r.rtype == T_SOA);
                let (Some(cur), Some(ns)) = (cur, new.soa_serial()) else { continue 'rr };
                let zs = cur.soa_serial().unwrap_or(0);
                // ignored if the new serial is lower (RFC 1982) — or, by the text, equal
                let undefined = ns.wrapping_sub(zs) == 0x8000_0000;
                if serial_lt(ns, zs) || (ns == zs && !v.soa_equal_replaces) || (undefined && !v.soa_undefined_replaces) {
                    continue 'rr;
                }
            }
            for zrr in z.iter_mut() {
                if zrr.name == rr.name && zrr.rtype == rr.rtype && (rr.rtype == T_CNAME || rr.rtype == T_SOA || zrr.rd == rr.rd) {
                    *zrr = new;
                    continue 'rr;
                }
            }
            z.push(new);
        } else if rr.class == C_ANY {
            if rr.rtype == T_ANY {
                if rr.name == zname {
                    z.retain(|r| r.name != rr.name || r.rtype == T_SOA || r.rtype == T_NS);
                } else {
                    z.retain(|r| r.name != rr.name);
                }
            } else if rr.name == zname && (rr.rtype == T_SOA || rr.rtype == T_NS) {
                continue 'rr;
            } else {
                z.retain(|r| !(r.name == rr.name && r.rtype == rr.rtype));
            }
        } else if rr.class == C_NONE {
            let guarded = v.protect_any_name || rr.name == zname;
            if rr.rtype == T_SOA && guarded {
                continue 'rr;
            }
            if rr.rtype == T_NS && guarded {
                let set = zone_rrset(&z, &rr.name, T_NS);
                if set.len() == 1 && set[0].rd == rr.rd {
                    continue 'rr;
                }
            }
            z.retain(|r| !(r.name == rr.name && r.rtype == rr.rtype && r.rd == rr.rd));
        }
    }
    z
}

fn as_set(z: &[RR], mask_serial_at: Option<&str>) -> BTreeSet<RR> {
    z.iter()
        .map(|r| if r.rtype == T_SOA && Some(r.name.as_str()) == mask_serial_at { r.soa_masked() } else { r.clone() })
        .collect()
}

// ------------------------------------------------------------------------------------------------
// classes of the known deviations that are still open, computed from (zone before, prerequisites).
// (Nine other deviations found by this check were repaired in /repo — known-findings.json `fixed` —
// and are ordinary violations again.)
// ------------------------------------------------------------------------------------------------

pub const CL_PRE_LOOKUP: &str = "prereq-uses-query-lookup";
pub const CL_PRE_SUBSET: &str = "prereq-value-dependent-subset";
/// DNSSEC-enabled zone with an NSEC3 chain: the second `secure_zone()` trips `debug_assert!(upserted)` in `nsec3_zone`
pub const CL_NSEC3: &str = "nsec3-zone-update-debug-assert";
pub const T_NULL: u16 = 10;
pub const T_MAILB: u16 = 253;
pub const T_MAILA: u16 = 254;

fn parent_tok(n: &str) -> Option<String> {
    // "F:aa.bb.cc" → "F:bb.cc"
    let rest = n.strip_prefix("F:")?;
    if rest.is_empty() {
        return None;
    }
    Some(match rest.split_once('.') {
        Some((_, p)) => format!("F:{p}"),
        None => "F:".to_string(),
    })
}

struct Triggers {
    pre_lookup: bool,
    pre_subset: bool,
}

fn triggers(before: &Snap, zname: &str, pre: &[MRR]) -> Triggers {
    let z = &before.rrs;
    let mut t = Triggers { pre_lookup: false, pre_subset: false };
    for rr in pre {
        if !rr.in_zone {
            continue;
        }
        // CNAME at the name, a delegation at or above it (below the apex), or a wildcard that covers it
        if rr.rtype != T_CNAME && z.iter().any(|r| r.name == rr.name && r.rtype == T_CNAME) {
            t.pre_lookup = true;
        }
        let mut cur = Some(rr.name.clone());
        while let Some(n) = cur {
            if n == zname || n == "F:" {
                break;
            }
            if z.iter().any(|r| r.name == n && r.rtype == T_NS) {
                t.pre_lookup = true;
            }
            cur = parent_tok(&n);
        }
        if !zone_name(z, &rr.name) || zone_rrset(z, &rr.name, rr.rtype).is_empty() {
            let mut cur = parent_tok(&rr.name);
            while let Some(n) = cur {
                let w = if n == "F:" { "F:2a".to_string() } else { format!("F:2a.{}", &n[2..]) };
                if zone_name(z, &w) {
                    t.pre_lookup = true;
                }
                cur = parent_tok(&n);
            }
        }
        if rr.class == C_IN {
            let have: BTreeSet<&str> = zone_rrset(z, &rr.name, rr.rtype).iter().map(|r| r.rd.as_str()).collect();
            let want: BTreeSet<&str> = pre.iter().filter(|r| r.class == C_IN && r.name == rr.name && r.rtype == rr.rtype).map(|r| r.rd.as_str()).collect();
            if want.is_subset(&have) && want != have {
                t.pre_subset = true;
            }
        }
    }
    t
}

fn first<'a>(c: &[(bool, &'a str)]) -> &'a str {
    c.iter().find(|x| x.0).map(|x| x.1).unwrap_or("")
}

// ------------------------------------------------------------------------------------------------
// oracle
// ------------------------------------------------------------------------------------------------

pub struct Verdict {
    pub fails: Vec<(String, String)>, // (what, class)
    pub changed: bool,
    pub accepted: bool,
}

/// zone invariants of the property, on the observed zone
pub fn check_invariants(after: &Snap, zname: &str) -> Vec<(&'static str, String)> {
    let mut v = vec![];
    let soas: Vec<&RR> = after.rrs.iter().filter(|r| r.rtype == T_SOA).collect();
    let apex_soa = soas.iter().filter(|r| r.name == zname).count();
    if apex_soa != 1 {
        v.push(("apex-soa", format!("zone has {apex_soa} SOA records at the apex (must be exactly one)")));
    }
    if soas.len() > apex_soa {
        v.push(("extra-soa", format!("zone holds {} SOA record(s) away from the apex", soas.len() - apex_soa)));
    }
    if !after.rrs.iter().any(|r| r.name == zname && r.rtype == T_NS) {
        v.push(("apex-ns", "zone has no NS at the apex".to_string()));
    }
    for r in after.rrs.iter().filter(|r| r.rtype == T_CNAME) {
        if after.rrs.iter().any(|o| o.name == r.name && o.rtype != T_CNAME) {
            v.push(("cname", format!("{} holds a CNAME together with other data", r.name)));
            break;
        }
    }
    v
}

pub fn judge(origin: &Name, before: &Snap, after: &Snap, pre: &[Record], upd: &[Record], stage: &str, res: &str) -> Verdict {
    judge_with(origin, before, after, pre, upd, stage, res, &before.rrs)
}

/// `touch_rrs`: the zone on which "did any Update RR change anything" is decided (on a DNSSEC-enabled zone: including the
/// NSEC / NSEC3 records the server keeps there — deleting them is a change even though they come back)
#[allow(clippy::too_many_arguments)]
pub fn judge_with(origin: &Name, before: &Snap, after: &Snap, pre: &[Record], upd: &[Record], stage: &str, res: &str, touch_rrs: &[RR]) -> Verdict {
    let zname = name_tok(&lower_name(origin));
    let pre_m: Vec<MRR> = pre.iter().map(|r| mrr(origin, r)).collect();
    let upd_m: Vec<MRR> = upd.iter().map(|r| mrr(origin, r)).collect();
    let t = triggers(before, &zname, &pre_m);
    let mut fails: Vec<(String, String)> = vec![];
    let accepted = stage == "apply" && (res == "ok0" || res == "ok1");
    let changed = as_set(&before.rrs, Some(&zname)) != as_set(&after.rrs, Some(&zname));

    if res == "panic" {
        fails.push(("update panicked".into(), "".into()));
    }
    // --- prerequisites judged against the zone as it is now
    let pe = ref_prereq(&before.rrs, &pre_m);
    let pre_cls = first(&[(t.pre_lookup, CL_PRE_LOOKUP), (t.pre_subset, CL_PRE_SUBSET)]);
    if stage == "prereq" {
        if pe.is_empty() {
            fails.push((format!("prerequisites hold on the current zone (RFC 2136 §3.2) but the update was rejected with {res}"), pre_cls.into()));
        } else if !pe.contains(res) {
            fails.push((format!("prerequisite failure answered with {res}; RFC 2136 §3.2.5 gives one of {pe:?}"), pre_cls.into()));
        }
    } else if !pe.is_empty() {
        fails.push((format!("a prerequisite fails on the current zone ({pe:?}) but the message passed prerequisite checking"), pre_cls.into()));
    }
    // --- prescan
    if stage != "prereq" {
        let se = ref_prescan(&upd_m);
        if stage == "apply" && !accepted && res != "panic" {
            // the prescan exists so that `update_records` (which journals first) cannot fail on the section
            fails.push((format!("update_records answered {res} after pre_scan had accepted the update section (its rows are already in the journal)"), "".into()));
        }
        if stage == "prescan" {
            if se.is_empty() {
                fails.push((format!("update section is well-formed (RFC 2136 §3.4.1) but was rejected with {res}"), "".into()));
            } else if !se.contains(res) {
                fails.push((format!("prescan failure answered with {res}; RFC 2136 §3.4.1.3 gives one of {se:?}"), "".into()));
            }
        } else if !se.is_empty() {
            fails.push((format!("update section must be rejected by the prescan ({se:?}) but was processed"), "".into()));
        }
    }
    // --- a rejected message changes nothing
    if !accepted && res != "panic" && (before.rrs != after.rrs || before.serial != after.serial) {
        fails.push((format!("message answered {res} at stage {stage} changed the zone"), "".into()));
    }
    // --- an accepted message leaves the RRset contents of §3.4.2
    if accepted {
        let got = as_set(&after.rrs, Some(&zname));
        let ok = VARIANTS.iter().any(|v| as_set(&ref_apply(&before.rrs, &zname, &upd_m, *v), Some(&zname)) == got);
        if !ok {
            let want = as_set(&ref_apply(&before.rrs, &zname, &upd_m, VARIANTS[1]), Some(&zname));
            let missing: Vec<String> = want.difference(&got).take(3).map(|r| format!("{}/{} {}:{}", r.name, r.rtype, r.ttl, r.rd)).collect();
            let extra: Vec<String> = got.difference(&want).take(3).map(|r| format!("{}/{} {}:{}", r.name, r.rtype, r.ttl, r.rd)).collect();
            let cls = "";
            fails.push((format!("zone after the update differs from RFC 2136 §3.4.2: missing {missing:?} unexpected {extra:?}"), cls.into()));
        }
    }
    // --- invariants after every message
    for (_kind, what) in check_invariants(after, &zname) {
        fails.push((what, "".into()));
    }
    // --- the serial has strictly advanced (RFC 1982) iff the content changed
    if res != "panic" {
        let explicit_soa = upd_m.iter().any(|r| r.class == C_IN && r.rtype == T_SOA && r.name == zname);
        // advanced in one RFC 1982 step, or along the chain of explicit SOA serials of the message (each of them
        // newer than the one before; "newer" is not transitive over more than 2^31) and a final +1
        let mut cur = before.serial;
        let mut steps = 0;
        for r in upd_m.iter().filter(|r| r.class == C_IN && r.rtype == T_SOA && r.name == zname) {
            // (an "SOA" RR without RDATA sets nothing)
            let Some(ns) = (RR { name: String::new(), rtype: T_SOA, ttl: 0, rd: r.rd.clone() }).soa_serial() else { continue };
            if serial_lt(cur, ns) {
                cur = ns;
                steps += 1;
            }
        }
        let via_explicit = steps > 0 && (after.serial == cur || after.serial == cur.wrapping_add(1));
        let adv = serial_lt(before.serial, after.serial) || via_explicit;
        let cls = "";
        if changed && !adv {
            fails.push((format!("zone content changed but the SOA serial did not advance ({} → {})", before.serial, after.serial), cls.into()));
        }
        // "unchanged": no single Update RR changes the zone under any accepted reading of §3.4.2 (a message
        // whose RRs change the zone and undo it again may or may not bump the serial)
        let touched = VARIANTS.iter().any(|v| ref_apply_steps(touch_rrs, &zname, &upd_m, *v).1);
        if !changed && !touched && after.serial != before.serial && !(explicit_soa && accepted && adv) {
            fails.push((format!("zone content unchanged but the SOA serial moved ({} → {})", before.serial, after.serial), cls.into()));
        }
    }
    Verdict { fails, changed, accepted }
}

// ------------------------------------------------------------------------------------------------
// executing a history
// ------------------------------------------------------------------------------------------------

pub struct Hist {
    pub rt: tokio::runtime::Runtime,
    pub origin: Name,
    pub h: Option<Arc<Handler>>,
    /// the catalog that serves `h` (entry point of `updc`)
    pub cat: Option<Catalog>,
    /// the history runs on a DNSSEC-enabled handler: no model side (`begind`)
    pub dnssec: bool,
    /// … with an NSEC3 chain (`begind3`), and an update of this history has panicked
    pub nsec3: bool,
    pub panicked: bool,
    pub initial: Vec<Record>,
    /// fed every message through the three public calls; `updf` compares the real `update()` with it
    pub twin: Option<Handler>,
    pub changes: u32,
}

pub fn split_pu<'a>(t: &'a [&'a str]) -> Option<(Vec<Record>, Vec<Record>)> {
    if t.first() != Some(&"P") {
        return None;
    }
    let u = t.iter().position(|x| *x == "U")?;
    let p: Option<Vec<Record>> = t[1..u].iter().map(|x| parse_rec(x)).collect();
    let q: Option<Vec<Record>> = t[u + 1..].iter().map(|x| parse_rec(x)).collect();
    Some((p?, q?))
}

pub fn exec(line: &str, hist: &mut Hist, rec: &mut Recorder) {
    let t: Vec<&str> = line.split_whitespace().collect();
    match t.as_slice() {
        ["begin", origin, recs @ ..] => {
            let (Some(o), Some(rs)) = (parse_name(origin), recs.iter().map(|x| parse_rec(x)).collect::<Option<Vec<_>>>()) else {
                rec.stat("skipped.unparsable-case");
                return;
            };
            let h = Arc::new(new_handler(&o, &rs));
            let s = snapshot(&hist.rt, &h);
            rec.case(line.to_string(), format!("begin {} 0 {}", s.serial, s.dump));
            hist.twin = Some(new_handler(&o, &rs));
            let mut cat = Catalog::new();
            cat.upsert(LowerName::new(&o), vec![h.clone() as Arc<dyn ZoneHandler>]);
            hist.cat = Some(cat);
            hist.dnssec = false;
            hist.nsec3 = false;
            hist.panicked = false;
            hist.initial = rs.clone();
            hist.origin = o;
            hist.h = Some(h);
            hist.changes = 0;
            rec.stat("op.begin");
        }
        ["begind", origin, recs @ ..] | ["begind3", origin, recs @ ..] => {
            // DNSSEC-enabled store variant: implementation vs oracle only
            let (Some(o), Some(rs)) = (parse_name(origin), recs.iter().map(|x| parse_rec(x)).collect::<Option<Vec<_>>>()) else {
                rec.stat("skipped.unparsable-case");
                return;
            };
            let Some(h) = new_dnssec_handler(&o, &rs, t[0] == "begind3") else {
                rec.stat("skipped.dnssec-handler");
                return;
            };
            rec.impl_only += 1;
            rec.case(line.to_string(), "~".into());
            hist.twin = None;
            hist.cat = None;
            hist.dnssec = true;
            hist.nsec3 = t[0] == "begind3";
            hist.panicked = false;
            hist.origin = o;
            hist.h = Some(Arc::new(h));
            hist.changes = 0;
            rec.stat("op.begind");
        }
        ["updc", kind, rest @ ..] => {
            // through the server's dispatch: Catalog::handle_request → Catalog::update → ZoneHandler::update
            let (Some(h), Some(cat), Some((p, u))) = (hist.h.as_ref(), hist.cat.as_ref(), split_pu(rest)) else {
                rec.stat("skipped.unparsable-case");
                return;
            };
            let Some(bytes) = catalog_message(&hist.origin, &p, &u, kind) else {
                rec.stat("skipped.unencodable-message");
                return;
            };
            if *kind == "noupdate" || *kind == "secondary" || *kind == "external" {
                // a catalog of its own whose handler does not take updates at all / is not a primary
                let zt = match *kind { "secondary" => ZoneType::Secondary, "external" => ZoneType::External, _ => ZoneType::Primary };
                let other = Arc::new(new_handler_as(&hist.origin, &hist.initial, zt, *kind != "noupdate"));
                let mut c2 = Catalog::new();
                c2.upsert(LowerName::new(&hist.origin), vec![other.clone() as Arc<dyn ZoneHandler>]);
                let Some(bytes) = catalog_message(&hist.origin, &p, &u, "ok") else { return };
                let before = snapshot(&hist.rt, &other);
                let res = run_update_catalog(&hist.rt, &c2, bytes);
                let after = snapshot(&hist.rt, &other);
                rec.stat("op.updc");
                rec.stat(&format!("updc.{kind}.{res}"));
                rec.impl_only += 1;
                let idx = rec.case(line.to_string(), "~".into());
                let expect = match *kind { "secondary" => "NOTIMP", "external" => "NOTAUTH", _ => "REFUSED" };
                if res != expect {
                    rec.fail(idx, format!("an UPDATE for a zone that takes none ({kind}) was answered {res}, expected {expect}"), "");
                }
                if before != after {
                    rec.fail(idx, format!("an UPDATE for a zone that takes none ({kind}) changed the zone"), "");
                }
                return;
            }
            let before = snapshot(&hist.rt, h);
            let res = run_update_catalog(&hist.rt, cat, bytes);
            let after = snapshot(&hist.rt, h);
            rec.stat("op.updc");
            rec.stat(&format!("updc.{kind}.{res}"));
            match *kind {
                "ok" => {
                    let Some(tw) = hist.twin.as_ref() else { return };
                    let (tstage, tres) = run_update(&hist.rt, tw, &p, &u);
                    let tafter = snapshot(&hist.rt, tw);
                    let idx = rec.case(line.to_string(), format!("cat {res} {} 0 {}", after.serial, after.dump));
                    let want = if tres.starts_with("ok") { "NOERROR" } else { tres.as_str() };
                    if res != want || after != tafter {
                        rec.fail(idx, format!("the response to the UPDATE sent through the Catalog has rcode {res} (serial {}); verify_prerequisites → pre_scan → update_records gives {tstage}/{tres} (serial {}) or leaves a different zone", after.serial, tafter.serial), "");
                    }
                    let as_res = if res == "NOERROR" { tres.clone() } else { res.clone() };
                    let v = judge(&hist.origin, &before, &after, &p, &u, tstage, &as_res);
                    if v.changed {
                        hist.changes += 1;
                    }
                    if v.changed || hist.changes > 0 {
                        rec.nontrivial(idx);
                    }
                    for (what, class) in v.fails {
                        rec.stat(&format!("oracle.fail.{}", if class.is_empty() { "UNCLASSIFIED" } else { &class }));
                        rec.fail(idx, what, &class);
                    }
                }
                "unsigned" => {
                    // modelled: `update` with authorisation refused
                    let idx = rec.case(line.to_string(), format!("cat {res} {} 0 {}", after.serial, after.dump));
                    if res != "REFUSED" {
                        rec.fail(idx, format!("an unsigned UPDATE was answered {res}, not REFUSED"), "");
                    }
                    if before != after {
                        rec.fail(idx, "an unsigned UPDATE changed the zone".to_string(), "");
                    }
                }
                _ => {
                    // no model side: whatever is answered, nothing may change, and never NOERROR
                    rec.impl_only += 1;
                    let idx = rec.case(line.to_string(), "~".into());
                    if before != after {
                        rec.fail(idx, format!("an UPDATE that must be rejected ({kind}) changed the zone"), "");
                    }
                    let expect = match *kind { "badkey" | "badsig" | "expired" => "NOTAUTH", "ztype" => "FORMERR", _ => "" };
                    if res == "NOERROR" || res == "panic" || res == "no-response" || (!expect.is_empty() && res != expect) {
                        rec.fail(idx, format!("an UPDATE that must be rejected ({kind}) was answered {res}{}", if expect.is_empty() { String::new() } else { format!(", expected {expect}") }), "");
                    }
                }
            }
        }
        ["end"] => {
            rec.case(line.to_string(), "end".into());
            hist.cat = None;
            hist.h = None;
            hist.twin = None;
        }
        ["updf", rest @ ..] => {
            // the real `ZoneHandler::update` on a signed wire message; the twin takes the three public calls
            let (Some(h), Some(tw), Some((p, u))) = (hist.h.as_ref(), hist.twin.as_ref(), split_pu(rest)) else {
                rec.stat("skipped.unparsable-case");
                return;
            };
            let before = snapshot(&hist.rt, h);
            let Some(res) = run_update_full(&hist.rt, h, &hist.origin, &p, &u) else {
                rec.stat("skipped.unencodable-message");
                return;
            };
            let after = snapshot(&hist.rt, h);
            let (tstage, tres) = run_update(&hist.rt, tw, &p, &u);
            let tafter = snapshot(&hist.rt, tw);
            let idx = rec.case(line.to_string(), format!("full {res} {} 0 {}", after.serial, after.dump));
            rec.stat("op.updf");
            rec.stat(&format!("updf.{res}"));
            if res != tres || after != tafter {
                rec.fail(idx, format!("ZoneHandler::update answered {res} (serial {}); verify_prerequisites → pre_scan → update_records answers {tstage}/{tres} (serial {}) or leaves a different zone", after.serial, tafter.serial), "");
            }
            let v = judge(&hist.origin, &before, &after, &p, &u, tstage, &res);
            if v.changed {
                hist.changes += 1;
            }
            if v.changed || hist.changes > 0 {
                rec.nontrivial(idx);
            }
            for (what, class) in v.fails {
                rec.stat(&format!("oracle.fail.{}", if class.is_empty() { "UNCLASSIFIED" } else { &class }));
                rec.fail(idx, what, &class);
            }
        }
        ["upd", rest @ ..] => {
            let (Some(h), Some((p, u))) = (hist.h.as_ref(), split_pu(rest)) else {
                rec.stat("skipped.unparsable-case");
                return;
            };
            let before = snapshot(&hist.rt, h);
            let (stage, res) = run_update(&hist.rt, h, &p, &u);
            let after = snapshot(&hist.rt, h);
            if let Some(tw) = hist.twin.as_ref() {
                let _ = run_update(&hist.rt, tw, &p, &u);
            }
            let full_before = before.rrs.clone();
            let (before, after) = if hist.dnssec { (without_dnssec(before), without_dnssec(after)) } else { (before, after) };
            let idx = if hist.dnssec {
                rec.impl_only += 1;
                rec.stat("upd.on-dnssec-enabled-zone");
                rec.case(line.to_string(), "~".into())
            } else {
                rec.case(line.to_string(), format!("{stage} {res} {} 0 {}", after.serial, after.dump))
            };
            let v = judge_with(&hist.origin, &before, &after, &p, &u, stage, &res, &full_before);
            rec.stat("op.upd");
            rec.stat(&format!("upd.{stage}.{res}"));
            rec.stat(&format!("upd.size.prereq{}.update{}", p.len().min(3), u.len().min(5)));
            for r in p.iter() {
                rec.stat(&format!("prereq.class{}.{}", u16::from(r.dns_class), if r.record_type() == RecordType::ANY { "ANY" } else { "rrset" }));
            }
            for r in u.iter() {
                rec.stat(&format!("update.class{}.type{}", u16::from(r.dns_class), u16::from(r.record_type())));
            }
            if !after.ghosts.is_empty() {
                rec.stat("zone.has-emptied-rrset");
            }
            if v.changed {
                hist.changes += 1;
            }
            // non-trivial: the message changed the zone, or it was judged (either way) after an earlier change
            if v.changed || hist.changes > 0 {
                rec.nontrivial(idx);
            }
            if hist.nsec3 && res == "panic" {
                hist.panicked = true;
            }
            for (what, class) in v.fails {
                // on an NSEC3 zone the panic — and what the half-finished `secure_zone()` leaves behind — is the known finding
                let class = if class.is_empty() && hist.nsec3 && hist.panicked { CL_NSEC3.to_string() } else { class };
                rec.stat(&format!("oracle.fail.{}", if class.is_empty() { "UNCLASSIFIED" } else { &class }));
                rec.fail(idx, what, &class);
            }
        }
        ["raw", recs @ ..] => {
            let (Some(h), Some(u)) = (hist.h.as_ref(), recs.iter().map(|x| parse_rec(x)).collect::<Option<Vec<_>>>()) else {
                rec.stat("skipped.unparsable-case");
                return;
            };
            let res = match catch(|| hist.rt.block_on(h.update_records(&u, true))) {
                Ok(Ok(true)) => "ok1".to_string(),
                Ok(Ok(false)) => "ok0".to_string(),
                Ok(Err(c)) => rc_tok(c).to_string(),
                Err(_) => "panic".to_string(),
            };
            let after = snapshot(&hist.rt, h);
            if let Some(tw) = hist.twin.as_ref() {
                let _ = catch(|| hist.rt.block_on(tw.update_records(&u, true)));
            }
            rec.case(line.to_string(), format!("raw {res} {} 0 {}", after.serial, after.dump));
            rec.stat("op.raw");
            rec.stat(&format!("raw.{res}"));
        }
        ["pre", recs @ ..] => {
            let (Some(h), Some(p)) = (hist.h.as_ref(), recs.iter().map(|x| parse_rec(x)).collect::<Option<Vec<_>>>()) else {
                rec.stat("skipped.unparsable-case");
                return;
            };
            let before = snapshot(&hist.rt, h);
            let res = match catch(|| hist.rt.block_on(h.verify_prerequisites(&p))) {
                Ok(Ok(())) => "ok".to_string(),
                Ok(Err(c)) => rc_tok(c).to_string(),
                Err(_) => "panic".to_string(),
            };
            let idx = rec.case(line.to_string(), format!("pre {res}"));
            rec.stat("op.pre");
            rec.stat(&format!("pre.{res}"));
            let zname = name_tok(&lower_name(&hist.origin));
            let pm: Vec<MRR> = p.iter().map(|r| mrr(&hist.origin, r)).collect();
            let pe = ref_prereq(&before.rrs, &pm);
            let t = triggers(&before, &zname, &pm);
            let cls = first(&[(t.pre_lookup, CL_PRE_LOOKUP), (t.pre_subset, CL_PRE_SUBSET)]);
            let bad = if res == "ok" { !pe.is_empty() } else { !pe.contains(res.as_str()) };
            if bad {
                rec.stat(&format!("oracle.fail.{}", if cls.is_empty() { "UNCLASSIFIED" } else { cls }));
                rec.fail(idx, format!("verify_prerequisites answered {res}; RFC 2136 §3.2.5 on the current zone gives {pe:?}"), cls);
            }
            if hist.changes > 0 {
                rec.nontrivial(idx);
            }
        }
        _ => rec.stat("skipped.unparsable-case"),
    }
}

// ------------------------------------------------------------------------------------------------
// generator
// ------------------------------------------------------------------------------------------------

pub struct Universe {
    pub origin: Name,
}

fn n(s: &str) -> Name {
    Name::from_ascii(s).unwrap()
}

pub const NAMES_IN: [&str; 12] = [
    "alias2.example.com.",
    "loop.example.com.",
    "example.com.",
    "a.example.com.",
    "b.example.com.",
    "www.example.com.",
    "alias.example.com.",
    "sub.example.com.",
    "x.sub.example.com.",
    "*.w.example.com.",
    "q.w.example.com.",
    "A.Example.COM.",
];
pub const NAMES_OUT: [&str; 2] = ["other.org.", "com."];

pub const SERIALS: [u32; 12] = [0, 1, 50, 100, 101, 200, 0x7FFF_FFFF, 0x8000_0000, 0x8000_0064, 0xFFFF_FFF0, 0xFFFF_FFFE, 0xFFFF_FFFF];

/// a random spelling of a name: as is / every letter's case flipped at random / all upper case.
/// Case is preserved on the wire; the server must treat all spellings alike (RFC 4343).
pub fn cased(rng: &mut Rng, s: &str) -> String {
    match rng.below(10) {
        0..=4 => s.to_string(),
        5..=7 => s.chars().map(|c| if rng.chance(1, 2) { c.to_ascii_uppercase() } else { c.to_ascii_lowercase() }).collect(),
        8 => s.to_ascii_uppercase(),
        _ => {
            // only the zone part in upper case
            match s.find("example.com.") {
                Some(i) => format!("{}EXAMPLE.COM.", &s[..i]),
                None => s.to_ascii_uppercase(),
            }
        }
    }
}

fn rdata_for(rng: &mut Rng, t: u16) -> RData {
    use hickory_proto::rr::rdata::{A, AAAA, CNAME, NS, TXT};
    match t {
        T_A => RData::A(A::new(10, 0, 0, rng.range(1, 3) as u8)),
        T_AAAA => RData::AAAA(AAAA::new(0x2001, 0xdb8, 0, 0, 0, 0, 0, rng.range(1, 2) as u16)),
        T_TXT => RData::TXT(TXT::new(vec![format!("t{}", rng.range(1, 2))])),
        T_NS => {
            let t = *rng.pick(&["ns1.example.com.", "ns2.example.com.", "ns.sub.example.com."]);
            RData::NS(NS(n(&cased(rng, t))))
        }
        15 => {
            let t = *rng.pick(&["a.example.com.", "b.example.com.", "mail.other.org."]);
            RData::MX(hickory_proto::rr::rdata::MX::new(10, n(t)))
        }
        T_CNAME => {
            let t = *rng.pick(&["a.example.com.", "b.example.com."]);
            RData::CNAME(CNAME(n(&cased(rng, t))))
        }
        _ => RData::TXT(TXT::new(vec!["zz".to_string()])),
    }
}

fn soa_rec(name: &str, ttl: u32, serial: u32, rest: u32) -> Record {
    let (m, r, a, b, c, d) = soa_rest(rest);
    Record::from_rdata(n(name), ttl, RData::SOA(SOA::new(m, r, serial, a, b, c, d)))
}

fn with_class(mut r: Record, c: u16) -> Record {
    r.dns_class = DNSClass::from(c);
    r
}

fn pick_name(rng: &mut Rng) -> &'static str {
    if rng.chance(1, 25) { *rng.pick(&NAMES_OUT) } else { *rng.pick(&NAMES_IN) }
}

fn pick_type(rng: &mut Rng) -> u16 {
    *rng.pick(&[T_A, T_A, T_A, T_TXT, T_TXT, T_NS, T_NS, T_CNAME, T_CNAME, T_AAAA, T_AAAA, T_SOA, T_SOA, 15])
}

fn pick_ttl(rng: &mut Rng) -> u32 {
    *rng.pick(&[300, 300, 600, 0])
}

/// an initial zone: SOA + NS at the apex, hosts, an alias, a delegation with glue, optionally a wildcard
pub fn gen_zone(rng: &mut Rng) -> Vec<Record> {
    let serial = if rng.chance(1, 3) { *rng.pick(&SERIALS) } else { 100 };
    let mut z = vec![soa_rec("example.com.", 3600, serial, 0)];
    let up = rng.chance(1, 4);
    let mk = move |name: &str, ttl: u32, d: RData| Record::from_rdata(n(&if up { name.to_ascii_uppercase() } else { name.to_string() }), ttl, d);
    use hickory_proto::rr::rdata::{A, CNAME, NS, TXT};
    z.push(mk("example.com.", 3600, RData::NS(NS(n("ns1.example.com.")))));
    if rng.chance(2, 3) {
        z.push(mk("example.com.", 3600, RData::NS(NS(n("ns2.example.com.")))));
    }
    if rng.chance(4, 5) {
        z.push(mk("a.example.com.", 300, RData::A(A::new(10, 0, 0, 1))));
        if rng.chance(1, 2) {
            z.push(mk("a.example.com.", 300, RData::A(A::new(10, 0, 0, 2))));
        }
        if rng.chance(1, 2) {
            z.push(mk("a.example.com.", 300, RData::TXT(TXT::new(vec!["t1".to_string()]))));
        }
    }
    if rng.chance(1, 2) {
        z.push(mk("b.example.com.", 600, RData::A(A::new(10, 0, 0, 2))));
    }
    if rng.chance(2, 3) {
        z.push(mk("alias.example.com.", 300, RData::CNAME(CNAME(n("a.example.com.")))));
    }
    if rng.chance(1, 2) {
        z.push(mk("sub.example.com.", 300, RData::NS(NS(n("ns.sub.example.com.")))));
        if rng.chance(1, 2) {
            z.push(mk("sub.example.com.", 300, RData::NS(NS(n("ns2.example.com.")))));
        }
        if rng.chance(1, 2) {
            z.push(mk("x.sub.example.com.", 300, RData::A(A::new(10, 0, 0, 3))));
        }
    }
    if rng.chance(1, 3) {
        z.push(mk("*.w.example.com.", 300, RData::TXT(TXT::new(vec!["t1".to_string()]))));
    }
    if rng.chance(1, 4) {
        // CNAME chain, a CNAME loop, a CNAME out of the zone (what `chase_cnames` walks), DS at the delegation
        z.push(mk("alias2.example.com.", 300, RData::CNAME(CNAME(n("alias.example.com.")))));
        z.push(mk("loop.example.com.", 300, RData::CNAME(CNAME(n("loop.example.com.")))));
        if rng.chance(1, 3) {
            // longer than `chase_cnames` follows (MAX_CNAME_DEPTH = 8): loop → c1 → … → c9 → a
            z.pop();
            z.push(mk("loop.example.com.", 300, RData::CNAME(CNAME(n("c1.example.com.")))));
            for i in 1..=9 {
                let to = if i == 9 { "a.example.com.".to_string() } else { format!("c{}.example.com.", i + 1) };
                z.push(mk(&format!("c{i}.example.com."), 300, RData::CNAME(CNAME(n(&to)))));
            }
        }
        if rng.chance(1, 2) {
            z.push(mk("www.example.com.", 300, RData::CNAME(CNAME(n("other.org.")))));
        }
        if let Some(ds) = usable_types("sub.example.com.").into_iter().find(|t| t.contains(",43,")) {
            z.push(parse_rec(&ds).expect("ds"));
        }
    }
    if rng.chance(1, 25) {
        let mut r = gen_large(rng);
        r.dns_class = DNSClass::IN;
        r.ttl = 300;
        z.push(r);
    }
    z
}

fn wire_name(s: &str) -> String {
    let mut b = vec![];
    for l in s.trim_end_matches('.').split('.').filter(|l| !l.is_empty()) {
        b.push(l.len() as u8);
        b.extend_from_slice(l.as_bytes());
    }
    b.push(0);
    hex(&b)
}

/// One well-formed RDATA (wire form) for every record type the zone parser or the API can put into a zone —
/// DNSSEC types included (DS at a delegation, CDS / CDNSKEY / KEY / SIG / DNSKEY / NSEC3PARAM / NSEC …).
/// Tokens that the real codec does not take unchanged are dropped (checked on every run: `usable_types`).
pub fn every_type_rdata() -> Vec<(u16, String)> {
    let d32 = "00112233445566778899aabbccddeeff00112233445566778899aabbccddeeff";
    let key = "030100019a8b7c6d5e4f30211203f4e5d6c7b8a99a8b7c6d5e4f30211203f4e5d6c7b8a9";
    vec![
        (1, "0a000005".into()),
        (28, "20010db8000000000000000000000005".into()),
        (15, format!("000a{}", wire_name("mail.example.com."))),
        (16, "027478".into()),
        (33, format!("000100020035{}", wire_name("srv.example.com."))),
        (13, "03787878027979".into()),
        (257, "000569737375656c657473656e63727970742e6f7267".into()),
        (43, format!("30390802{d32}")),
        (59, format!("30390802{d32}")),
        (48, format!("01010308{key}")),
        (60, format!("01010308{key}")),
        (25, format!("00000308{key}")),
        (24, format!("0001080200000e105f0000005e0000003039{}{}", wire_name("example.com."), "00112233445566778899aabbccddeeff")),
        (46, format!("0001080200000e105f0000005e0000003039{}{}", wire_name("example.com."), "00112233445566778899aabbccddeeff")),
        (51, "0100000a04aabbccdd".into()),
        (47, format!("{}000140", wire_name("z.example.com."))),
        (52, format!("030101{d32}")),
        (44, "0101000102030405060708090a0b0c0d0e0f10111213".into()),
        (35, "0064000a0155074532552b7369700000".into()),
        (64, "000100".into()),
        (65, "000100".into()),
        (61, "99010d045e".into()),
        (99, "0576737066310a".into()),
        (65280, "deadbeef".into()),
        (10, "00ff".into()),
    ]
}

/// the entries of `every_type_rdata` that survive parse → emit unchanged at `owner`
pub fn usable_types(owner: &str) -> Vec<String> {
    let name = name_tok(&n(owner));
    let mut out = vec![];
    for (t, rd) in every_type_rdata() {
        let tok = format!("{name},{t},1,300,x{rd}");
        match parse_rec(&tok) {
            Some(r) if rec_tok(&r) == tok => out.push(tok),
            _ => {}
        }
    }
    out
}

/// does the journal's row encoder (`BinEncoder::new`, 65 535 octets) take this record?
pub fn row_fits(r: &Record) -> bool {
    let mut buf = Vec::new();
    let mut enc = BinEncoder::new(&mut buf);
    r.emit(&mut enc).is_ok()
}

/// set for the thorough tier: RDATA of 16 000 … 65 000 octets are generated at random as well
pub static GIANTS: std::sync::atomic::AtomicBool = std::sync::atomic::AtomicBool::new(false);

pub const LARGE_SIZES: [usize; 8] = [300, 511, 512, 513, 1000, 4000, 16000, 65000];
pub const LONG_OWNER: &str = "aaaaaaaaaaaaaaaaaaaaaaaaaaaaaaaaaaaaaaaaaaaaaaaaaaaaaaaaaaaaaaa.bbbbbbbbbbbbbbbbbbbbbbbbbbbbbbbbbbbbbbbbbbbbbbbbbbbbbbbbbbbbbbb.ccccccccccccccccccccccccccccccccccccccccccccccccccccccccccccccc.dddddddddddddddddddddddddddddddddddddddd.example.com.";

/// RDATA token of about `size` octets, a function of (type, size) only — so that a later class-NONE delete
/// of the same size names the same RDATA.  TXT: character-strings of <= 255 octets; other types: raw octets.
pub fn large_rdata_tok(rtype: u16, size: usize) -> String {
    let mut b: Vec<u8> = Vec::with_capacity(size);
    if rtype == T_TXT {
        let mut left = size;
        let mut i = 0u8;
        while left > 0 {
            let l = left.saturating_sub(1).min(255);
            b.push(l as u8);
            b.extend(std::iter::repeat(b'a' + (i % 26)).take(l));
            left -= l + 1;
            i = i.wrapping_add(1);
            if l == 0 {
                break;
            }
        }
    } else {
        b.extend((0..size).map(|k| (k % 251) as u8));
    }
    format!("x{}", hex(&b))
}

/// an RR with large RDATA (wire form from 300 up to ~65 000 octets) or a 254-octet owner name
pub fn gen_large(rng: &mut Rng) -> Record {
    let giants = GIANTS.load(std::sync::atomic::Ordering::Relaxed);
    let size = match rng.below(10) {
        0..=5 => *rng.pick(&LARGE_SIZES[..6]),
        6..=7 => rng.range(256, 4000) as usize,
        _ if giants => {
            if rng.chance(1, 2) { *rng.pick(&LARGE_SIZES[6..]) } else { rng.range(4000, 65000) as usize }
        }
        _ => 513,
    };
    let t = *rng.pick(&[T_TXT, T_TXT, T_TXT, T_NULL, 65280]);
    let picked = if rng.chance(1, 6) { LONG_OWNER } else { *rng.pick(&["a.example.com.", "b.example.com.", "www.example.com.", "example.com."]) };
    let name = name_tok(&n(&cased(rng, picked)));
    // mostly adds; sometimes the class-NONE delete of the same RDATA
    let (class, ttl) = if rng.chance(1, 5) { (C_NONE, 0) } else { (C_IN, 300) };
    parse_rec(&format!("{name},{t},{class},{ttl},{}", large_rdata_tok(t, size))).expect("large record")
}

/// odd but parseable RRs: type NULL with and without RDATA, an unknown type, the obsolete metatypes
/// MAILB / MAILA, in every class.  (Type ANY / AXFR / IXFR with RDATA does not decode at all.)
pub fn gen_odd(rng: &mut Rng, prereq: bool) -> Record {
    let picked = pick_name(rng);
    let name = name_tok(&n(&cased(rng, picked)));
    if !prereq && rng.chance(1, 8) {
        // an "SOA" without RDATA for the apex: `RecordSet::insert` ignores it (wrong rdata for SOA update)
        return parse_rec(&format!("{},6,1,300,-", name_tok(&n("example.com.")))).expect("soa0");
    }
    let t = *rng.pick(&[T_NULL, T_NULL, T_NULL, 65280, T_MAILB, T_MAILA, 43]);
    let class = *rng.pick(&[C_ANY, C_ANY, C_NONE, C_IN]);
    let rd = if rng.chance(2, 3) { *rng.pick(&["x00ff", "x01", "x00ff"]) } else { "-" };
    let ttl = if class == C_IN && !prereq { 300 } else { 0 };
    let ds = format!("x{}", every_type_rdata().into_iter().find(|x| x.0 == 43).map(|x| x.1).unwrap_or_default());
    let rd = if t == 43 && rd != "-" { ds.as_str() } else { rd };
    parse_rec(&format!("{name},{t},{class},{ttl},{rd}")).expect("odd record")
}

pub fn gen_prereq(rng: &mut Rng) -> Record {
    if rng.chance(1, 25) {
        return gen_odd(rng, true);
    }
    if rng.chance(1, 25) {
        // DS at / below the delegation: `inner_lookup` answers a DS query at the cut itself, not with the referral
        let nm = *rng.pick(&["sub.example.com.", "x.sub.example.com.", "a.example.com."]);
        return with_class(Record::update0(n(&cased(rng, nm)), 0, RecordType::DS), *rng.pick(&[C_ANY, C_NONE]));
    }
    let picked = pick_name(rng);
    let name = n(&cased(rng, picked));
    let t = pick_type(rng);
    let form = rng.below(100);
    let mut r = if form < 18 {
        with_class(Record::update0(name, 0, RecordType::ANY), C_ANY) // name is in use
    } else if form < 38 {
        with_class(Record::update0(name, 0, RecordType::from(t)), C_ANY) // rrset exists (value independent)
    } else if form < 54 {
        with_class(Record::update0(name, 0, RecordType::ANY), C_NONE) // name is not in use
    } else if form < 72 {
        with_class(Record::update0(name, 0, RecordType::from(t)), C_NONE) // rrset does not exist
    } else if form < 92 {
        // rrset exists (value dependent)
        if t == T_SOA { with_class(soa_rec(&name.to_ascii(), 0, *rng.pick(&SERIALS), 0), C_IN) } else { Record::from_rdata(name, 0, rdata_for(rng, t)) }
    } else if form < 94 {
        with_class(Record::from_rdata(name, 0, rdata_for(rng, T_A)), C_ANY) // RDATA with class ANY
    } else if form < 96 {
        with_class(Record::from_rdata(name, 0, rdata_for(rng, T_A)), C_NONE) // RDATA with class NONE
    } else if form < 98 {
        with_class(Record::update0(name, 0, RecordType::from(t)), C_CH) // foreign class
    } else {
        with_class(Record::update0(name, 0, RecordType::from(t)), C_IN) // zone class, empty RDATA
    };
    if rng.chance(1, 40) {
        r.ttl = 5; // TTL must be 0
    }
    r
}

pub fn gen_update(rng: &mut Rng) -> Record {
    if rng.chance(1, 16) {
        return gen_odd(rng, false);
    }
    if rng.chance(1, 150) {
        return gen_large(rng);
    }
    let picked = pick_name(rng);
    let name_s = cased(rng, picked);
    let name_s = name_s.as_str();
    let name = n(name_s);
    let t = pick_type(rng);
    let form = rng.below(100);
    if form < 50 {
        // add to an RRset
        if t == T_SOA {
            let apex = cased(rng, "example.com.");
            let at = if rng.chance(4, 5) { apex.as_str() } else { name_s };
            let serial = *rng.pick(&SERIALS);
            soa_rec(at, *rng.pick(&[3600, 300]), serial, rng.below(2) as u32)
        } else {
            Record::from_rdata(name, pick_ttl(rng), rdata_for(rng, t))
        }
    } else if form < 62 {
        with_class(Record::update0(name, 0, RecordType::from(t)), C_ANY) // delete an RRset
    } else if form < 70 {
        with_class(Record::update0(name, 0, RecordType::ANY), C_ANY) // delete all RRsets from a name
    } else if form < 90 {
        // delete an RR from an RRset
        if t == T_SOA { with_class(soa_rec(name_s, 0, *rng.pick(&SERIALS), 0), C_NONE) } else { with_class(Record::from_rdata(name, 0, rdata_for(rng, t)), C_NONE) }
    } else {
        // malformed forms
        match rng.below(8) {
            0 => with_class(Record::from_rdata(name, 0, rdata_for(rng, T_A)), C_ANY), // RDATA with class ANY
            1 => with_class(Record::from_rdata(name, 7, rdata_for(rng, T_A)), C_NONE), // TTL with class NONE
            2 => with_class(Record::update0(name, 7, RecordType::from(t)), C_ANY),     // TTL with class ANY
            3 => with_class(Record::from_rdata(name, 300, rdata_for(rng, T_A)), C_CH), // foreign class
            4 => with_class(Record::update0(name, 300, RecordType::ANY), C_IN),        // add of type ANY
            5 => with_class(Record::update0(name, 0, RecordType::AXFR), *rng.pick(&[C_IN, C_ANY, C_NONE])),
            6 => with_class(Record::update0(name, 0, RecordType::ANY), C_NONE),        // NONE / ANY
            _ => with_class(Record::update0(name, 0, RecordType::from(t)), C_NONE),    // NONE with empty RDATA
        }
    }
}

pub fn gen_msg(rng: &mut Rng) -> String {
    let np = *rng.pick(&[0, 0, 0, 1, 1, 2]);
    let nu = rng.range(1, 4);
    let mut s = String::from("upd P");
    for _ in 0..np {
        s.push(' ');
        s.push_str(&rec_tok(&gen_prereq(rng)));
    }
    s.push_str(" U");
    for _ in 0..nu {
        s.push(' ');
        s.push_str(&rec_tok(&gen_update(rng)));
    }
    s
}

pub fn gen_begin(rng: &mut Rng, kw: &str) -> String {
    let z = gen_zone(rng);
    let mut s = format!("{kw} {}", name_tok(&n("example.com.")));
    for r in &z {
        s.push(' ');
        s.push_str(&rec_tok(r));
    }
    s
}

fn gen_history(rng: &mut Rng) -> Vec<String> {
    let mut v = vec![gen_begin(rng, "begin")];
    let len = rng.range(1, 6);
    for i in 0..len {
        // `raw` (update_records without the prescan, outside the property: it can plant out-of-zone
        // records) only ever ends a history, so that no judged message meets its aftermath
        let k = if i + 1 == len { rng.below(20) } else { rng.below(18) };
        if k < 16 {
            let m = gen_msg(rng);
            // one message in five goes through the real `update()` as a TSIG-signed wire message, one in eight through
            // the server's dispatch (`Catalog`), a few of those unsigned / with a foreign key / with a wrong zone section
            let k = rng.below(40);
            v.push(if k < 8 {
                m.replacen("upd ", "updf ", 1)
            } else if k < 13 {
                m.replacen("upd ", "updc ok ", 1)
            } else if k < 15 {
                m.replacen("upd ", &format!("updc {} ", *rng.pick(&["unsigned", "badkey", "badsig", "expired", "ztype", "nozone", "noupdate", "secondary", "external"])), 1)
            } else {
                m
            });
        } else if k < 18 {
            let np = rng.range(1, 2);
            let mut s = String::from("pre");
            for _ in 0..np {
                s.push(' ');
                s.push_str(&rec_tok(&gen_prereq(rng)));
            }
            v.push(s);
        } else {
            let nu = rng.range(1, 4);
            let mut s = String::from("raw");
            for _ in 0..nu {
                s.push(' ');
                s.push_str(&rec_tok(&gen_update(rng)));
            }
            v.push(s);
        }
    }
    v.push("end".into());
    v
}

/// a history on a DNSSEC-enabled handler (only `upd` lines; no model side)
fn gen_dnssec_history(rng: &mut Rng) -> Vec<String> {
    let kw = if rng.chance(1, 2) { "begind" } else { "begind3" };
    let mut v = vec![gen_begin(rng, kw)];
    for _ in 0..rng.range(2, 6) {
        v.push(gen_msg(rng));
    }
    v.push("end".into());
    v
}

/// zones the API can build but no zone file should: no SOA at all, or an "SOA" with empty RDATA — driven by `raw`
/// (`update_records` alone: model correspondence without oracle) through `serial()` / `increment_soa_serial` / the
/// SOA arms of `RecordSet::insert` that a well-formed zone never reaches
fn gen_broken_zone_history(rng: &mut Rng) -> Vec<String> {
    let full = gen_begin(rng, "begin");
    let mut toks: Vec<String> = full.split(' ').map(String::from).collect();
    // tokens: begin origin soa ...
    match rng.below(3) {
        0 => {
            toks.remove(2);
        }
        1 => {
            let soa = toks[2].clone();
            let parts: Vec<&str> = soa.split(',').collect();
            toks[2] = format!("{},{},{},{},-", parts[0], parts[1], parts[2], parts[3]);
        }
        _ => {
            // a class-CH record among the initial ones (`upsert` refuses the foreign class)
            toks.push(format!("{},1,3,300,x0a000001", name_tok(&n("a.example.com."))));
        }
    }
    let mut v = vec![toks.join(" ")];
    for _ in 0..rng.range(1, 4) {
        let mut s = String::from("raw");
        for _ in 0..rng.range(1, 3) {
            s.push(' ');
            s.push_str(&rec_tok(&gen_update(rng)));
        }
        v.push(s);
    }
    v.push("end".into());
    v
}

pub fn run(o: &Opts, rec: &mut Recorder) {
    GIANTS.store(o.thorough(), std::sync::atomic::Ordering::Relaxed);
    rec.rule = "an `upd`/`pre` line that changed the zone or was judged after an earlier change of the same history (distinct by case text)".into();
    let mut hist = Hist { rt: rt(), origin: Name::root(), h: None, cat: None, dnssec: false, nsec3: false, panicked: false, initial: vec![], twin: None, changes: 0 };
    for l in &o.pre_lines {
        exec(l, &mut hist, rec);
    }
    rec.corpus_cases = rec.cases.len();
    let mut rng = Rng::new(o.seed);
    let histories = o.n(20_000, 400_000);
    for _ in 0..histories {
        let mut r = rng.fork();
        let h = match r.below(40) {
            0 | 1 => gen_dnssec_history(&mut r),
            2 => gen_broken_zone_history(&mut r),
            _ => gen_history(&mut r),
        };
        for l in h {
            exec(&l, &mut hist, rec);
        }
    }
}
