//! C10 — authoritative answers follow the RFC 1034 §4.3.2 algorithm.
//!
//! Case line:  `q <mode> <origin> <zone> <qname> <qtype> <do>`
//!   mode   `u` unsigned zone · `n` signed, NSEC · `3` signed, NSEC3
//!   zone   RRsets in store (BTreeMap) order joined by `;`, each `owner/TYPE/rd+rd…`,
//!          rd = `<tag>` or `<tag>@<target-name>`
//!   names  ASCII labels joined by `.` with a trailing dot (`.` is the root)
//! Implementation: real `InMemoryZoneHandler` (records inserted with `upsert_mut`) inside a
//! `Catalog`; the query is built as wire bytes → `Request::from_bytes` → `Catalog::handle_request`
//! → response bytes captured by a `ResponseHandler` → decoded → canonical summary
//!   `<RCODE> aa=<0|1> an=<rrsets> ns=<rrsets> ar=<rrsets>`.
//! Oracle: `reference()` below — RFC 1034 §4.3.2 + RFC 4592 written from the RFC text.
use std::collections::{BTreeMap, BTreeSet};
use std::net::SocketAddr;
use std::sync::{Arc, Mutex};

use hickory_net::runtime::{TokioRuntimeProvider, TokioTime};
use hickory_net::xfer::Protocol;
use hickory_net::NetError;
use hickory_proto::dnssec::rdata::{DNSSECRData, DNSKEY, DS};
use hickory_proto::dnssec::{crypto::Ed25519SigningKey, Algorithm, DigestType, DnssecSigner, SigningKey};
use hickory_proto::op::{Edns, Message, Query};
use hickory_proto::rr::rdata::{A, AAAA, ANAME, CNAME, MX, NS, SOA, SRV, TXT};
use hickory_proto::rr::{LowerName, Name, RData, Record, RecordType};
use hickory_proto::serialize::binary::{BinDecodable, BinDecoder, BinEncoder};
use hickory_server::dnssec::NxProofKind;
use hickory_server::server::{Request, RequestHandler, ResponseHandler, ResponseInfo};
use hickory_server::store::in_memory::InMemoryZoneHandler;
use hickory_server::zone_handler::{AxfrPolicy, Catalog, MessageResponse, ZoneHandler, ZoneType};

use crate::common::*;

// ------------------------------------------------------------------------------------------
// abstract zone representation shared with the Lean side
// ------------------------------------------------------------------------------------------

pub type LName = Vec<String>; // lower-case labels, first label first

pub const T_A: u16 = 1;
pub const T_NS: u16 = 2;
pub const T_CNAME: u16 = 5;
pub const T_SOA: u16 = 6;
pub const T_MX: u16 = 15;
pub const T_TXT: u16 = 16;
pub const T_AAAA: u16 = 28;
pub const T_DS: u16 = 43;
pub const T_RRSIG: u16 = 46;
pub const T_NSEC: u16 = 47;
pub const T_DNSKEY: u16 = 48;
pub const T_NSEC3: u16 = 50;
pub const T_ANY: u16 = 255;
pub const T_SRV: u16 = 33;
pub const T_AXFR: u16 = 252;
pub const T_ANAME: u16 = 65305;

pub const QTYPES: [u16; 9] = [T_A, T_AAAA, T_MX, T_NS, T_CNAME, T_SOA, T_DS, T_TXT, T_ANY];

fn ty_name(t: u16) -> String {
    match t {
        T_A => "A".into(),
        T_NS => "NS".into(),
        T_CNAME => "CNAME".into(),
        T_SOA => "SOA".into(),
        T_MX => "MX".into(),
        T_TXT => "TXT".into(),
        T_AAAA => "AAAA".into(),
        T_DS => "DS".into(),
        T_RRSIG => "RRSIG".into(),
        T_NSEC => "NSEC".into(),
        T_DNSKEY => "DNSKEY".into(),
        T_NSEC3 => "NSEC3".into(),
        T_ANY => "ANY".into(),
        T_SRV => "SRV".into(),
        T_AXFR => "AXFR".into(),
        T_ANAME => "ANAME".into(),
        n => format!("TYPE{n}"),
    }
}

fn ty_parse(s: &str) -> Option<u16> {
    Some(match s {
        "A" => T_A,
        "NS" => T_NS,
        "CNAME" => T_CNAME,
        "SOA" => T_SOA,
        "MX" => T_MX,
        "TXT" => T_TXT,
        "AAAA" => T_AAAA,
        "DS" => T_DS,
        "ANY" => T_ANY,
        "SRV" => T_SRV,
        "AXFR" => T_AXFR,
        "ANAME" => T_ANAME,
        _ => return None,
    })
}

#[derive(Clone, Debug, PartialEq, Eq, PartialOrd, Ord, Hash)]
pub struct Rd {
    pub tag: u32,
    pub target: Option<LName>,
}

#[derive(Clone, Debug, PartialEq, Eq, PartialOrd, Ord, Hash)]
pub struct Rs {
    pub name: LName,
    pub ty: u16,
    pub rds: Vec<Rd>,
}

pub fn name_txt(n: &LName) -> String {
    if n.is_empty() {
        ".".into()
    } else {
        let mut s = n.join(".");
        s.push('.');
        s
    }
}

fn label_ok(l: &str) -> bool {
    !l.is_empty() && l.len() <= 63 && l.bytes().all(|c| c.is_ascii_alphanumeric() || c == b'*' || c == b'_' || c == b'-')
}

/// parses a name token, keeping the letter case
pub fn name_parse_case(s: &str) -> Option<LName> {
    if s == "." {
        return Some(vec![]);
    }
    let s = s.strip_suffix('.')?;
    let v: Vec<String> = s.split('.').map(String::from).collect();
    if v.iter().all(|l| label_ok(l)) && v.iter().map(|l| l.len() + 1).sum::<usize>() < 255 {
        Some(v)
    } else {
        None
    }
}

pub fn lower(n: &LName) -> LName {
    n.iter().map(|l| l.to_ascii_lowercase()).collect()
}

pub fn name_parse(s: &str) -> Option<LName> {
    let n = name_parse_case(s)?;
    if n == lower(&n) { Some(n) } else { None }
}

fn rd_txt(r: &Rd) -> String {
    match &r.target {
        Some(t) => format!("{}@{}", r.tag, name_txt(t)),
        None => format!("{}", r.tag),
    }
}

fn rs_txt(r: &Rs) -> String {
    format!("{}/{}/{}", name_txt(&r.name), ty_name(r.ty), r.rds.iter().map(rd_txt).collect::<Vec<_>>().join("+"))
}

pub fn zone_txt(z: &[Rs]) -> String {
    if z.is_empty() { "-".into() } else { z.iter().map(rs_txt).collect::<Vec<_>>().join(";") }
}

fn rd_parse(s: &str) -> Option<Rd> {
    match s.split_once('@') {
        Some((t, n)) => Some(Rd { tag: t.parse().ok()?, target: Some(name_parse(n)?) }),
        None => Some(Rd { tag: s.parse().ok()?, target: None }),
    }
}

fn rs_parse(s: &str) -> Option<Rs> {
    let mut it = s.split('/');
    let name = name_parse(it.next()?)?;
    let ty = ty_parse(it.next()?)?;
    if ty == T_ANY || ty == T_AXFR {
        return None;
    }
    let rds: Option<Vec<Rd>> = it.next()?.split('+').map(rd_parse).collect();
    let rds = rds?;
    if it.next().is_some() || rds.is_empty() {
        return None;
    }
    // shape of the rdata per type
    let need_target = matches!(ty, T_NS | T_CNAME | T_MX | T_SRV | T_ANAME);
    if rds.iter().any(|r| r.target.is_some() != need_target || r.tag > 250) {
        return None;
    }
    Some(Rs { name, ty, rds })
}

pub fn zone_parse(s: &str) -> Option<Vec<Rs>> {
    if s == "-" {
        return Some(vec![]);
    }
    s.split(';').map(rs_parse).collect()
}

#[derive(Clone, Debug)]
pub struct Case {
    pub mode: char,
    pub origin: LName,
    pub zone: Vec<Rs>,
    pub qname: LName, // case as sent
    pub qtype: u16,
    pub dnssec_ok: bool,
    /// mode `n`: the store after signing (NSEC chain, DNSKEY, RRSIG labels), as `dump_store` prints it
    pub store: Option<String>,
}

pub fn case_line(c: &Case) -> String {
    let mut l = format!(
        "q {} {} {} {} {} {}",
        c.mode,
        name_txt(&c.origin),
        zone_txt(&c.zone),
        name_txt(&c.qname),
        ty_name(c.qtype),
        b(c.dnssec_ok)
    );
    if let Some(st) = &c.store {
        l.push(' ');
        l.push_str(st);
    }
    l
}

fn case_parse(t: &[&str]) -> Option<Case> {
    match t {
        ["q", mode, origin, zone, qname, qtype, d, store] => {
            let mut c = case_parse(&["q", mode, origin, zone, qname, qtype, d])?;
            if c.mode != 'n' && c.mode != 's' {
                return None;
            }
            c.store = Some(store.to_string());
            Some(c)
        }
        ["q", mode, origin, zone, qname, qtype, d] => Some(Case {
            store: None,
            mode: match *mode {
                "u" => 'u',
                "n" => 'n',
                "s" => 's',
                "3" => '3',
                "o" => 'o',
                _ => return None,
            },
            origin: name_parse(origin)?,
            zone: zone_parse(zone)?,
            qname: name_parse_case(qname)?,
            qtype: ty_parse(qtype)?,
            dnssec_ok: match *d {
                "0" => false,
                "1" => true,
                _ => return None,
            },
        }),
        _ => None,
    }
}

// ------------------------------------------------------------------------------------------
// the real thing
// ------------------------------------------------------------------------------------------

fn to_name(n: &LName) -> Name {
    let mut r = Name::from_labels(n.iter().map(|l| l.as_bytes())).expect("name");
    r.set_fqdn(true);
    r
}

fn from_name(n: &Name) -> LName {
    n.iter().map(|l| String::from_utf8_lossy(l).to_ascii_lowercase()).collect()
}

fn to_rdata(ty: u16, rd: &Rd, origin: &LName) -> RData {
    let tgt = || to_name(rd.target.as_ref().expect("target"));
    match ty {
        T_A => RData::A(A::new(192, 0, 2, rd.tag as u8)),
        T_AAAA => RData::AAAA(AAAA::new(0x2001, 0xdb8, 0, 0, 0, 0, 0, rd.tag as u16)),
        T_TXT => RData::TXT(TXT::new(vec![format!("t{}", rd.tag)])),
        T_MX => RData::MX(MX::new(rd.tag as u16, tgt())),
        T_NS => RData::NS(NS(tgt())),
        T_CNAME => RData::CNAME(CNAME(tgt())),
        T_ANAME => RData::ANAME(ANAME(tgt())),
        T_SRV => RData::SRV(SRV::new(rd.tag as u16, 0, 53, tgt())),
        T_DS => RData::DNSSEC(DNSSECRData::DS(DS::new(
            rd.tag as u16,
            Algorithm::ED25519,
            DigestType::SHA256,
            vec![rd.tag as u8; 32],
        ))),
        T_SOA => {
            let mut m = vec!["ns".to_string()];
            m.extend(origin.iter().cloned());
            let mut h = vec!["h".to_string()];
            h.extend(origin.iter().cloned());
            RData::SOA(SOA::new(to_name(&m), to_name(&h), 1 + rd.tag, 3600, 600, 86400, 300))
        }
        _ => unreachable!(),
    }
}

/// inverse of `to_rdata` on what the server sends back (`None`: not a record of the universe)
fn from_rdata(d: &RData) -> Option<Rd> {
    Some(match d {
        RData::A(a) => Rd { tag: a.0.octets()[3] as u32, target: None },
        RData::AAAA(a) => Rd { tag: a.0.segments()[7] as u32, target: None },
        RData::TXT(t) => {
            let s = t.to_string();
            Rd { tag: s.trim_matches('"').trim_start_matches('t').parse().ok()?, target: None }
        }
        RData::MX(m) => Rd { tag: m.preference as u32, target: Some(from_name(&m.exchange)) },
        RData::NS(n) => Rd { tag: 0, target: Some(from_name(&n.0)) },
        RData::CNAME(n) => Rd { tag: 0, target: Some(from_name(&n.0)) },
        RData::ANAME(n) => Rd { tag: 0, target: Some(from_name(&n.0)) },
        RData::SRV(v) => Rd { tag: v.priority as u32, target: Some(from_name(&v.target)) },
        RData::DNSSEC(DNSSECRData::DS(ds)) => Rd { tag: ds.key_tag() as u32, target: None },
        RData::SOA(_) => Rd { tag: 0, target: None },
        _ => return None,
    })
}

#[derive(Clone, Default)]
struct Capture {
    buf: Arc<Mutex<Option<Vec<u8>>>>,
}

#[async_trait::async_trait]
impl ResponseHandler for Capture {
    async fn send_response<'a>(
        &mut self,
        response: MessageResponse<
            '_,
            'a,
            impl Iterator<Item = &'a Record> + Send + 'a,
            impl Iterator<Item = &'a Record> + Send + 'a,
            impl Iterator<Item = &'a Record> + Send + 'a,
            impl Iterator<Item = &'a Record> + Send + 'a,
        >,
    ) -> Result<ResponseInfo, NetError> {
        let mut bytes = Vec::with_capacity(512);
        let info = {
            let mut enc = BinEncoder::new(&mut bytes);
            response.destructive_emit(&mut enc)?
        };
        *self.buf.lock().unwrap() = Some(bytes);
        Ok(info)
    }
}

thread_local! {
    static RT: tokio::runtime::Runtime = tokio::runtime::Builder::new_current_thread().enable_all().build().expect("rt");
    static KEY: Vec<u8> = Ed25519SigningKey::generate_pkcs8().expect("key").secret_pkcs8_der().to_vec();
    /// last catalog built (most runs query one zone many times)
    static CACHE: std::cell::RefCell<Option<(String, Option<(Arc<Catalog>, Option<Vec<StoreRs>>)>)>> = const { std::cell::RefCell::new(None) };
}

/// one RRset of the signed store
#[derive(Clone, Debug, PartialEq, Eq)]
pub struct StoreRs {
    pub name: LName,
    pub ty: u16,
    pub rds: Vec<Rd>,
    /// NSEC: the type bitmap
    pub types: Vec<u16>,
    /// labels field of the RRset's RRSIG
    pub sig_labels: Option<u8>,
}

fn store_txt(st: &[StoreRs]) -> String {
    st.iter()
        .map(|r| {
            let mut rds: Vec<String> = r.rds.iter().map(rd_txt).collect();
            if r.ty == T_NSEC {
                rds[0] = format!("{}~{}", rds[0], r.types.iter().map(|t| ty_name(*t)).collect::<Vec<_>>().join(","));
            }
            format!(
                "{}/{}/{}{}",
                name_txt(&r.name),
                ty_name(r.ty),
                rds.join("+"),
                r.sig_labels.map(|l| format!("/s{l}")).unwrap_or_default()
            )
        })
        .collect::<Vec<_>>()
        .join(";")
}

fn dump_store(h: &mut InMemoryZoneHandler<TokioRuntimeProvider>) -> Option<Vec<StoreRs>> {
    let mut v = vec![];
    for rs in h.records_get_mut().values() {
        let ty = u16::from(rs.record_type());
        let mut types = vec![];
        let mut rds = vec![];
        for r in rs.records_without_rrsigs() {
            match &r.data {
                RData::DNSSEC(DNSSECRData::NSEC(n)) => {
                    types = n.type_bit_maps().map(u16::from).collect();
                    types.sort();
                    rds.push(Rd { tag: 0, target: Some(from_name(n.next_domain_name())) });
                }
                RData::DNSSEC(DNSSECRData::DNSKEY(_)) => rds.push(Rd { tag: 0, target: None }),
                d => rds.push(from_rdata(d)?),
            }
        }
        let mut sigs = rs.records(true).filter_map(|r| match &r.data {
            RData::DNSSEC(DNSSECRData::RRSIG(s)) => Some(s.input().num_labels),
            _ => None,
        });
        let sig_labels = sigs.next();
        if sigs.next().is_some() {
            return None;
        }
        v.push(StoreRs { name: from_name(rs.name()), ty, rds, types, sig_labels });
    }
    Some(v)
}

/// Builds the handler from the RRsets of the case; `None` if a record was refused by `upsert_mut`
/// or the store does not iterate in the order of the case line.
fn build_catalog(c: &Case) -> Option<(Arc<Catalog>, Option<Vec<StoreRs>>)> {
    let key = format!("{} {} {}", c.mode, name_txt(&c.origin), zone_txt(&c.zone));
    if let Some(hit) = CACHE.with(|k| k.borrow().as_ref().filter(|(s, _)| *s == key).map(|(_, v)| v.clone())) {
        return hit;
    }
    let built = build_catalog_uncached(c);
    CACHE.with(|k| *k.borrow_mut() = Some((key, built.clone())));
    built
}

fn build_catalog_uncached(c: &Case) -> Option<(Arc<Catalog>, Option<Vec<StoreRs>>)> {
    let origin = to_name(&c.origin);
    let kind = match c.mode {
        'n' => Some(NxProofKind::Nsec),
        '3' | 'o' => Some(NxProofKind::Nsec3 {
            algorithm: Default::default(),
            salt: Arc::new([]),
            iterations: 0,
            opt_out: c.mode == 'o',
        }),
        _ => None,
    };
    // three ways to the same store, chosen by a hash of the zone: `empty` + `upsert_mut`, `empty` +
    // the async `upsert`, `InMemoryZoneHandler::new` from a map of record sets
    let variant = {
        let mut hsh = std::collections::hash_map::DefaultHasher::new();
        std::hash::Hash::hash(&zone_txt(&c.zone), &mut hsh);
        std::hash::Hasher::finish(&hsh) % 3
    };
    let has_apex_soa = c.zone.iter().any(|r| r.ty == T_SOA && r.name == c.origin);
    let mut h = if variant == 2 && has_apex_soa {
        let mut map: BTreeMap<hickory_proto::rr::RrKey, hickory_proto::rr::RecordSet> = BTreeMap::new();
        for rs in &c.zone {
            let key = hickory_proto::rr::RrKey::new(LowerName::new(&to_name(&rs.name)), RecordType::from(rs.ty));
            let set = map.entry(key).or_insert_with(|| hickory_proto::rr::RecordSet::new(to_name(&rs.name), RecordType::from(rs.ty), 1));
            for rd in &rs.rds {
                if !set.insert(Record::from_rdata(to_name(&rs.name), 3600, to_rdata(rs.ty, rd, &c.origin)), 1) {
                    return None;
                }
            }
        }
        InMemoryZoneHandler::<TokioRuntimeProvider>::new(origin.clone(), map, ZoneType::Primary, AxfrPolicy::Deny, kind).ok()?
    } else {
        let mut h = InMemoryZoneHandler::<TokioRuntimeProvider>::empty(origin.clone(), ZoneType::Primary, AxfrPolicy::Deny, kind);
        for rs in &c.zone {
            for rd in &rs.rds {
                let rec = Record::from_rdata(to_name(&rs.name), 3600, to_rdata(rs.ty, rd, &c.origin));
                let ok = if variant == 1 { RT.with(|rt| rt.block_on(h.upsert(rec, 1))) } else { h.upsert_mut(rec, 1) };
                if !ok {
                    return None;
                }
            }
        }
        h
    };
    // the model walks the zone in the order of the case line: it must be the store's order
    {
        let stored: Vec<(LName, u16)> =
            h.records_get_mut().keys().map(|k| (from_name(&Name::from(&k.name)), u16::from(k.record_type))).collect();
        let want: Vec<(LName, u16)> = c.zone.iter().map(|r| (r.name.clone(), r.ty)).collect();
        if stored != want {
            return None;
        }
        for (k, rs) in h.records_get_mut().iter() {
            let _ = k;
            let got: Vec<Option<Rd>> = rs.records_without_rrsigs().map(|r| from_rdata(&r.data)).collect();
            let w = c.zone.iter().find(|x| x.ty == u16::from(rs.record_type()) && x.name == from_name(rs.name()))?;
            if got != w.rds.iter().map(|r| Some(norm_rd(w.ty, r))).collect::<Vec<_>>() {
                return None;
            }
        }
    }
    if c.mode != 'u' {
        let der = KEY.with(|k| k.clone());
        let key = Ed25519SigningKey::from_pkcs8(&der.into()).ok()?;
        let signer = DnssecSigner::new(
            DNSKEY::from_key(&key.to_public_key().ok()?),
            Box::new(key),
            origin.clone(),
            std::time::Duration::from_secs(86400),
        );
        if variant == 1 {
            // the async entry points of `DnssecZoneHandler`
            use hickory_server::zone_handler::DnssecZoneHandler;
            RT.with(|rt| rt.block_on(h.add_zone_signing_key(signer))).ok()?;
            RT.with(|rt| rt.block_on(h.secure_zone())).ok()?;
        } else {
            h.add_zone_signing_key_mut(signer).ok()?;
            h.secure_zone_mut().ok()?;
        }
    }
    let store = if c.mode == 'n' || c.mode == 's' { Some(dump_store(&mut h)?) } else { None };
    let mut cat = Catalog::new();
    cat.upsert(LowerName::new(&origin), vec![Arc::new(h) as Arc<dyn ZoneHandler>]);
    Some((Arc::new(cat), store))
}

/// how an rdata of the case line reads back from the wire (NS/CNAME carry no tag, SOA none)
fn norm_rd(ty: u16, r: &Rd) -> Rd {
    match ty {
        T_NS | T_CNAME | T_SOA | T_ANAME => Rd { tag: 0, target: r.target.clone() },
        _ => r.clone(),
    }
}

fn query_bytes(c: &Case) -> Vec<u8> {
    let mut m = Message::query();
    m.metadata.id = 0x1234;
    let mut qn = Name::from_labels(c.qname.iter().map(|l| l.as_bytes())).expect("qname");
    qn.set_fqdn(true);
    m.add_query(Query::new(qn, RecordType::from(c.qtype)));
    if c.dnssec_ok {
        let mut e = Edns::new();
        e.set_dnssec_ok(true);
        e.set_max_payload(4096);
        m.set_edns(e);
    }
    m.to_vec().expect("encode query")
}

fn ask(cat: &Catalog, c: &Case) -> Result<Message, String> {
    let bytes = query_bytes(c);
    let src: SocketAddr = ([127, 0, 0, 1], 5353).into();
    let req = Request::from_bytes(bytes, src, Protocol::Tcp).map_err(|e| format!("request: {e}"))?;
    let cap = Capture::default();
    RT.with(|rt| rt.block_on(cat.handle_request::<_, TokioTime>(&req, cap.clone())));
    let out = cap.buf.lock().unwrap().take().ok_or("no response sent")?;
    let mut d = BinDecoder::new(&out);
    Message::read(&mut d).map_err(|e| format!("response does not decode: {e}"))
}

/// one RRset of a response section, as the canonical summary prints it
#[derive(Clone, Debug, PartialEq, Eq, PartialOrd, Ord)]
pub struct OutRs {
    pub name: LName,
    pub ty: u16,
    /// data records: the rdatas; RRSIG: `covered.labels`; NSEC: `next:types`
    pub rds: Vec<String>,
}

fn out_txt(v: &[OutRs]) -> String {
    if v.is_empty() {
        return "-".into();
    }
    v.iter()
        .map(|r| format!("{}/{}/{}", name_txt(&r.name), ty_name(r.ty), r.rds.join("+")))
        .collect::<Vec<_>>()
        .join(";")
}

fn section(recs: &[Record]) -> Vec<OutRs> {
    let mut out: Vec<OutRs> = vec![];
    for r in recs {
        let name = from_name(&r.name);
        let ty = u16::from(r.record_type());
        let rd = match &r.data {
            RData::DNSSEC(DNSSECRData::RRSIG(s)) => {
                format!("{}.{}", ty_name(u16::from(s.input().type_covered)), s.input().num_labels)
            }
            RData::DNSSEC(DNSSECRData::NSEC(n)) => {
                let mut tys: Vec<u16> = n.type_bit_maps().map(u16::from).collect();
                tys.sort();
                format!(
                    "{}:{}",
                    name_txt(&from_name(n.next_domain_name())),
                    tys.iter().map(|t| ty_name(*t)).collect::<Vec<_>>().join(",")
                )
            }
            RData::DNSSEC(DNSSECRData::NSEC3(n)) => {
                let mut tys: Vec<u16> = n.type_bit_maps().map(u16::from).collect();
                tys.sort();
                format!("{}:{}", hex(n.next_hashed_owner_name()), tys.iter().map(|t| ty_name(*t)).collect::<Vec<_>>().join(","))
            }
            d => match from_rdata(d) {
                Some(rd) => rd_txt(&rd),
                None => "?".into(),
            },
        };
        match out.last_mut() {
            Some(l) if l.name == name && l.ty == ty => l.rds.push(rd),
            _ => out.push(OutRs { name, ty, rds: vec![rd] }),
        }
    }
    out
}

#[derive(Clone, Debug)]
pub struct Resp {
    pub rcode: String,
    pub aa: bool,
    pub an: Vec<OutRs>,
    pub ns: Vec<OutRs>,
    pub ar: Vec<OutRs>,
}

fn resp_of(m: &Message) -> Resp {
    let rc = u16::from(m.metadata.response_code);
    Resp {
        rcode: match rc {
            0 => "NOERROR".into(),
            2 => "SERVFAIL".into(),
            3 => "NXDOMAIN".into(),
            5 => "REFUSED".into(),
            n => format!("RC{n}"),
        },
        aa: m.metadata.authoritative,
        an: section(&m.answers),
        ns: section(&m.authorities),
        ar: section(&m.additionals),
    }
}

fn resp_txt(r: &Resp) -> String {
    format!("{} aa={} an={} ns={} ar={}", r.rcode, b(r.aa), out_txt(&r.an), out_txt(&r.ns), out_txt(&r.ar))
}

// ------------------------------------------------------------------------------------------
// reference: RFC 1034 §4.3.2 with RFC 4592 wildcards, RFC 4035 §3.1.4.1 (DS at a cut),
// RFC 8482 (ANY may be answered with a subset).  Written from the RFC text.
// ------------------------------------------------------------------------------------------

struct RefZone<'a> {
    origin: &'a LName,
    /// node → type → RRset
    nodes: BTreeMap<LName, BTreeMap<u16, &'a Rs>>,
}

fn is_suffix(anc: &[String], n: &[String]) -> bool {
    anc.len() <= n.len() && n[n.len() - anc.len()..] == *anc
}

impl<'a> RefZone<'a> {
    fn new(origin: &'a LName, zone: &'a [Rs]) -> Self {
        let mut nodes: BTreeMap<LName, BTreeMap<u16, &Rs>> = BTreeMap::new();
        for rs in zone {
            nodes.entry(rs.name.clone()).or_default().insert(rs.ty, rs);
        }
        Self { origin, nodes }
    }
    fn in_zone(&self, n: &[String]) -> bool {
        is_suffix(self.origin, n)
    }
    /// RFC 4592 §2.2.2: a name exists if it or one of its descendants owns an RRset
    fn exists(&self, n: &[String]) -> bool {
        self.nodes.keys().any(|k| is_suffix(n, k))
    }
    fn get(&self, n: &[String], t: u16) -> Option<&'a Rs> {
        self.nodes.get(n).and_then(|m| m.get(&t)).copied()
    }
    /// first zone cut met walking down from the apex towards `n` (RFC 1034 §4.3.2 step 3b)
    fn cut(&self, n: &[String], qtype: u16) -> Option<LName> {
        let ol = self.origin.len();
        for k in (ol + 1)..=n.len() {
            let anc = n[n.len() - k..].to_vec();
            if self.get(&anc, T_NS).is_some() {
                // the DS RRset of a delegation lives on the parent side of the cut
                if k == n.len() && qtype == T_DS {
                    return None;
                }
                return Some(anc);
            }
        }
        None
    }
}

#[derive(Debug, Clone, PartialEq, Eq)]
pub enum Terminal {
    /// RRset(s) of the queried type found (owner rewritten for wildcard synthesis)
    Data,
    /// `ANY`: all RRsets of the node (a non-empty subset is a valid answer)
    AnyOf(Vec<OutRs>),
    NoData,
    NxDomain,
    Referral(LName),
    /// chain left the zone or looped
    ChainEnd,
}

#[derive(Debug, Clone)]
pub struct Expected {
    pub refused: bool,
    /// CNAME chain followed by the final data RRset (if any), in order
    pub answers: Vec<OutRs>,
    pub terminal: Terminal,
    /// number of CNAMEs followed
    pub cnames: usize,
    pub wildcard_used: bool,
    /// names resolved: the query name, then every CNAME target followed
    pub visited: Vec<LName>,
}

fn out_of(rs: &Rs, owner: &LName) -> OutRs {
    OutRs { name: owner.clone(), ty: rs.ty, rds: rs.rds.iter().map(|r| rd_txt(&norm_rd(rs.ty, r))).collect() }
}

fn reference(origin: &LName, zone: &[Rs], qname: &LName, qtype: u16) -> Expected {
    let z = RefZone::new(origin, zone);
    let mut exp = Expected { refused: false, answers: vec![], terminal: Terminal::NoData, cnames: 0, wildcard_used: false, visited: vec![] };
    if !z.in_zone(qname) {
        exp.refused = true;
        return exp;
    }
    let mut cur = qname.clone();
    let mut seen: BTreeSet<LName> = BTreeSet::new();
    loop {
        seen.insert(cur.clone());
        exp.visited.push(cur.clone());
        // step 3b: referral
        if let Some(cut) = z.cut(&cur, qtype) {
            exp.terminal = Terminal::Referral(cut);
            return exp;
        }
        // step 3a / 3c: the node, or the wildcard at the closest encloser
        let (node, owner): (Option<LName>, LName) = if z.exists(&cur) {
            (Some(cur.clone()), cur.clone())
        } else {
            // closest encloser: longest existing ancestor (the apex always exists)
            let mut ce = cur[1..].to_vec();
            while !ce.is_empty() && !z.exists(&ce) {
                ce = ce[1..].to_vec();
            }
            let mut w = vec!["*".to_string()];
            w.extend(ce);
            if z.exists(&w) {
                exp.wildcard_used = true;
                (Some(w), cur.clone())
            } else {
                (None, cur.clone())
            }
        };
        let Some(node) = node else {
            exp.terminal = Terminal::NxDomain;
            return exp;
        };
        if qtype == T_ANY {
            let all: Vec<OutRs> = z.nodes.get(&node).map(|m| m.values().map(|r| out_of(r, &owner)).collect()).unwrap_or_default();
            exp.terminal = if all.is_empty() { Terminal::NoData } else { Terminal::AnyOf(all) };
            return exp;
        }
        if let (Some(c), true) = (z.get(&node, T_CNAME), qtype != T_CNAME) {
            exp.answers.push(out_of(c, &owner));
            exp.cnames += 1;
            let target = c.rds[0].target.clone().unwrap();
            if !z.in_zone(&target) || seen.contains(&target) || exp.cnames >= 64 {
                exp.terminal = Terminal::ChainEnd;
                return exp;
            }
            cur = target;
            continue;
        }
        match z.get(&node, qtype) {
            Some(rs) => {
                exp.answers.push(out_of(rs, &owner));
                exp.terminal = Terminal::Data;
            }
            None => exp.terminal = Terminal::NoData,
        }
        return exp;
    }
}

fn sorted(v: &[OutRs]) -> Vec<OutRs> {
    let mut v: Vec<OutRs> = v
        .iter()
        .map(|r| {
            let mut r = r.clone();
            r.rds.sort();
            r
        })
        .collect();
    v.sort();
    v
}

fn data_only(v: &[OutRs]) -> Vec<OutRs> {
    v.iter().filter(|r| !matches!(r.ty, T_RRSIG | T_NSEC | T_NSEC3)).cloned().collect()
}

/// The property's demands on the response, clause by clause.  Returns (clause, message) pairs.
fn check(c: &Case, exp: &Expected, r: &Resp) -> Vec<(&'static str, String)> {
    let mut f: Vec<(&'static str, String)> = vec![];
    let z = RefZone::new(&c.origin, &c.zone);
    if exp.refused {
        if r.rcode != "REFUSED" || !r.an.is_empty() {
            f.push(("refused", format!("query outside the zone must be REFUSED without data, got {}", r.rcode)));
        }
        return f;
    }
    let an = data_only(&r.an);
    let ns = data_only(&r.ns);
    let one = |x: &Option<OutRs>| x.as_ref().map(|x| sorted(&[x.clone()]));
    let soa = z.get(&c.origin, T_SOA).map(|s| out_of(s, &c.origin));
    let apex_ns = z.get(&c.origin, T_NS).map(|s| out_of(s, &c.origin));
    // never data from at/below a cut in the answer section (the DS of the cut excepted)
    for rs in &an {
        if let Some(cut) = z.cut(&rs.name, rs.ty) {
            f.push(("below-cut", format!("answer section carries {} which is at/below the zone cut {}", out_txt(&[rs.clone()]), name_txt(&cut))));
        }
    }
    // a server may stop chasing after a bounded number of RRsets (hickory: 8); the resolver restarts
    let chain_truncated = exp.cnames >= 8 && an.len() >= 8 && an.len() <= exp.answers.len() && sorted(&an) == sorted(&exp.answers[..an.len()]);
    if chain_truncated {
        if r.rcode != "NOERROR" || !r.aa {
            f.push(("answer", format!("partial CNAME chain must come with NOERROR and AA, got {} aa={}", r.rcode, b(r.aa))));
        }
        return f;
    }
    // authority of an answer that is not negative for the original name: not prescribed;
    // accepted: nothing, the apex NS, or (after a CNAME whose target has no data) the SOA
    let free_auth = |ns: &Vec<OutRs>, f: &mut Vec<(&'static str, String)>| {
        let ok = ns.is_empty() || Some(sorted(ns)) == one(&apex_ns) || (exp.cnames > 0 && Some(sorted(ns)) == one(&soa));
        if !ok {
            f.push(("authority", format!("authority section must be empty, the apex NS or the SOA, got {}", out_txt(ns))));
        }
    };
    match &exp.terminal {
        Terminal::Referral(cut) => {
            let want = out_of(z.get(cut, T_NS).unwrap(), cut);
            if r.rcode != "NOERROR" {
                f.push(("referral", format!("referral at {} expected, rcode {}", name_txt(cut), r.rcode)));
            }
            if sorted(&an) != sorted(&exp.answers) {
                f.push(("referral", format!("referral at {}: answer section must hold exactly the CNAME chain {}, got {}", name_txt(cut), out_txt(&exp.answers), out_txt(&an))));
            }
            let ns_other: Vec<OutRs> = ns.iter().filter(|x| x.ty != T_DS).cloned().collect();
            if sorted(&ns_other) != sorted(&[want.clone()]) {
                f.push(("referral", format!("referral at {}: authority must be {}, got {}", name_txt(cut), out_txt(&[want]), out_txt(&ns))));
            }
            if exp.cnames == 0 && r.aa {
                f.push(("referral-aa", format!("referral at {} must not set AA", name_txt(cut))));
            }
            if exp.cnames > 0 && !r.aa {
                f.push(("aa", "authoritative answer (CNAME owned by the zone) without AA".into()));
            }
        }
        Terminal::Data | Terminal::ChainEnd => {
            if r.rcode != "NOERROR" {
                f.push(("answer", format!("NOERROR expected, got {}", r.rcode)));
            }
            if sorted(&an) != sorted(&exp.answers) {
                f.push(("answer", format!("answer section must be {}, got {}", out_txt(&exp.answers), out_txt(&an))));
            }
            if !r.aa {
                f.push(("aa", "authoritative answer without AA".into()));
            }
            free_auth(&ns, &mut f);
        }
        Terminal::AnyOf(_) => unreachable!("ANY is checked through check_any"),
        Terminal::NoData | Terminal::NxDomain => {
            let nx = exp.terminal == Terminal::NxDomain;
            if exp.cnames == 0 {
                let want = if nx { "NXDOMAIN" } else { "NOERROR" };
                if r.rcode != want {
                    f.push((if nx { "nxdomain" } else { "nodata" }, format!("{} expected, got {}", want, r.rcode)));
                }
                if !an.is_empty() {
                    f.push((if nx { "nxdomain" } else { "nodata" }, format!("negative answer expected, answer section has {}", out_txt(&an))));
                }
                if Some(sorted(&ns)) != one(&soa) {
                    f.push(("negative-soa", format!("negative answer must carry exactly the SOA in the authority section, got {}", out_txt(&ns))));
                }
            } else {
                // after a CNAME: RFC 1034 keeps NOERROR, RFC 6604 wants the rcode of the last step
                if !(r.rcode == "NOERROR" || (nx && r.rcode == "NXDOMAIN")) {
                    f.push(("answer", format!("after a CNAME chain rcode must be NOERROR{}, got {}", if nx { " or NXDOMAIN" } else { "" }, r.rcode)));
                }
                if sorted(&an) != sorted(&exp.answers) {
                    f.push(("answer", format!("answer section must be the CNAME chain {}, got {}", out_txt(&exp.answers), out_txt(&an))));
                }
                free_auth(&ns, &mut f);
            }
            if !r.aa {
                f.push(("aa", "authoritative answer without AA".into()));
            }
        }
    }
    f
}

/// `ANY` (RFC 8482): the response must be a correct response to a query for one concrete type
/// the answering node owns (any type if the node is a CNAME: the server may then also chase it).
fn check_any(c: &Case, exp: &Expected, r: &Resp, qn: &LName) -> Vec<(&'static str, String)> {
    let Terminal::AnyOf(all) = &exp.terminal else {
        return check(c, exp, r);
    };
    let mut cands: Vec<u16> = all.iter().map(|x| x.ty).collect();
    if cands.contains(&T_CNAME) {
        cands.extend(QTYPES.iter().filter(|t| **t != T_ANY));
    }
    let mut first: Option<Vec<(&'static str, String)>> = None;
    for t in cands {
        let e = reference(&c.origin, &c.zone, qn, t);
        let f = check(c, &e, r);
        if f.is_empty() {
            return f;
        }
        first.get_or_insert(f);
    }
    vec![(
        "any",
        format!(
            "ANY must be answered like a query for one of the types the node owns ({}), got {} an={}",
            out_txt(&sorted(all)),
            r.rcode,
            out_txt(&data_only(&r.an))
        ),
    )]
}

// ------------------------------------------------------------------------------------------
// DO=1 on a signed zone: RRSIGs on every authoritative RRset, denial proofs on negative and
// wildcard answers (RFC 4035 §3.1.1-§3.1.3; NSEC3: RFC 5155 §7.2, presence only).
// ------------------------------------------------------------------------------------------

/// RFC 4034 §6.1 canonical ordering key
fn canon_key(n: &LName) -> Vec<Vec<u8>> {
    n.iter().rev().map(|l| l.to_ascii_lowercase().into_bytes()).collect()
}

struct NsecRec {
    owner: LName,
    next: LName,
    types: Vec<String>,
}

fn nsecs_of(sec: &[OutRs]) -> Vec<NsecRec> {
    let mut v = vec![];
    for rs in sec.iter().filter(|r| r.ty == T_NSEC) {
        for rd in &rs.rds {
            if let Some((next, tys)) = rd.split_once(':') {
                if let Some(next) = name_parse(next) {
                    v.push(NsecRec { owner: rs.name.clone(), next, types: tys.split(',').map(String::from).collect() });
                }
            }
        }
    }
    v
}

/// the NSEC proves that no name exists strictly between its owner and its next name
fn nsec_covers(n: &NsecRec, x: &LName) -> bool {
    let (o, nx, k) = (canon_key(&n.owner), canon_key(&n.next), canon_key(x));
    o < k && (k < nx || nx <= o)
}

/// owners of wildcard-expanded RRsets of a section: RRSIG labels field < labels of the owner
fn expanded_owners(sec: &[OutRs]) -> Vec<LName> {
    let mut v: Vec<LName> = vec![];
    for x in sec.iter().filter(|x| x.ty == T_RRSIG) {
        let owner_labels = if x.name.first().is_some_and(|l| l == "*") { x.name.len() - 1 } else { x.name.len() };
        if x.rds.iter().any(|d| d.rsplit_once('.').and_then(|(_, l)| l.parse::<usize>().ok()).is_some_and(|l| l < owner_labels)) && !v.contains(&x.name) {
            v.push(x.name.clone());
        }
    }
    v
}

/// classes of `Model/AuthZoneSignedDev.lean`, evaluated on the response the server really sent
fn signed_classes(c: &Case, r: &Resp, qn: &LName) -> Vec<&'static str> {
    let mut v = vec![];
    if !c.dnssec_ok {
        return v;
    }
    if c.mode == 's' {
        return v;
    }
    if c.mode == '3' || c.mode == 'o' {
        // NSEC3 is not modelled: only "no NSEC3 at all behind a wildcard-expanded SOA-type answer"
        if r.rcode == "NOERROR" && c.qtype == T_SOA && !expanded_owners(&r.an).is_empty() && !r.ns.iter().any(|x| x.ty == T_NSEC3) {
            v.push("soa-query-wildcard-no-proof");
        }
        return v;
    }
    let nsecs = nsecs_of(&r.ns);
    let covering = |x: &LName| nsecs.iter().any(|n| nsec_covers(n, x));
    // nsec-no-wildcard-denial: repaired in /repo f7c9c53 — no class any more
    if r.rcode == "NOERROR" && expanded_owners(&r.an).iter().any(|x| !covering(x)) {
        v.push(if c.qtype == T_SOA { "soa-query-wildcard-no-proof" } else { "wildcard-expansion-not-proven" });
    }
    v
}

fn check_signed(c: &Case, exp: &Expected, r: &Resp, qn: &LName) -> Vec<(&'static str, String)> {
    let mut f: Vec<(&'static str, String)> = vec![];
    let z = RefZone::new(&c.origin, &c.zone);
    if exp.refused || r.rcode == "REFUSED" {
        return f;
    }
    // S1: every authoritative RRset of the answer and authority sections carries an RRSIG
    for (sname, sec) in [("answer", &r.an), ("authority", &r.ns)] {
        for rs in sec.iter().filter(|x| x.ty != T_RRSIG) {
            let delegation_ns = rs.ty == T_NS && rs.name != c.origin && z.get(&rs.name, T_NS).is_some();
            if delegation_ns {
                continue;
            }
            let want = format!("{}.", ty_name(rs.ty));
            let signed = sec.iter().any(|x| x.ty == T_RRSIG && x.name == rs.name && x.rds.iter().any(|d| d.starts_with(&want)));
            if !signed {
                f.push(("rrsig-missing", format!("{} section: {} {} has no RRSIG", sname, name_txt(&rs.name), ty_name(rs.ty))));
            }
        }
    }
    // S2: denial of existence for what the response claims
    let an = data_only(&r.an);
    let is_referral = r.ns.iter().any(|x| x.ty == T_NS && x.name != c.origin);
    let negative = r.rcode == "NXDOMAIN" || (r.rcode == "NOERROR" && an.is_empty() && !is_referral);
    // a wildcard expansion shows in the RRSIG labels field
    let expanded = expanded_owners(&r.an);
    let wildcard_answer = !expanded.is_empty();
    if !(negative || wildcard_answer) {
        return f;
    }
    if c.mode == 's' {
        // signed without a denial chain configured: nothing to demand beyond the RRSIGs
        return f;
    }
    if c.mode == '3' || c.mode == 'o' {
        if !r.ns.iter().any(|x| x.ty == T_NSEC3) {
            f.push(("denial-missing", format!("{} answer without any NSEC3 record", if negative { "negative" } else { "wildcard" })));
        }
        return f;
    }
    let nsecs = nsecs_of(&r.ns);
    let covering = |x: &LName| nsecs.iter().any(|n| nsec_covers(n, x));
    let tyq = ty_name(c.qtype);
    if wildcard_answer && !negative {
        for x in &expanded {
            if !covering(x) {
                f.push(("denial-missing", format!("wildcard-expanded answer {} without an NSEC covering that name", name_txt(x))));
            }
        }
        return f;
    }
    // closest encloser and the wildcard below it, from the zone itself
    let mut ce = qn.clone();
    while !ce.is_empty() && !z.exists(&ce) {
        ce = ce[1..].to_vec();
    }
    let mut wild = vec!["*".to_string()];
    wild.extend(ce.iter().cloned());
    let matching_without_type = |x: &LName| {
        nsecs.iter().any(|n| n.owner == *x && !n.types.contains(&tyq) && (c.qtype == T_CNAME || !n.types.contains(&"CNAME".to_string())))
    };
    if r.rcode == "NXDOMAIN" {
        if !covering(qn) {
            f.push(("denial-missing", format!("NXDOMAIN without an NSEC covering {}", name_txt(qn))));
        }
        if !covering(&wild) {
            f.push(("denial-missing", format!("NXDOMAIN without an NSEC covering the wildcard {}", name_txt(&wild))));
        }
    } else if z.nodes.contains_key(qn) {
        if !matching_without_type(qn) {
            f.push(("denial-missing", format!("NODATA without the NSEC of {} (type bitmap without {})", name_txt(qn), tyq)));
        }
    } else if z.exists(qn) {
        // empty non-terminal
        if !covering(qn) {
            f.push(("denial-missing", format!("NODATA at the empty non-terminal {} without an NSEC covering it", name_txt(qn))));
        }
    } else {
        // wildcard NODATA
        if !covering(qn) || !matching_without_type(&wild) {
            f.push(("denial-missing", format!("wildcard NODATA needs an NSEC covering {} and the NSEC of {}", name_txt(qn), name_txt(&wild))));
        }
    }
    f
}

// ------------------------------------------------------------------------------------------
// deviation classes — the decidable predicates of lean/HickoryVerif/Model/AuthZoneDev.lean,
// re-implemented here; every `q` case is followed by a `dev` case on which the two are compared.
// ------------------------------------------------------------------------------------------

mod dev {
    use super::*;

    pub fn get<'a>(z: &'a [Rs], n: &[String], t: u16) -> Option<&'a Rs> {
        z.iter().find(|r| r.name == n && r.ty == t)
    }
    fn is_suffix_or_eq(anc: &[String], n: &[String]) -> bool {
        is_suffix(anc, n)
    }
    pub fn name_exists(z: &[Rs], n: &[String]) -> bool {
        z.iter().any(|r| is_suffix_or_eq(n, &r.name))
    }
    /// top-down list of zone cuts on the way to `n`
    pub fn cuts(z: &[Rs], o: &[String], n: &[String], t: u16) -> Vec<LName> {
        let mut v = vec![];
        for k in 0..=n.len() {
            let s = &n[n.len() - k..];
            if is_suffix_or_eq(o, s) && s != o && get(z, s, T_NS).is_some() && !(t == T_DS && s == n) {
                v.push(s.to_vec());
            }
        }
        v
    }
    pub fn closest_encloser(z: &[Rs], n: &[String]) -> LName {
        let mut n = n;
        while !n.is_empty() {
            n = &n[1..];
            if name_exists(z, n) {
                return n.to_vec();
            }
        }
        vec![]
    }
    fn walk<'a>(z: &'a [Rs], qname: &[String], qtype: u16) -> Option<&'a Rs> {
        let mut s = qname;
        while !s.is_empty() {
            match (get(z, s, T_NS), get(z, s, T_SOA).is_some()) {
                (Some(ns), false) => {
                    if !(qtype == T_DS && s == qname) {
                        return Some(ns);
                    }
                }
                (Some(_), true) => return None,
                (None, _) => {}
            }
            s = &s[1..];
        }
        None
    }
    pub fn scan<'a>(z: &'a [Rs], n: &[String], t: u16) -> Option<&'a Rs> {
        z.iter().find(|r| r.name == n && (r.ty == t || r.ty == T_CNAME || ((t == T_A || t == T_AAAA) && r.ty == T_ANAME)))
    }
    fn lookup_exact<'a>(z: &'a [Rs], n: &[String], t: u16) -> Option<&'a Rs> {
        walk(z, n, t).or_else(|| scan(z, n, t))
    }
    pub fn is_wildcard_name(n: &[String]) -> bool {
        n.first().is_some_and(|l| l == "*")
    }
    /// the wildcard owner `inner_lookup_wildcard` ends up using
    pub fn wild_source(z: &[Rs], n: &[String], t: u16) -> Option<LName> {
        if n.is_empty() || is_wildcard_name(n) {
            return None;
        }
        let mut rest = &n[1..];
        loop {
            let mut w = vec!["*".to_string()];
            w.extend(rest.iter().cloned());
            if lookup_exact(z, &w, t).is_some() {
                return Some(w);
            }
            if rest.is_empty() {
                return None;
            }
            rest = &rest[1..];
        }
    }
    pub fn replace_any(z: &[Rs], n: &[String]) -> u16 {
        let here: Vec<&Rs> = z.iter().filter(|r| r.name == n).collect();
        if let Some(r) = here.iter().find(|r| matches!(r.ty, T_CNAME | T_A | T_AAAA | T_MX)) {
            return r.ty;
        }
        here.first().map(|r| r.ty).unwrap_or(T_A)
    }
    pub fn eff_type(z: &[Rs], qn: &[String], qt: u16) -> u16 {
        if qt == T_ANY { replace_any(z, qn) } else { qt }
    }
    fn star_ce(z: &[Rs], n: &[String]) -> LName {
        let mut w = vec!["*".to_string()];
        w.extend(closest_encloser(z, n));
        w
    }
    pub fn no_cut(z: &[Rs], o: &[String], n: &[String], t: u16) -> bool {
        cuts(z, o, n, t).is_empty()
    }
    pub fn existing_no_block(z: &[Rs], o: &[String], n: &[String], t: u16) -> bool {
        no_cut(z, o, n, t) && name_exists(z, n) && scan(z, n, t).is_none() && wild_source(z, n, t).is_some()
    }
    pub fn climbs_any(z: &[Rs], o: &[String], n: &[String], t: u16) -> bool {
        no_cut(z, o, n, t) && !name_exists(z, n) && wild_source(z, n, t).is_some_and(|w| w != star_ce(z, n))
    }
    pub fn no_synth(z: &[Rs], o: &[String], n: &[String], t: u16) -> bool {
        no_cut(z, o, n, t) && !name_exists(z, n) && name_exists(z, &star_ce(z, n)) && wild_source(z, n, t).is_none()
    }
    pub fn zone_wf(z: &[Rs], o: &[String]) -> bool {
        get(z, o, T_SOA).is_some()
            && get(z, o, T_NS).is_some()
            && z.iter().all(|r| is_suffix_or_eq(o, &r.name))
            && z.iter().all(|r| r.ty != T_SOA || r.name == o)
            && z.iter().all(|r| {
                r.ty != T_CNAME
                    || (r.rds.first().is_some_and(|x| x.target.is_some()) && z.iter().all(|x| x.name != r.name || x.ty == T_CNAME))
            })
            && z.iter().all(|r| r.ty != T_ANAME)
            && z.iter().all(|r| r.ty != T_NS || !is_wildcard_name(&r.name))
            && !is_wildcard_name(o)
    }

    /// classes that hold of the case, in the order of `Drv/C10.lean: classesOf`
    pub fn classes(c: &Case, qn: &LName, visited: &[LName]) -> Vec<&'static str> {
        let (z, o) = (&c.zone[..], &c.origin[..]);
        let t = eff_type(z, qn, c.qtype);
        let per = |f: &dyn Fn(&[Rs], &[String], &[String], u16) -> bool| visited.iter().any(|n| f(z, o, n, t));
        let mut v = vec![];
        if per(&existing_no_block) {
            v.push("existing-name-does-not-block");
        }
        if per(&|z, o, n, t| climbs_any(z, o, n, t) && !is_wildcard_name(&closest_encloser(z, n))) {
            v.push("climbs-past-closest-encloser");
        }
        if per(&|z, o, n, t| climbs_any(z, o, n, t) && is_wildcard_name(&closest_encloser(z, n))) {
            v.push("wildcard-not-self-blocking");
        }
        if visited.first().is_some_and(|n| no_synth(z, o, n, t) && !is_wildcard_name(n)) {
            v.push("nodata-as-nxdomain");
        }
        if per(&|z, o, n, t| no_synth(z, o, n, t) && is_wildcard_name(n)) {
            v.push("wildcard-qname-not-expanded");
        }
        if per(&|z, o, n, t| cuts(z, o, n, t).len() >= 2) {
            v.push("nested-cut");
        }
        if visited.iter().skip(1).any(|n| !no_cut(z, o, n, t)) {
            v.push("cname-into-cut");
        }
        if c.qtype == T_ANY && !z.iter().any(|r| r.name == *qn) {
            v.push("any-not-at-owner");
        }
        v
    }
}

/// names the standard algorithm resolves for the query with the type the server really looks up,
/// bounded like `Spec.Rfc1034.chase` (at most 8 names)
fn visited_names(c: &Case, qn: &LName) -> Vec<LName> {
    let t = dev::eff_type(&c.zone, qn, c.qtype);
    let mut v = reference(&c.origin, &c.zone, qn, t).visited;
    v.truncate(8);
    v
}

/// known-finding class of a failing clause ("" = none): a class whose predicate holds of the
/// case and which explains that clause.
fn classify(classes: &[&'static str], clause: &str) -> String {
    let pick = |cands: &[&str]| -> String {
        cands.iter().find(|c| classes.contains(c)).map(|c| format!("C10.{c}")).unwrap_or_default()
    };
    let wild = [
        "existing-name-does-not-block",
        "climbs-past-closest-encloser",
        "wildcard-not-self-blocking",
        "nodata-as-nxdomain",
        "wildcard-qname-not-expanded",
    ];
    match clause {
        // referral-aa, ns-any-below-cut, soa-below-cut: repaired in /repo af8bb96 — no class any more
        "below-cut" => {
            let mut v = vec!["cname-into-cut"];
            v.extend(wild);
            pick(&v)
        }
        // ANY is judged as a whole (one verdict): any deviation on its path explains it
        "any" => {
            let mut v = vec!["cname-into-cut", "nested-cut"];
            v.extend(wild);
            pick(&v)
        }
        "referral" => pick(&["cname-into-cut", "nested-cut"]),
        "nodata" | "nxdomain" | "negative-soa" | "answer" | "authority" => pick(&wild),
        "denial-missing" => pick(&["soa-query-wildcard-no-proof", "wildcard-expansion-not-proven"]),
        _ => String::new(),
    }
}

// ------------------------------------------------------------------------------------------

/// `r <kind> <origin> <zone> <qname>`: requests the lookup algorithm must never see — the gate at
/// the head of `Catalog::handle_request` (implementation vs oracle only)
fn exec_request_gate(t: &[&str], line: &str, rec: &mut Recorder) {
    let (Some(kind), Some(origin), Some(zone), Some(qname)) = (t.get(1), t.get(2).and_then(|x| name_parse(x)), t.get(3).and_then(|x| zone_parse(x)), t.get(4).and_then(|x| name_parse_case(x))) else {
        rec.stat("skipped.unparsable-case");
        return;
    };
    let c = Case { mode: 'u', origin, zone: canon_zone(zone), qname, qtype: T_A, dnssec_ok: false, store: None };
    let Some((cat, _)) = build_catalog(&c) else {
        rec.stat("skipped.zone-not-stored-as-written");
        return;
    };
    let mut m = Message::query();
    m.metadata.id = 0x4321;
    let mut qn = Name::from_labels(c.qname.iter().map(|l| l.as_bytes())).expect("qname");
    qn.set_fqdn(true);
    m.add_query(Query::new(qn, RecordType::A));
    let want = match *kind {
        "ednsv1" => {
            // RFC 6891 §6.1.3: unsupported EDNS version -> BADVERS (16), no answer
            let mut e = Edns::new();
            e.set_version(1);
            e.set_max_payload(1232);
            m.set_edns(e);
            "RC16"
        }
        "opcode" => {
            m.metadata.op_code = hickory_proto::op::OpCode::Status;
            "RC4"
        }
        "qr" => {
            m.metadata.message_type = hickory_proto::op::MessageType::Response;
            "RC1"
        }
        _ => {
            rec.stat("skipped.unparsable-case");
            return;
        }
    };
    let bytes = m.to_vec().expect("encode");
    let r = catch(|| {
        let src: SocketAddr = ([127, 0, 0, 1], 5353).into();
        let req = Request::from_bytes(bytes, src, Protocol::Tcp).map_err(|e| format!("request: {e}"))?;
        let cap = Capture::default();
        RT.with(|rt| rt.block_on(cat.handle_request::<_, TokioTime>(&req, cap.clone())));
        let out = cap.buf.lock().unwrap().take().ok_or("no response sent".to_string())?;
        let mut d = BinDecoder::new(&out);
        Message::read(&mut d).map_err(|e| format!("response does not decode: {e}"))
    });
    rec.impl_only += 1;
    let idx = rec.case(line.to_string(), "~".into());
    rec.stat(&format!("op.r-{kind}"));
    match r {
        Ok(Ok(m)) => {
            let resp = resp_of(&m);
            if resp.rcode != want || !resp.an.is_empty() || !resp.ns.is_empty() {
                rec.fail(idx, format!("request-gate: {kind} must be answered {want} without records, got {}", resp_txt(&resp)), "");
            } else {
                rec.stat("oracle.ok");
            }
        }
        Ok(Err(e)) => rec.fail(idx, format!("request-gate: no usable response: {e}"), ""),
        Err(p) => rec.fail(idx, format!("panic: {p}"), ""),
    }
}

pub fn exec(line: &str, rec: &mut Recorder) {
    let t: Vec<&str> = line.split_whitespace().collect();
    if t.first() == Some(&"r") {
        exec_request_gate(&t, line, rec);
        return;
    }
    if t.first() == Some(&"dev") && t.get(1) == Some(&"n") {
        rec.stat("skipped.dev-n-line-is-emitted-with-its-q-line");
        return;
    }
    if t.first() == Some(&"dev") {
        // class predicates only: harness mirror vs Lean definition
        let mut tt = t.clone();
        tt[0] = "q";
        let Some(mut c) = case_parse(&tt) else {
            rec.stat("skipped.unparsable-case");
            return;
        };
        let canon = canon_zone(c.zone.clone());
        let line_owned;
        let line = if canon != c.zone {
            c.zone = canon;
            line_owned = format!("dev{}", &case_line(&c)[1..]);
            &line_owned[..]
        } else {
            line
        };
        let qn = lower(&c.qname);
        let cl = dev::classes(&c, &qn, &visited_names(&c, &qn));
        let out = format!(
            "wf={} classes={} thm=ok",
            b(dev::zone_wf(&c.zone, &c.origin)),
            if cl.is_empty() { "-".to_string() } else { cl.join(",") }
        );
        rec.case(line.to_string(), out);
        rec.stat("op.dev");
        return;
    }
    let Some(mut c) = case_parse(&t) else {
        rec.stat("skipped.unparsable-case");
        return;
    };
    let canon = canon_zone(c.zone.clone());
    let line_owned;
    let line = if canon != c.zone {
        c.zone = canon;
        line_owned = case_line(&c);
        &line_owned[..]
    } else {
        line
    };
    let Some((cat, store)) = build_catalog(&c) else {
        rec.stat("skipped.zone-not-stored-as-written");
        return;
    };
    // signed (NSEC) zones: the case line carries the store after signing — what the model runs on
    let line_signed;
    let line = if let Some(st) = &store {
        let txt = store_txt(st);
        if c.store.as_ref().is_some_and(|x| *x != txt) {
            rec.stat("skipped.signed-store-differs-from-case-line");
            return;
        }
        c.store = Some(txt);
        line_signed = case_line(&c);
        &line_signed[..]
    } else {
        line
    };
    let r = catch(|| ask(&cat, &c));
    let resp = match r {
        Ok(Ok(m)) => resp_of(&m),
        Ok(Err(e)) => {
            let idx = rec.case(line.to_string(), "err".into());
            rec.fail(idx, format!("no usable response: {e}"), "");
            return;
        }
        Err(p) => {
            let idx = rec.case(line.to_string(), format!("panic {p}"));
            rec.fail(idx, format!("panic: {p}"), "");
            return;
        }
    };
    let shown = resp_txt(&resp);
    let idx = if c.mode != '3' && c.mode != 'o' {
        rec.case(line.to_string(), shown.clone())
    } else {
        rec.impl_only += 1;
        rec.case(line.to_string(), "~".into())
    };
    let qn = lower(&c.qname);
    if c.mode == 'n' {
        // twin: the signed-stage class predicates, harness (on the real response) vs Lean (on the model)
        let cl = signed_classes(&c, &resp, &qn);
        let all_signed = store.as_ref().is_some_and(|st| st.iter().all(|r| r.sig_labels.is_some()));
        rec.case(
            format!("dev{}", &line[1..]),
            format!("signed={} sclasses={}", b(all_signed), if cl.is_empty() { "-".to_string() } else { cl.join(",") }),
        );
        rec.stat("op.dev-signed");
    }
    if c.qtype == T_AXFR {
        // transfers are C13's subject; here only: with AxfrPolicy::Deny an AXFR query must be
        // refused and must not carry any record of the zone
        rec.stat("op.q-axfr");
        if resp.rcode != "REFUSED" || !resp.an.is_empty() || !resp.ns.is_empty() || !resp.ar.is_empty() {
            rec.fail(idx, format!("axfr: AXFR with AxfrPolicy::Deny must be REFUSED without records, got {shown}"), "");
        } else {
            rec.stat("oracle.ok");
        }
        return;
    }
    let exp = reference(&c.origin, &c.zone, &qn, c.qtype);
    rec.stat("op.q");
    rec.stat(&format!("mode.{}", c.mode));
    rec.stat(&format!("qtype.{}", ty_name(c.qtype)));
    rec.stat(&format!("rcode.{}", resp.rcode));
    rec.stat(&format!(
        "expected.{}",
        match &exp.terminal {
            _ if exp.refused => "refused".to_string(),
            Terminal::Data => format!("data{}{}", if exp.cnames > 0 { "+cname" } else { "" }, if exp.wildcard_used { "+wildcard" } else { "" }),
            Terminal::AnyOf(_) => format!("any{}", if exp.wildcard_used { "+wildcard" } else { "" }),
            Terminal::NoData => format!("nodata{}{}", if exp.cnames > 0 { "+cname" } else { "" }, if exp.wildcard_used { "+wildcard" } else { "" }),
            Terminal::NxDomain => format!("nxdomain{}", if exp.cnames > 0 { "+cname" } else { "" }),
            Terminal::Referral(_) => format!("referral{}", if exp.cnames > 0 { "+cname" } else { "" }),
            Terminal::ChainEnd => "cname-chain-end".into(),
        }
    ));
    rec.stat(&format!("chain.len.{}", exp.cnames.min(9)));
    rec.stat(&format!("zone.rrsets.{:02}+", (c.zone.len() / 4) * 4));
    if !exp.refused && !(exp.terminal == Terminal::NxDomain && exp.cnames == 0 && c.zone.len() <= 2) {
        rec.nontrivial(idx);
    }
    // RFC 4592 §4.2: NS at a wildcard owner is undefined; a second SOA or an owner outside the
    // zone is not a zone — no verdict beyond "answers, no panic" (the model still has to agree)
    if !dev::zone_wf(&c.zone, &c.origin) {
        rec.stat("oracle.skipped.ill-formed-zone");
        return;
    }
    let mut fails = if c.qtype == T_ANY { check_any(&c, &exp, &resp, &qn) } else { check(&c, &exp, &resp) };
    if c.mode != 'u' && c.dnssec_ok && fails.is_empty() {
        // the answer itself is the prescribed one: now its signatures and denial proofs
        fails.extend(check_signed(&c, &exp, &resp, &qn));
    }
    if fails.is_empty() {
        rec.stat("oracle.ok");
        return;
    }
    let mut classes = dev::classes(&c, &qn, &visited_names(&c, &qn));
    if c.mode != 'u' {
        classes.extend(signed_classes(&c, &resp, &qn));
    }
    for (clause, what) in fails {
        let class = classify(&classes, clause);
        rec.stat(&format!("oracle-fail.{}", if class.is_empty() { clause } else { &class }));
        rec.fail(idx, format!("{clause}: {what}{}", if c.mode == 'u' { String::new() } else { format!(" [response: {shown}]") }), &class);
    }
}

/// a `q` case followed by its `dev` twin
fn exec_both(c: &Case, rec: &mut Recorder) {
    let l = case_line(c);
    exec(&l, rec);
    if c.mode == 'u' && c.qtype != T_AXFR {
        exec(&format!("dev{}", &l[1..]), rec);
    }
}

// ------------------------------------------------------------------------------------------
// generator
// ------------------------------------------------------------------------------------------

fn nm(s: &str) -> LName {
    name_parse(s).expect("name literal")
}

fn rd(tag: u32) -> Rd {
    Rd { tag, target: None }
}
fn rdt(tag: u32, t: &LName) -> Rd {
    Rd { tag, target: Some(t.clone()) }
}

/// sorts RRsets into the store's order (Name::cmp, then type code) and merges duplicates
pub fn canon_zone(mut z: Vec<Rs>) -> Vec<Rs> {
    let mut m: BTreeMap<(LowerName, u16), Rs> = BTreeMap::new();
    for rs in z.drain(..) {
        let k = (LowerName::new(&to_name(&rs.name)), rs.ty);
        match m.get_mut(&k) {
            Some(e) => {
                for r in rs.rds {
                    if !e.rds.contains(&r) {
                        e.rds.push(r)
                    }
                }
            }
            None => {
                m.insert(k, rs);
            }
        }
    }
    let mut v: Vec<(LowerName, u16, Rs)> = m.into_iter().map(|((n, t), r)| (n, t, r)).collect();
    v.sort_by(|a, b| a.0.cmp(&b.0).then(RecordType::from(a.1).cmp(&RecordType::from(b.1))));
    v.into_iter().map(|x| x.2).collect()
}

fn under(prefix: &[&str], origin: &LName) -> LName {
    let mut v: Vec<String> = prefix.iter().map(|s| s.to_string()).collect();
    v.extend(origin.iter().cloned());
    v
}

fn gen_zone(r: &mut Rng, origin: &LName) -> Vec<Rs> {
    let labels = ["a", "b", "c", "*", "ns", "w"];
    let mut z: Vec<Rs> = vec![];
    z.push(Rs { name: origin.clone(), ty: T_SOA, rds: vec![rd(0)] });
    let nsn = under(&["ns"], origin);
    let mut apex_ns = vec![rdt(0, &nsn)];
    if r.chance(1, 3) {
        apex_ns.push(rdt(0, &nm("ns.other.")));
    }
    z.push(Rs { name: origin.clone(), ty: T_NS, rds: apex_ns });
    if r.chance(2, 3) {
        z.push(Rs { name: nsn.clone(), ty: T_A, rds: vec![rd(53)] });
    }
    // owner names: depth 1..3 under the origin
    let n_owners = r.range(1, 7);
    let mut owners: Vec<LName> = vec![];
    for _ in 0..n_owners {
        let depth = *r.pick(&[1usize, 1, 1, 2, 2, 3]);
        let mut pre: Vec<&str> = vec![];
        for i in 0..depth {
            let l = if i == 0 { *r.pick(&labels) } else { *r.pick(&["a", "b", "c", "*"]) };
            pre.push(l);
        }
        let o = under(&pre, origin);
        if !owners.contains(&o) {
            owners.push(o);
        }
    }
    let target = |r: &mut Rng, owners: &Vec<LName>| -> LName {
        match r.below(8) {
            0 => nm("host.other."),
            1 => under(&["nx"], origin),
            2 => under(&["x", "a"], origin),
            3 => origin.clone(),
            _ => r.pick(owners).clone(),
        }
    };
    for o in owners.clone() {
        match r.below(12) {
            0 | 1 => z.push(Rs { name: o.clone(), ty: T_A, rds: vec![rd(1)] }),
            2 => {
                z.push(Rs { name: o.clone(), ty: T_A, rds: vec![rd(1), rd(2)] });
                z.push(Rs { name: o.clone(), ty: T_AAAA, rds: vec![rd(1)] });
            }
            3 => z.push(Rs { name: o.clone(), ty: T_TXT, rds: vec![rd(7)] }),
            4 => {
                let t = target(r, &owners);
                z.push(Rs { name: o.clone(), ty: T_MX, rds: vec![rdt(10, &t)] });
                if r.chance(1, 2) {
                    z.push(Rs { name: o.clone(), ty: T_TXT, rds: vec![rd(3)] });
                }
            }
            5 | 6 | 7 => {
                let t = target(r, &owners);
                z.push(Rs { name: o.clone(), ty: T_CNAME, rds: vec![rdt(0, &t)] });
            }
            8 | 9 | 10 if o[0] == "*" && !r.chance(1, 12) => z.push(Rs { name: o.clone(), ty: T_TXT, rds: vec![rd(4)] }),
            8 | 9 | 10 => {
                // delegation, with or without glue / DS
                let inside = r.chance(1, 2);
                let mut g = vec!["ns".to_string()];
                g.extend(o.iter().cloned());
                let t = if inside { g.clone() } else { nm("ns.other.") };
                z.push(Rs { name: o.clone(), ty: T_NS, rds: vec![rdt(0, &t)] });
                if inside && r.chance(2, 3) {
                    z.push(Rs { name: g, ty: T_A, rds: vec![rd(9)] });
                }
                if r.chance(1, 3) {
                    z.push(Rs { name: o.clone(), ty: T_DS, rds: vec![rd(11)] });
                }
                if r.chance(1, 4) {
                    // occluded data below the cut
                    let mut occ = vec!["a".to_string()];
                    occ.extend(o.iter().cloned());
                    z.push(Rs { name: occ, ty: T_A, rds: vec![rd(66)] });
                }
            }
            _ => match r.below(4) {
                0 => {
                    // SRV: additional processing for its own query type
                    let t = target(r, &owners);
                    z.push(Rs { name: o.clone(), ty: T_SRV, rds: vec![rdt(1, &t), rdt(2, &nm("srv.other."))] });
                }
                _ => z.push(Rs { name: o.clone(), ty: *r.pick(&[T_AAAA, T_TXT, T_MX, T_A]), rds: vec![rd(5)] }),
            },
        }
    }
    // MX needs a target
    for rs in z.iter_mut() {
        if rs.ty == T_MX || rs.ty == T_SRV {
            for x in rs.rds.iter_mut() {
                if x.target.is_none() {
                    x.target = Some(origin.clone());
                }
            }
        }
    }
    canon_zone(z)
}

fn gen_qnames(r: &mut Rng, origin: &LName, zone: &[Rs]) -> Vec<LName> {
    let mut q: BTreeSet<LName> = BTreeSet::new();
    q.insert(origin.clone());
    for rs in zone {
        q.insert(rs.name.clone());
        // parents (ENTs) and children
        let mut p = rs.name.clone();
        while p.len() > origin.len() {
            p = p[1..].to_vec();
            q.insert(p.clone());
        }
        for l in ["a", "x", "*"] {
            let mut c = vec![l.to_string()];
            c.extend(rs.name.iter().cloned());
            q.insert(c);
        }
        for rd in &rs.rds {
            if let Some(t) = &rd.target {
                q.insert(t.clone());
            }
        }
    }
    q.insert(under(&["x", "y"], origin));
    q.insert(nm("other."));
    q.insert(vec![]);
    let mut v: Vec<LName> = q.into_iter().collect();
    // deterministic shuffle
    for i in (1..v.len()).rev() {
        let j = r.below(i as u64 + 1) as usize;
        v.swap(i, j);
    }
    v
}

/// structured zones around one feature each (chains, loops, nested cuts, the RFC 4592 example)
fn gen_special(r: &mut Rng, origin: &LName) -> Vec<Rs> {
    let mut z: Vec<Rs> = vec![
        Rs { name: origin.clone(), ty: T_SOA, rds: vec![rd(0)] },
        Rs { name: origin.clone(), ty: T_NS, rds: vec![rdt(0, &nm("ns.other."))] },
    ];
    match r.below(7) {
        6 => {
            // ANAME (hickory's apex-alias type; no RFC semantics, model-vs-implementation only):
            // targets with A / AAAA / both / nothing, via CNAME, via another ANAME, out of zone,
            // below a cut, under a wildcard; ANAME next to address records; CNAME -> ANAME
            let t = |s: &str| under(&[s], origin);
            z.push(Rs { name: t("t4"), ty: T_A, rds: vec![rd(1), rd(2)] });
            z.push(Rs { name: t("t6"), ty: T_AAAA, rds: vec![rd(6)] });
            z.push(Rs { name: t("t46"), ty: T_A, rds: vec![rd(3)] });
            z.push(Rs { name: t("t46"), ty: T_AAAA, rds: vec![rd(7)] });
            z.push(Rs { name: t("tc"), ty: T_CNAME, rds: vec![rdt(0, &t("t46"))] });
            z.push(Rs { name: t("cut"), ty: T_NS, rds: vec![rdt(0, &nm("ns.other."))] });
            z.push(Rs { name: under(&["*", "w"], origin), ty: T_A, rds: vec![rd(9)] });
            let targets = [t("t4"), t("t6"), t("t46"), t("tc"), t("nx"), nm("host.other."), under(&["x", "cut"], origin), under(&["x", "w"], origin), t("an2"), t("an1")];
            let k = r.range(1, 4);
            for i in 0..k {
                let owner = if i == 0 && r.chance(1, 3) { origin.clone() } else { t(&format!("an{}", i + 1)) };
                let tg = r.pick(&targets).clone();
                z.push(Rs { name: owner.clone(), ty: T_ANAME, rds: vec![rdt(0, &tg)] });
                if r.chance(1, 3) {
                    z.push(Rs { name: owner.clone(), ty: T_A, rds: vec![rd(40)] });
                }
                if r.chance(1, 4) {
                    z.push(Rs { name: owner, ty: T_TXT, rds: vec![rd(41)] });
                }
            }
            if r.chance(1, 2) {
                z.push(Rs { name: t("ca"), ty: T_CNAME, rds: vec![rdt(0, &t("an1"))] });
            }
            if r.chance(1, 3) {
                z.push(Rs { name: under(&["*", "wa"], origin), ty: T_ANAME, rds: vec![rdt(0, &t("t4"))] });
            }
            if r.chance(1, 3) {
                z.push(Rs { name: t("mx"), ty: T_MX, rds: vec![rdt(10, &t("an1"))] });
            }
        }
        0 | 1 => {
            // CNAME chain c0 -> c1 -> ... -> end
            let k = r.range(1, 10) as usize;
            let nmk = |i: usize| under(&[&format!("c{i}")], origin);
            let wild_at = if r.chance(1, 4) { Some(r.below(k as u64) as usize) } else { None };
            for i in 0..k {
                let owner = if wild_at == Some(i) && i > 0 {
                    // the link is synthesised from a wildcard: target of the previous one is x.w<i>
                    under(&["*", &format!("c{i}")], origin)
                } else {
                    nmk(i)
                };
                let next = if i + 1 < k {
                    if wild_at == Some(i + 1) { under(&["x", &format!("c{}", i + 1)], origin) } else { nmk(i + 1) }
                } else {
                    match r.below(8) {
                        0 => nmk(0),                          // loop to the start
                        1 => nmk(i),                          // self loop
                        2 => nm("host.other."),               // leaves the zone
                        3 => under(&["nx"], origin),          // no such name
                        4 => under(&["x", "cut"], origin),    // below a cut
                        5 => under(&["ent"], origin),         // empty non-terminal
                        6 => under(&["x", "wild"], origin),   // wildcard
                        _ => under(&["end"], origin),
                    }
                };
                z.push(Rs { name: owner, ty: T_CNAME, rds: vec![rdt(0, &next)] });
            }
            z.push(Rs { name: under(&["end"], origin), ty: T_A, rds: vec![rd(1)] });
            z.push(Rs { name: under(&["end"], origin), ty: T_TXT, rds: vec![rd(2)] });
            z.push(Rs { name: under(&["cut"], origin), ty: T_NS, rds: vec![rdt(0, &under(&["ns", "cut"], origin))] });
            z.push(Rs { name: under(&["ns", "cut"], origin), ty: T_A, rds: vec![rd(9)] });
            z.push(Rs { name: under(&["a", "ent"], origin), ty: T_A, rds: vec![rd(3)] });
            z.push(Rs { name: under(&["*", "wild"], origin), ty: T_A, rds: vec![rd(4)] });
        }
        2 => {
            // nested cuts, occluded data, DS, glue
            z.push(Rs { name: under(&["sub"], origin), ty: T_NS, rds: vec![rdt(0, &under(&["ns", "sub"], origin)), rdt(0, &nm("ns.other."))] });
            z.push(Rs { name: under(&["ns", "sub"], origin), ty: T_A, rds: vec![rd(9)] });
            z.push(Rs { name: under(&["deep", "sub"], origin), ty: T_NS, rds: vec![rdt(0, &nm("ns.other."))] });
            if r.chance(1, 2) {
                z.push(Rs { name: under(&["sub"], origin), ty: T_DS, rds: vec![rd(7)] });
            }
            if r.chance(1, 2) {
                z.push(Rs { name: under(&["a", "deep", "sub"], origin), ty: T_A, rds: vec![rd(66)] });
            }
            if r.chance(1, 2) {
                z.push(Rs { name: under(&["*", "sub"], origin), ty: T_TXT, rds: vec![rd(5)] });
            }
            z.push(Rs { name: under(&["alias"], origin), ty: T_CNAME, rds: vec![rdt(0, &under(&["www", "deep", "sub"], origin))] });
            z.push(Rs { name: under(&["*"], origin), ty: T_A, rds: vec![rd(1)] });
        }
        3 => {
            // RFC 4592 §2.2.1 example zone (SRV replaced by TXT)
            z.push(Rs { name: under(&["*"], origin), ty: T_TXT, rds: vec![rd(1)] });
            z.push(Rs { name: under(&["*"], origin), ty: T_MX, rds: vec![rdt(10, &under(&["host1"], origin))] });
            z.push(Rs { name: under(&["sub", "*"], origin), ty: T_TXT, rds: vec![rd(2)] });
            z.push(Rs { name: under(&["host1"], origin), ty: T_A, rds: vec![rd(1)] });
            z.push(Rs { name: under(&["_ssh", "_tcp", "host1"], origin), ty: T_TXT, rds: vec![rd(3)] });
            z.push(Rs { name: under(&["_ssh", "_tcp", "host2"], origin), ty: T_TXT, rds: vec![rd(4)] });
            z.push(Rs { name: under(&["subdel"], origin), ty: T_NS, rds: vec![rdt(0, &nm("ns.other."))] });
        }
        4 => {
            // wildcards at several depths, wildcard CNAME, ENT wildcard
            for pre in [vec!["*"], vec!["*", "a"], vec!["*", "b", "a"], vec!["x", "*", "a"]] {
                if r.chance(2, 3) {
                    let ty = *r.pick(&[T_A, T_TXT, T_CNAME, T_MX]);
                    let rds = match ty {
                        T_CNAME => vec![rdt(0, &under(&[*r.pick(&["t", "nx", "q.a", "*.a"])], origin))],
                        T_MX => vec![rdt(5, &under(&["t"], origin))],
                        _ => vec![rd(1)],
                    };
                    z.push(Rs { name: under(&pre, origin), ty, rds });
                }
            }
            z.push(Rs { name: under(&["t"], origin), ty: T_A, rds: vec![rd(8)] });
            if r.chance(1, 2) {
                z.push(Rs { name: under(&["a"], origin), ty: T_TXT, rds: vec![rd(6)] });
            }
        }
        _ => {
            // not well-formed on purpose: NS at a wildcard, SOA below the apex, owner outside
            match r.below(3) {
                0 => z.push(Rs { name: under(&["*"], origin), ty: T_NS, rds: vec![rdt(0, &nm("ns.other."))] }),
                1 => {
                    z.push(Rs { name: under(&["child"], origin), ty: T_SOA, rds: vec![rd(0)] });
                    z.push(Rs { name: under(&["child"], origin), ty: T_NS, rds: vec![rdt(0, &nm("ns.other."))] });
                    z.push(Rs { name: under(&["www", "child"], origin), ty: T_A, rds: vec![rd(1)] });
                }
                _ => {
                    z.push(Rs { name: nm("*."), ty: T_A, rds: vec![rd(1)] });
                    z.push(Rs { name: nm("www.other."), ty: T_A, rds: vec![rd(2)] });
                }
            }
            z.push(Rs { name: under(&["www"], origin), ty: T_A, rds: vec![rd(1)] });
        }
    }
    // "x.y" style prefixes given as one string above: split them
    for rs in z.iter_mut() {
        for x in rs.rds.iter_mut() {
            if let Some(t) = &mut x.target {
                *t = t.iter().flat_map(|l| l.split('.').map(String::from)).collect();
            }
        }
        rs.name = rs.name.iter().flat_map(|l| l.split('.').map(String::from)).collect();
    }
    canon_zone(z)
}

/// small-scope enumeration (thorough tier): every assignment of a content option to five owner
/// names x nine query names x the nine query types
fn exhaustive(rec: &mut Recorder) {
    let o = nm("e.");
    let owners = [nm("a.e."), nm("*.e."), nm("b.a.e."), nm("*.a.e."), nm("c.e.")];
    let qnames = [nm("e."), nm("a.e."), nm("b.a.e."), nm("c.e."), nm("x.e."), nm("x.a.e."), nm("x.b.a.e."), nm("*.e."), nm("x.*.e."), nm("*.x.e.")];
    // options: nothing | A | TXT | CNAME a.e. | CNAME x.a.e. | NS (cut)
    let n_opt = 6usize;
    let total = n_opt.pow(owners.len() as u32);
    for code in 0..total {
        let mut z: Vec<Rs> = vec![
            Rs { name: o.clone(), ty: T_SOA, rds: vec![rd(0)] },
            Rs { name: o.clone(), ty: T_NS, rds: vec![rdt(0, &nm("ns.other."))] },
        ];
        let mut k = code;
        for ow in &owners {
            let opt = k % n_opt;
            k /= n_opt;
            match opt {
                1 => z.push(Rs { name: ow.clone(), ty: T_A, rds: vec![rd(1)] }),
                2 => z.push(Rs { name: ow.clone(), ty: T_TXT, rds: vec![rd(2)] }),
                3 => z.push(Rs { name: ow.clone(), ty: T_CNAME, rds: vec![rdt(0, &nm("a.e."))] }),
                4 => z.push(Rs { name: ow.clone(), ty: T_CNAME, rds: vec![rdt(0, &nm("x.a.e."))] }),
                5 => z.push(Rs { name: ow.clone(), ty: T_NS, rds: vec![rdt(0, &nm("ns.other."))] }),
                _ => {}
            }
        }
        let z = canon_zone(z);
        for (i, qn) in qnames.iter().enumerate() {
            for (j, qt) in QTYPES.iter().enumerate() {
                let c = Case { mode: 'u', origin: o.clone(), zone: z.clone(), qname: qn.clone(), qtype: *qt, dnssec_ok: false, store: None };
                let l = case_line(&c);
                exec(&l, rec);
                if (code + i + j) % 5 == 0 {
                    exec(&format!("dev{}", &l[1..]), rec);
                }
                // every 9th zone also signed (NSEC; NSEC3 for every 45th), DO=1
                if code % 9 == 4 && dev::zone_wf(&z, &o) {
                    let mode = if code % 45 == 4 { '3' } else { 'n' };
                    let c = Case { mode, origin: o.clone(), zone: z.clone(), qname: qn.clone(), qtype: *qt, dnssec_ok: true, store: None };
                    exec(&case_line(&c), rec);
                }
            }
        }
    }
}

pub fn run(o: &Opts, rec: &mut Recorder) {
    rec.rule = "zones over a small name universe (apex SOA+NS, hosts, ENTs, wildcards at depth 1-3, CNAME chains / loops / out-of-zone targets, delegations with and without glue, DS at cuts, occluded data below cuts, nested cuts, SRV, ANAME (model only), a few ill-formed zones; unsigned / NSEC / signed without denial chain / NSEC3 / NSEC3 opt-out; built by upsert_mut, async upsert or InMemoryZoneHandler::new) x qnames in and around the zone x {A,AAAA,MX,NS,CNAME,SOA,DS,TXT,ANY} (+ SRV, ANAME, AXFR where it applies) + request-gate cases; every q case has a dev twin comparing the harness' class predicates and the theorem statement with the Lean side; a case is non-trivial unless the query is outside the zone or a plain NXDOMAIN in an apex-only zone; distinct by case line".into();
    for l in o.pre_lines.clone() {
        exec(&l, rec);
        if l.starts_with("q u ") && !l.contains(" AXFR ") {
            exec(&format!("dev{}", &l[1..]), rec);
        }
    }
    rec.corpus_cases = rec.cases.len();
    if o.replay_only {
        return;
    }
    let mut r = Rng::new(o.seed);
    let zones = o.n(1000, 6000);
    for zi in 0..zones {
        // mostly `example.`; sometimes a deeper origin, a one-letter TLD, the root zone
        let origin = match zi % 16 {
            5 => nm("z.example."),
            9 => nm("x."),
            13 => nm("."),
            _ => nm("example."),
        };
        let z = if zi % 3 == 2 { gen_special(&mut r, &origin) } else { gen_zone(&mut r, &origin) };
        let qs = gen_qnames(&mut r, &origin, &z);
        for (i, qn) in qs.iter().enumerate() {
            if i >= 16 {
                break;
            }
            let has = |t: u16| z.iter().any(|x| x.ty == t);
            let mut qts: Vec<u16> = QTYPES.to_vec();
            if has(T_SRV) {
                qts.push(T_SRV);
            }
            if has(T_ANAME) {
                qts.push(T_ANAME);
            }
            if i < 2 || r.chance(1, 12) {
                qts.push(T_AXFR);
            }
            for qt in qts {
                if !r.chance(1, 2) && i >= 5 {
                    continue;
                }
                let mut qn = qn.clone();
                if r.chance(1, 10) {
                    qn = qn.iter().map(|l| l.to_ascii_uppercase()).collect();
                }
                let c = Case { mode: 'u', origin: origin.clone(), zone: z.clone(), qname: qn.clone(), qtype: qt, dnssec_ok: r.chance(1, 8), store: None };
                exec_both(&c, rec);
                if zi % 4 == 0 && qt != T_AXFR {
                    // signed twin (ill-formed zones too: implementation = model only)
                    let mode = match r.below(16) {
                        0..=9 => 'n',
                        10 | 11 => 's',
                        12 | 13 => '3',
                        _ => 'o',
                    };
                    let c = Case { mode, origin: origin.clone(), zone: z.clone(), qname: qn, qtype: qt, dnssec_ok: !r.chance(1, 6), store: None };
                    exec_both(&c, rec);
                }
            }
        }
    }
    if o.thorough() {
        exhaustive(rec);
    }
}
