//! C13 — updates and signed-only transfers require a valid, timely TSIG.
//!
//! Real code driven here: `Message::finalize` / `TSigner::sign_message` (client signer),
//! `signed_bitmessage_to_buf`, `TSigner::{verify_message_byte, encode_response_tbs}`,
//! `TSigVerifier::verify`, and the server path `Request::from_bytes` → `Catalog::handle_request`
//! (with a settable `Time`) → `SqliteZoneHandler::{update, zone_transfer}` → reply bytes through
//! `ResponseHandle` / `BufDnsStreamHandle`.
//!
//! The oracle is independent of the Lean model *and* of hickory's TSIG code: `RefTsig` below is a
//! small RFC 8945 reference over raw bytes (header verbatim with id := original id and ARCOUNT-1,
//! the octets up to the TSIG RR verbatim, TSIG variables with the RR's own CLASS and TTL), keyed
//! with the HMAC primitive only (`TsigAlgorithm::mac_data`).
use std::future::Future;
use std::io;
use std::net::SocketAddr;
use std::sync::atomic::{AtomicU64, Ordering};
use std::sync::Arc;
use std::time::Duration;

use futures_util::{FutureExt, StreamExt};
use hickory_net::runtime::iocompat::AsyncIoTokioAsStd;
use hickory_net::runtime::{DnsUdpSocket, RuntimeProvider, Spawn, Time, TokioRuntimeProvider};
use hickory_net::udp::UdpClientStream;
use hickory_net::xfer::{BufDnsStreamHandle, DnsClientStream, DnsRequestSender, DnsResponseStream, Protocol, StreamReceiver};
use hickory_net::{DnsMultiplexer, NetError};
use hickory_proto::op::{DnsRequest, DnsRequestOptions, DnsResponse, Edns, Message, MessageType, OpCode, Query, SerialMessage};
use hickory_proto::rr::rdata::tsig::{make_tsig_record, message_tbs, signed_bitmessage_to_buf, TsigAlgorithm, TsigError, TSIG};
use hickory_proto::rr::rdata::{A, NS, SOA, TXT};
use hickory_proto::rr::{DNSClass, LowerName, Name, RData, Record, RecordType, TSigResponseContext, TSigVerifier, TSigner};
use hickory_proto::serialize::binary::{BinDecodable, BinDecoder};
use hickory_server::server::{Request, RequestHandler, ResponseHandle};
use hickory_server::store::file::FileZoneHandler;
use hickory_server::store::in_memory::InMemoryZoneHandler;
use hickory_server::store::sqlite::{Journal, SqliteConfig, SqliteZoneHandler, TsigKeyConfig};
use hickory_server::zone_handler::{AxfrPolicy, Catalog, ZoneHandler, ZoneType};

use crate::common::*;

// ------------------------------------------------------------------------------------------
// virtual clock for the server (`Catalog::handle_request::<_, VTime>`)

static NOW: AtomicU64 = AtomicU64::new(0);

#[derive(Clone, Copy)]
struct VTime;

#[async_trait::async_trait]
impl Time for VTime {
    async fn delay_for(duration: Duration) {
        tokio::time::sleep(duration).await
    }
    async fn timeout<F: 'static + Future + Send>(duration: Duration, future: F) -> Result<F::Output, io::Error> {
        tokio::time::timeout(duration, future)
            .await
            .map_err(move |_| io::Error::new(io::ErrorKind::TimedOut, "future timed out"))
    }
    fn current_time() -> u64 {
        NOW.load(Ordering::SeqCst)
    }
}

// ------------------------------------------------------------------------------------------
// key table (key bytes never appear on a case line; `keyid` selects them)

fn key_bytes(id: &str) -> Vec<u8> {
    match id {
        "ka" => b"0123456789abcdef0123456789abcdef".to_vec(),
        "kb" => (0u8..64).map(|i| i.wrapping_mul(7).wrapping_add(3)).collect(),
        "kx" => b"this-is-not-the-configured-key!!".to_vec(),
        _ => id.as_bytes().to_vec(),
    }
}

fn alg_of(bits: u32) -> Option<TsigAlgorithm> {
    Some(match bits {
        256 => TsigAlgorithm::HmacSha256,
        384 => TsigAlgorithm::HmacSha384,
        512 => TsigAlgorithm::HmacSha512,
        _ => return None,
    })
}

fn alg_bits(a: &TsigAlgorithm) -> u32 {
    match a {
        TsigAlgorithm::HmacSha256 => 256,
        TsigAlgorithm::HmacSha384 => 384,
        TsigAlgorithm::HmacSha512 => 512,
        _ => 0,
    }
}

#[derive(Clone)]
struct SignerSpec {
    name: Name,
    bits: u32,
    fudge: u16,
    keyid: String,
}

impl SignerSpec {
    fn parse(tok: &str) -> Option<Self> {
        let p: Vec<&str> = tok.split('/').collect();
        if p.len() != 5 {
            return None;
        }
        Some(Self { name: parse_name(p[0])?, bits: p[1].parse().ok()?, fudge: p[2].parse().ok()?, keyid: p[4].into() })
    }
    fn signer(&self) -> Option<TSigner> {
        TSigner::new(key_bytes(&self.keyid), alg_of(self.bits)?, self.name.clone(), self.fudge).ok()
    }
    fn tok(&self, macok: bool) -> String {
        let mut n = self.name.clone();
        n.set_fqdn(true);
        format!("{}/{}/{}/{}/{}", name_tok(&n), self.bits, self.fudge, b(macok), self.keyid)
    }
}

// ------------------------------------------------------------------------------------------
// RFC 8945 reference over raw bytes (independent of hickory's decoder and of the model)

#[derive(Clone, Debug)]
struct RefTsig {
    start: usize,
    end: usize,
    key_name: Vec<Vec<u8>>,
    class: u16,
    ttl: u32,
    alg_name: Vec<Vec<u8>>,
    time: u64,
    fudge: u16,
    mac: Vec<u8>,
    oid: u16,
    error: u16,
    other: Vec<u8>,
    /// the algorithm name is written in lower case, uncompressed (the form every signer emits)
    alg_plain: bool,
}

fn r16(b: &[u8], i: usize) -> Option<usize> {
    Some(((*b.get(i)? as usize) << 8) | *b.get(i + 1)? as usize)
}

/// decodes a (possibly compressed) name at `pos`; returns labels and the offset after it
fn ref_name(b: &[u8], pos: usize, limit: usize) -> Option<(Vec<Vec<u8>>, usize, bool)> {
    let mut labels = vec![];
    let mut p = pos;
    let mut after = None;
    let mut hops = 0;
    let mut plain = true;
    loop {
        let l = *b.get(p)? as usize;
        if p >= limit && after.is_none() {
            return None;
        }
        if l == 0 {
            return Some((labels, after.unwrap_or(p + 1), plain));
        } else if l & 0xC0 == 0xC0 {
            let t = ((l & 0x3F) << 8) | *b.get(p + 1)? as usize;
            if after.is_none() {
                after = Some(p + 2);
            }
            plain = false;
            hops += 1;
            if hops > 64 || t >= p {
                return None;
            }
            p = t;
        } else if l & 0xC0 == 0 {
            let s = b.get(p + 1..p + 1 + l)?;
            labels.push(s.to_vec());
            p += 1 + l;
        } else {
            return None;
        }
    }
}

fn ref_skip_record(b: &[u8], pos: usize) -> Option<usize> {
    let (_, p, _) = ref_name(b, pos, b.len())?;
    let rdl = r16(b, p + 8)?;
    let e = p + 10 + rdl;
    if e > b.len() { None } else { Some(e) }
}

/// the TSIG RR as the last record of the additional section, per the header counts
fn ref_tsig(b: &[u8]) -> Option<RefTsig> {
    if b.len() < 12 {
        return None;
    }
    let (qd, an, ns, ar) = (r16(b, 4)?, r16(b, 6)?, r16(b, 8)?, r16(b, 10)?);
    if ar == 0 {
        return None;
    }
    let mut p = 12;
    for _ in 0..qd {
        let (_, q, _) = ref_name(b, p, b.len())?;
        p = q + 4;
        if p > b.len() {
            return None;
        }
    }
    for _ in 0..(an + ns + ar - 1) {
        p = ref_skip_record(b, p)?;
    }
    let start = p;
    let (key_name, q, _) = ref_name(b, p, b.len())?;
    if r16(b, q)? != 250 {
        return None;
    }
    let class = r16(b, q + 2)? as u16;
    let ttl = ((r16(b, q + 4)? as u32) << 16) | r16(b, q + 6)? as u32;
    let rdl = r16(b, q + 8)?;
    let rd = q + 10;
    let end = rd + rdl;
    if end > b.len() || rdl == 0 {
        return None;
    }
    let (alg_name, a, plain) = ref_name(b, rd, end)?;
    let time = ((r16(b, a)? as u64) << 32) | ((r16(b, a + 2)? as u64) << 16) | r16(b, a + 4)? as u64;
    let fudge = r16(b, a + 6)? as u16;
    let ml = r16(b, a + 8)?;
    let m0 = a + 10;
    if m0 + ml + 6 > end {
        return None;
    }
    let mac = b[m0..m0 + ml].to_vec();
    let oid = r16(b, m0 + ml)? as u16;
    let error = r16(b, m0 + ml + 2)? as u16;
    let ol = r16(b, m0 + ml + 4)?;
    if m0 + ml + 6 + ol != end {
        return None;
    }
    let other = b[m0 + ml + 6..end].to_vec();
    let alg_plain = plain && alg_name.iter().all(|l| !l.iter().any(|c| c.is_ascii_uppercase()));
    Some(RefTsig { start, end, key_name, class, ttl, alg_name, time, fudge, mac, oid, error, other, alg_plain })
}

fn lower_wire(labels: &[Vec<u8>]) -> Vec<u8> {
    let mut o = vec![];
    for l in labels {
        o.push(l.len() as u8);
        o.extend(l.iter().map(|c| c.to_ascii_lowercase()));
    }
    o.push(0);
    o
}

/// RFC 8945 §4.3: the digest input
fn ref_tbs(b: &[u8], t: &RefTsig, prev: Option<&[u8]>) -> Vec<u8> {
    ref_tbs_ex(b, t, prev, true)
}

/// RFC 8945 §4.3 / §5.3.1: for a message after the first of a multi-message reply only the TSIG
/// timers follow the message
fn ref_tbs_ex(b: &[u8], t: &RefTsig, prev: Option<&[u8]>, first: bool) -> Vec<u8> {
    let mut o = vec![];
    if let Some(m) = prev {
        o.extend((m.len() as u16).to_be_bytes());
        o.extend(m);
    }
    o.extend(t.oid.to_be_bytes());
    o.extend(&b[2..10]);
    let ar = r16(b, 10).unwrap() as u16;
    o.extend((ar - 1).to_be_bytes());
    o.extend(&b[12..t.start]);
    if !first {
        o.extend(&t.time.to_be_bytes()[2..8]);
        o.extend(t.fudge.to_be_bytes());
        return o;
    }
    o.extend(lower_wire(&t.key_name));
    o.extend(t.class.to_be_bytes());
    o.extend(t.ttl.to_be_bytes());
    o.extend(lower_wire(&t.alg_name));
    o.extend(&t.time.to_be_bytes()[2..8]);
    o.extend(t.fudge.to_be_bytes());
    o.extend(t.error.to_be_bytes());
    o.extend((t.other.len() as u16).to_be_bytes());
    o.extend(&t.other);
    o
}

fn lower_labels(n: &Name) -> Vec<Vec<u8>> {
    n.iter().map(|l| l.to_ascii_lowercase()).collect()
}

fn alg_labels(bits: u32) -> Vec<Vec<u8>> {
    vec![format!("hmac-sha{bits}").into_bytes()]
}

#[derive(Clone, Copy, PartialEq, Debug)]
enum RefVerdict {
    /// no TSIG RR at the end, or not decodable
    Unsigned,
    UnknownKey,
    WrongAlg,
    BadMac,
    /// everything but the time is right; |now - time| > fudge
    Stale,
    /// valid; `strict` = strictly inside the window
    Valid { strict: bool },
}

/// "ends with a TSIG record naming a configured key whose full-length MAC verifies over the exact
/// request bytes and whose time is within fudge of the server clock"
fn ref_verify(b: &[u8], keys: &[SignerSpec], now: u64, prev: Option<&[u8]>) -> (RefVerdict, Option<RefTsig>) {
    ref_verify_ex(b, keys, now, prev, true)
}

fn ref_verify_ex(b: &[u8], keys: &[SignerSpec], now: u64, prev: Option<&[u8]>, first: bool) -> (RefVerdict, Option<RefTsig>) {
    let Some(t) = ref_tsig(b) else { return (RefVerdict::Unsigned, None) };
    let kn: Vec<Vec<u8>> = t.key_name.iter().map(|l| l.to_ascii_lowercase()).collect();
    let Some(k) = keys.iter().find(|k| lower_labels(&k.name) == kn) else { return (RefVerdict::UnknownKey, Some(t)) };
    let an: Vec<Vec<u8>> = t.alg_name.iter().map(|l| l.to_ascii_lowercase()).collect();
    if an != alg_labels(k.bits) {
        return (RefVerdict::WrongAlg, Some(t));
    }
    let Some(alg) = alg_of(k.bits) else { return (RefVerdict::WrongAlg, Some(t)) };
    let tag = alg.mac_data(&key_bytes(&k.keyid), &ref_tbs_ex(b, &t, prev, first)).unwrap_or_default();
    if tag.is_empty() || tag != t.mac {
        return (RefVerdict::BadMac, Some(t));
    }
    let (now, time, f) = (now as i128, t.time as i128, t.fudge as i128);
    if (now - time).abs() > f {
        return (RefVerdict::Stale, Some(t));
    }
    (RefVerdict::Valid { strict: (now - time).abs() < f }, Some(t))
}

/// The five classes recorded while this check was built (C13.TimeLtFudge, C13.CountOverflow,
/// C13.DoubleTsig, C13.ZBitUnauthenticated, C13.TsigClassTtlUnchecked) were repaired in /repo
/// (cdba272, 46a3964, 84e713d): the old behaviours are ordinary, unclassified violations now.
fn deviation_class(_b: &[u8], _t: Option<&RefTsig>) -> &'static str {
    ""
}

fn panic_class(msg: &str) -> (&'static str, String) {
    ("", msg.to_string())
}

// ------------------------------------------------------------------------------------------
// parse summary handed to the model: `rdok`

/// `false` iff some record whose *frame* (owner name, type, class, ttl, rdlength within the
/// message) is readable and whose type is not TSIG is rejected by the real `Record::read`.
fn rdok(b: &[u8]) -> bool {
    catch(|| {
        if b.len() < 12 {
            return true;
        }
        let (qd, an, ns, ar) = (r16(b, 4).unwrap(), r16(b, 6).unwrap(), r16(b, 8).unwrap(), r16(b, 10).unwrap());
        let mut d = BinDecoder::new(b);
        let _ = d.read_slice(12);
        for _ in 0..qd {
            if Query::read(&mut d).is_err() {
                return true;
            }
        }
        for _ in 0..(an + ns + ar) {
            let pos = b.len() - d.len();
            // frame, with the real name decoder
            let mut f = d.clone(pos as u16);
            let Ok(_) = Name::read(&mut f) else { return true };
            let p = b.len() - f.len();
            let (Some(ty), Some(rdl)) = (r16(b, p), r16(b, p + 8)) else { return true };
            let e = p + 10 + rdl;
            if e > b.len() {
                return true;
            }
            let mut r = d.clone(pos as u16);
            if Record::read(&mut r).is_err() && ty != 250 {
                return false;
            }
            d = d.clone(e as u16);
        }
        true
    })
    .unwrap_or(true)
}

// ------------------------------------------------------------------------------------------
// the real TSIG functions, canonicalised

fn sig_tok(r: &Record<TSIG>, start: usize, stop: usize) -> String {
    let t = &r.data;
    let mut alg = t.algorithm.to_name();
    alg.set_fqdn(false);
    format!(
        "{} {} {} {} {} {} {} {} {} {} {} {}",
        start,
        stop,
        name_tok(&r.name),
        u16::from(r.dns_class),
        r.ttl,
        name_tok(&alg),
        t.time,
        t.fudge,
        hex(&t.mac),
        t.oid,
        t.error.map(u16::from).unwrap_or(0),
        hex(&t.other)
    )
}

fn unhex_opt(s: &str) -> Option<Option<Vec<u8>>> {
    if s == "~" { Some(None) } else { unhex(s).map(Some) }
}

/// real `signed_bitmessage_to_buf` → canonical line + the pieces
fn real_tbs(buf: &[u8], prev: Option<&[u8]>, first: bool) -> Result<Result<(Vec<u8>, Box<Record<TSIG>>), ()>, String> {
    catch(|| signed_bitmessage_to_buf(buf, prev, first).map_err(|_| ()))
}

fn macok_for(sg: &SignerSpec, buf: &[u8], prev: Option<&[u8]>, first: bool) -> bool {
    let Some(s) = sg.signer() else { return false };
    match real_tbs(buf, prev, first) {
        Ok(Ok((tbs, rec))) => s.verify(&tbs, &rec.data.mac).is_ok(),
        _ => false,
    }
}

struct CaseOut {
    line: String,
    out: String,
    fails: Vec<(String, &'static str)>,
    nontrivial: bool,
    stats: Vec<String>,
}

fn panic_out(msg: &str, what: &str, fails: &mut Vec<(String, &'static str)>) -> String {
    let (class, site) = panic_class(msg);
    fails.push((format!("{what} panicked: {msg}"), class));
    format!("panic {site}")
}

fn exec_tbs(t: &[&str]) -> Option<CaseOut> {
    let [_, buf, prev, first, _] = t else { return None };
    let buf = unhex(buf)?;
    let prev = unhex_opt(prev)?;
    let first = *first == "1";
    let ok = rdok(&buf);
    let line = format!("tbs {} {} {} {}", hex(&buf), prev.as_deref().map(hex).unwrap_or("~".into()), b(first), b(ok));
    let mut fails = vec![];
    let mut stats = vec![format!("tbs.rdok.{}", b(ok))];
    let mut nontrivial = false;
    let out = match real_tbs(&buf, prev.as_deref(), first) {
        Ok(Ok((tbs, rec))) => {
            nontrivial = true;
            stats.push("tbs.ok".into());
            // independent: where the reference finds the TSIG RR
            let (start, stop) = match ref_tsig(&buf) {
                Some(r) => (r.start, r.end),
                None => {
                    fails.push(("signed_bitmessage_to_buf accepted a message in which the reference finds no final TSIG RR".into(), ""));
                    (0, 0)
                }
            };
            format!("ok {} {}", hex(&tbs), sig_tok(&rec, start, stop))
        }
        Ok(Err(())) => {
            stats.push("tbs.err".into());
            "err".into()
        }
        Err(p) => {
            stats.push("tbs.panic".into());
            panic_out(&p, "signed_bitmessage_to_buf", &mut fails)
        }
    };
    Some(CaseOut { line, out, fails, nontrivial, stats })
}

fn exec_vmb(t: &[&str]) -> Option<CaseOut> {
    let [_, sg, buf, prev, first, _] = t else { return None };
    let sg = SignerSpec::parse(sg)?;
    let signer = sg.signer()?;
    let buf = unhex(buf)?;
    let prev = unhex_opt(prev)?;
    let first = *first == "1";
    let ok = rdok(&buf);
    let mok = macok_for(&sg, &buf, prev.as_deref(), first);
    let line = format!("vmb {} {} {} {} {}", sg.tok(mok), hex(&buf), prev.as_deref().map(hex).unwrap_or("~".into()), b(first), b(ok));
    let mut fails = vec![];
    let mut stats = vec![format!("vmb.macok.{}", b(mok))];
    let r = catch(|| signer.verify_message_byte(&buf, prev.as_deref(), first).map_err(|_| ()));
    let mut nontrivial = false;
    let out = match r {
        Ok(Ok((mac, time, range))) => {
            nontrivial = true;
            stats.push("vmb.ok".into());
            // oracle: accepted ⇒ the reference accepts key, algorithm and MAC
            let (v, rt) = ref_verify(&buf, std::slice::from_ref(&sg), time, prev.as_deref());
            if first && !matches!(v, RefVerdict::Valid { .. }) {
                fails.push((format!("verify_message_byte accepted a message the RFC 8945 reference rejects ({v:?})"), deviation_class(&buf, rt.as_ref())));
            }
            format!("ok {} {} {} {}", hex(&mac), time, range.start, range.end)
        }
        Ok(Err(())) => {
            stats.push("vmb.err".into());
            "err".into()
        }
        Err(p) => {
            stats.push("vmb.panic".into());
            panic_out(&p, "verify_message_byte", &mut fails)
        }
    };
    Some(CaseOut { line, out, fails, nontrivial, stats })
}

fn exec_stbs(t: &[&str]) -> Option<CaseOut> {
    let [_, sg, reqmac, resp, oid, time, error] = t else { return None };
    let sg = SignerSpec::parse(sg)?;
    let signer = sg.signer()?;
    let (reqmac, resp) = (unhex(reqmac)?, unhex(resp)?);
    let (oid, time, error): (u16, u64, u16) = (oid.parse().ok()?, time.parse().ok()?, error.parse().ok()?);
    let line = format!("stbs {} {} {} {} {} {}", sg.tok(false), hex(&reqmac), hex(&resp), oid, time, error);
    let stub = TSIG::new(alg_of(sg.bits)?, time, sg.fudge, vec![], oid, if error == 0 { None } else { Some(TsigError::from(error)) }, vec![]);
    let mut fails = vec![];
    let out = match catch(|| signer.encode_response_tbs(&reqmac, &resp, &stub).map_err(|_| ())) {
        Ok(Ok(v)) => hex(&v),
        Ok(Err(())) => "err".into(),
        Err(p) => panic_out(&p, "encode_response_tbs", &mut fails),
    };
    Some(CaseOut { line, out, fails, nontrivial: true, stats: vec!["stbs".into()] })
}

/// `vfy <signer> <prevmac> <rt> <qt> <buf> <rdok> <pok> <unsigned-req> <first-reply|~>`
fn exec_vfy(t: &[&str]) -> Option<CaseOut> {
    let [_, sg, _, _, qt, buf, _, _, req, first_reply] = t else { return None };
    let sg = SignerSpec::parse(sg)?;
    let signer = sg.signer()?;
    let qt: u64 = qt.parse().ok()?;
    let buf = unhex(buf)?;
    let req = unhex(req)?;
    let first_reply = unhex_opt(first_reply)?;
    // rebuild the verifier exactly as a client gets it: by signing the request
    let mut m = Message::from_vec(&req).ok()?;
    let mut verifier = m.finalize(&signer, qt).ok()??;
    let mut prev = m.signature()?.data.mac.clone();
    let mut rt = 0u64;
    if let Some(fr) = &first_reply {
        // an earlier message of the chain, which must verify
        let r0 = ref_tsig(fr)?;
        catch(|| verifier.verify(fr)).ok()?.ok()?;
        prev = r0.mac.clone();
        rt = r0.time;
    }
    let first = rt == 0;
    let ok = rdok(&buf);
    let pok = catch(|| DnsResponse::from_buffer(buf.clone()).is_ok()).unwrap_or(false);
    let mok = macok_for(&sg, &buf, Some(&prev), first);
    let line = format!(
        "vfy {} {} {} {} {} {} {} {} {}",
        sg.tok(mok),
        hex(&prev),
        rt,
        qt,
        hex(&buf),
        b(ok),
        b(pok),
        hex(&req),
        first_reply.as_deref().map(hex).unwrap_or("~".into())
    );
    let mut fails = vec![];
    let mut stats = vec![format!("vfy.first.{}", b(first))];
    let mut nontrivial = false;
    let out = match catch(|| verifier.verify(&buf).map(|_| ()).map_err(|_| ())) {
        Ok(Ok(())) => {
            nontrivial = true;
            stats.push("vfy.accept".into());
            let r = ref_tsig(&buf);
            // oracle: an accepted reply is one the reference accepts (MAC chained on the request
            // MAC, over the exact reply bytes, request time within the reply's window)
            let (v, rt_) = ref_verify(&buf, std::slice::from_ref(&sg), qt, Some(&prev));
            if first && !matches!(v, RefVerdict::Valid { .. }) {
                fails.push((format!("TSigVerifier::verify accepted a reply the RFC 8945 reference rejects ({v:?})"), deviation_class(&buf, rt_.as_ref())));
            }
            match r {
                Some(r) => format!("ok {} {}", hex(&r.mac), r.time),
                None => "ok ? ?".into(),
            }
        }
        Ok(Err(())) => {
            stats.push("vfy.reject".into());
            // oracle: a reply that is valid under the reference, strictly inside its window and in
            // the form every signer emits must be accepted by the first verification
            let (v, rt_) = ref_verify(&buf, std::slice::from_ref(&sg), qt, Some(&prev));
            let canonical = rt_.as_ref().is_some_and(|t| t.alg_plain && t.class == 255 && t.ttl == 0 && t.other.is_empty()) && buf[3] & 0x40 == 0;
            if first && pok && canonical && matches!(v, RefVerdict::Valid { strict: true }) {
                fails.push(("TSigVerifier::verify rejected a reply that is valid and timely under the RFC 8945 reference".into(), ""));
            }
            "err".into()
        }
        Err(p) => {
            stats.push("vfy.panic".into());
            panic_out(&p, "TSigVerifier::verify", &mut fails)
        }
    };
    Some(CaseOut { line, out, fails, nontrivial, stats })
}

// ------------------------------------------------------------------------------------------
// the server

fn origin() -> Name {
    Name::from_ascii("example.com.").unwrap()
}

fn base_zone(policy: AxfrPolicy) -> InMemoryZoneHandler<TokioRuntimeProvider> {
    base_zone_of(policy, ZoneType::Primary)
}

fn base_zone_of(policy: AxfrPolicy, zt: ZoneType) -> InMemoryZoneHandler<TokioRuntimeProvider> {
    let o = origin();
    let mut z = InMemoryZoneHandler::<TokioRuntimeProvider>::empty(o.clone(), zt, policy, None);
    let soa = SOA::new(Name::from_ascii("ns.example.com.").unwrap(), Name::from_ascii("admin.example.com.").unwrap(), 20260101, 7200, 3600, 360000, 60);
    z.upsert_mut(Record::from_rdata(o.clone(), 3600, RData::SOA(soa)), 0);
    z.upsert_mut(Record::from_rdata(o.clone(), 3600, RData::NS(NS(Name::from_ascii("ns.example.com.").unwrap()))), 0);
    z.upsert_mut(Record::from_rdata(Name::from_ascii("ns.example.com.").unwrap(), 3600, RData::A(A::new(192, 0, 2, 1))), 0);
    z.upsert_mut(Record::from_rdata(Name::from_ascii("www.example.com.").unwrap(), 300, RData::A(A::new(192, 0, 2, 80))), 0);
    z
}

fn build_zone(policy: AxfrPolicy, allow_update: bool, signers: Vec<TSigner>, journal: Option<&std::path::Path>, rt: &tokio::runtime::Runtime) -> Arc<SqliteZoneHandler> {
    let z = base_zone(AxfrPolicy::AllowAll);
    let mut h = SqliteZoneHandler::new(z, policy, allow_update, false);
    h.set_tsig_signers(signers);
    if let Some(p) = journal {
        let _ = std::fs::remove_file(p);
        let j = Journal::from_file(p).expect("journal");
        rt.block_on(h.set_journal(j));
        rt.block_on(h.persist_to_journal()).expect("persist");
    }
    Arc::new(h)
}

/// the sqlite store as a server builds it: `SqliteZoneHandler::try_from_config` from a zone file, a
/// journal path and TSIG key files (all under the `--out` dir); `reopen`: built, dropped and built
/// again, i.e. recovered from the journal the first construction wrote
fn build_from_config(policy: AxfrPolicy, allow_update: bool, specs: &[SignerSpec], dir: &std::path::Path, reopen: bool, rt: &tokio::runtime::Runtime) -> Option<Arc<SqliteZoneHandler>> {
    std::fs::create_dir_all(dir).ok()?;
    let zone = "@ 3600 IN SOA ns.example.com. admin.example.com. 20260101 7200 3600 360000 60\n@ 3600 IN NS ns.example.com.\nns 3600 IN A 192.0.2.1\nwww 300 IN A 192.0.2.80\n";
    std::fs::write(dir.join("example.com.zone"), zone).ok()?;
    let _ = std::fs::remove_file(dir.join("example.com.jrnl"));
    let mut keys = vec![];
    for s in specs {
        let f = format!("key-{}.bin", s.keyid);
        std::fs::write(dir.join(&f), key_bytes(&s.keyid)).ok()?;
        keys.push(TsigKeyConfig { name: s.name.to_ascii(), key_file: f.into(), algorithm: alg_of(s.bits)?, fudge: s.fudge });
    }
    let cfg = SqliteConfig { zone_path: "example.com.zone".into(), journal_path: "example.com.jrnl".into(), allow_update, tsig_keys: keys };
    let mk = || rt.block_on(SqliteZoneHandler::try_from_config(origin(), ZoneType::Primary, policy, false, Some(dir), &cfg, None)).ok();
    let h = mk()?;
    if reopen {
        drop(h);
        return mk().map(Arc::new);
    }
    Some(Arc::new(h))
}

fn zone_dump(h: &InMemoryZoneHandler<TokioRuntimeProvider>, rt: &tokio::runtime::Runtime) -> (String, u32) {
    rt.block_on(async {
        let recs = h.records().await;
        let mut s = String::new();
        for (_, set) in recs.iter() {
            for r in set.records_without_rrsigs() {
                s.push_str(&format!("{} {} {} {};", r.name, r.record_type(), r.ttl, r.data));
            }
        }
        (s, h.serial().await)
    })
}

fn journal_rows(h: &SqliteZoneHandler, rt: &tokio::runtime::Runtime) -> usize {
    rt.block_on(async {
        match h.journal().await.as_ref() {
            Some(j) => j.iter().count(),
            None => 0,
        }
    })
}

fn policy_of(s: &str) -> Option<AxfrPolicy> {
    Some(match s {
        "deny" => AxfrPolicy::Deny,
        "all" => AxfrPolicy::AllowAll,
        "signed" => AxfrPolicy::AllowSigned,
        _ => return None,
    })
}

struct Ctx {
    rt: tokio::runtime::Runtime,
    journal_path: std::path::PathBuf,
    /// the `begin vseq` … `end` block being executed
    vseq: std::cell::RefCell<Option<VSeq>>,
    /// the recorded expansion of a `begin mseq` line is being skipped (replay)
    skip_block: std::cell::Cell<bool>,
}

/// one real `TSigVerifier` fed a sequence of messages, and what the harness knows about it
struct VSeq {
    verifier: TSigVerifier,
    sg: SignerSpec,
    /// shadow of the verifier's private state as its contract defines it: the MAC and the time of
    /// the last message it accepted (the request MAC / 0 before the first)
    prev: Vec<u8>,
    rt: u64,
    qt: u64,
    accepted: usize,
}

/// `begin vseq <signer> <reqmac> <request_time> <unsigned-req>`
fn exec_vseq_begin(t: &[&str], cx: &Ctx) -> Option<CaseOut> {
    let [_, _, sg, _, qt, req] = t else { return None };
    let sg = SignerSpec::parse(sg)?;
    let signer = sg.signer()?;
    let qt: u64 = qt.parse().ok()?;
    let req = unhex(req)?;
    let mut m = Message::from_vec(&req).ok()?;
    let verifier = m.finalize(&signer, qt).ok()??;
    let prev = m.signature()?.data.mac.clone();
    let line = format!("begin vseq {} {} {} {}", sg.tok(false), hex(&prev), qt, hex(&req));
    *cx.vseq.borrow_mut() = Some(VSeq { verifier, sg, prev, rt: 0, qt, accepted: 0 });
    Some(CaseOut { line, out: "ok".into(), fails: vec![], nontrivial: false, stats: vec!["vseq.begin".into()] })
}

/// `vmsg <buf> <rdok> <parseok> <macok>` — the next message given to the verifier of the block.
/// Contract of the code (stricter than RFC 8945 5.3.1, which would allow unsigned intermediate
/// messages folded into the next digest): EVERY accepted message carries a TSIG RR whose MAC covers
/// the previously accepted MAC (the request MAC at first) ‖ the message ‖ TSIG variables (first
/// accepted message) resp. timers (later ones), its time does not go backwards, and the request
/// time lies in its window.
fn exec_vmsg(t: &[&str], cx: &Ctx) -> Option<CaseOut> {
    let [_, buf, _, _, _] = t else { return None };
    let buf = unhex(buf)?;
    let mut guard = cx.vseq.borrow_mut();
    let st = guard.as_mut()?;
    let first = st.rt == 0;
    let ok = rdok(&buf);
    let pok = catch(|| DnsResponse::from_buffer(buf.clone()).is_ok()).unwrap_or(false);
    let mok = macok_for(&st.sg, &buf, Some(&st.prev), first);
    let line = format!("vmsg {} {} {} {}", hex(&buf), b(ok), b(pok), b(mok));
    let mut fails: Vec<(String, &'static str)> = vec![];
    let mut stats = vec![format!("vmsg.first.{}", b(first)), format!("vmsg.pos.{}", st.accepted.min(5))];
    let mut nontrivial = false;
    let r = ref_tsig(&buf);
    let (v, rt_) = ref_verify_ex(&buf, std::slice::from_ref(&st.sg), st.qt, Some(&st.prev), first);
    let verifier = &mut st.verifier;
    let out = match catch(|| verifier.verify(&buf).map(|_| ()).map_err(|_| ())) {
        Ok(Ok(())) => {
            stats.push("vmsg.accept".into());
            nontrivial = !first;
            if !matches!(v, RefVerdict::Valid { .. }) {
                fails.push((
                    format!("message {} of a multi-message reply was accepted although it is not authenticated by the chain ({v:?}; first={first})", st.accepted),
                    deviation_class(&buf, rt_.as_ref()),
                ));
            }
            match &r {
                Some(r) => {
                    if r.time < st.rt {
                        fails.push(("accepted a message whose time signed goes backwards".into(), ""));
                    }
                    st.prev = r.mac.clone();
                    st.rt = r.time;
                    st.accepted += 1;
                    format!("ok {} {}", hex(&r.mac), r.time)
                }
                None => "ok ? ?".into(),
            }
        }
        Ok(Err(())) => {
            stats.push("vmsg.reject".into());
            let canonical = rt_.as_ref().is_some_and(|t| t.alg_plain && t.class == 255 && t.ttl == 0 && t.other.is_empty()) && buf.len() > 3;
            if pok && canonical && matches!(v, RefVerdict::Valid { strict: true }) && r.as_ref().is_some_and(|r| r.time >= st.rt) {
                fails.push((format!("a genuine message of the chain (position {}) was rejected", st.accepted), ""));
            }
            "err".into()
        }
        Err(p) => {
            stats.push("vmsg.panic".into());
            panic_out(&p, "TSigVerifier::verify", &mut fails)
        }
    };
    Some(CaseOut { line, out, fails, nontrivial, stats })
}

fn exec_vseq_end(cx: &Ctx) -> Option<CaseOut> {
    *cx.vseq.borrow_mut() = None;
    Some(CaseOut { line: "end".into(), out: "ok".into(), fails: vec![], nontrivial: false, stats: vec![] })
}

/// `srv <origin> <au> <pol> <signers|-> <now> <buf> <rdok> <journal>`
fn exec_srv(t: &[&str], cx: &Ctx) -> Option<CaseOut> {
    let [_, org, au, pol, sgs, now, buf, _, jr] = t else { return None };
    if parse_name(org)? != origin() {
        return None;
    }
    let au = *au == "1";
    let policy = policy_of(pol)?;
    let specs: Vec<SignerSpec> = if *sgs == "-" { vec![] } else { sgs.split(',').map(SignerSpec::parse).collect::<Option<_>>()? };
    let now: u64 = now.parse().ok()?;
    let buf = unhex(buf)?;
    let store = *jr;
    if !["0", "1", "m", "f", "c", "r", "s", "e"].contains(&store) {
        return None;
    }
    let jr = store == "1";
    let ok = rdok(&buf);
    // a key that comes from the configuration gets its name through `Name::from_str` (which
    // lower-cases; an unparsable name falls back to the zone name): the model is told the name the
    // server really holds
    let specs: Vec<SignerSpec> = if store == "c" || store == "r" {
        specs
            .into_iter()
            .map(|mut s| {
                s.name = <Name as std::str::FromStr>::from_str(&s.name.to_ascii()).unwrap_or_else(|_| origin());
                s
            })
            .collect()
    } else {
        specs
    };
    let sg_toks: Vec<String> = specs.iter().map(|s| s.tok(macok_for(s, &buf, None, true))).collect();
    let line = format!(
        "srv {} {} {} {} {} {} {} {}",
        org,
        b(au),
        pol,
        if sg_toks.is_empty() { "-".into() } else { sg_toks.join(",") },
        now,
        hex(&buf),
        b(ok),
        store
    );
    let mut fails: Vec<(String, &'static str)> = vec![];
    let mut stats = vec![format!("srv.store.{store}")];
    let src: SocketAddr = "127.0.0.1:5300".parse().unwrap();

    // the property's own reading of the request
    let (verdict, rtsig) = ref_verify(&buf, &specs, now, None);
    stats.push(format!("srv.ref.{}", match verdict {
        RefVerdict::Unsigned => "unsigned",
        RefVerdict::UnknownKey => "unknown-key",
        RefVerdict::WrongAlg => "wrong-alg",
        RefVerdict::BadMac => "bad-mac",
        RefVerdict::Stale => "stale",
        RefVerdict::Valid { .. } => "valid",
    }));

    let request = match catch(|| Request::from_bytes(buf.clone(), src, Protocol::Tcp)) {
        Ok(Ok(r)) => r,
        Ok(Err(_)) => {
            stats.push("srv.noparse".into());
            return Some(CaseOut { line, out: "noparse".into(), fails, nontrivial: false, stats });
        }
        Err(p) => {
            let out = panic_out(&p, "Request::from_bytes", &mut fails);
            return Some(CaseOut { line, out, fails, nontrivial: false, stats });
        }
    };

    // dispatch as the catalog will do it, read off the really parsed request
    let qtype = request.queries.query_type();
    let in_zone = LowerName::new(&origin()).zone_of(request.queries.name());
    let kind = if request.edns.as_ref().is_some_and(|e| e.version() > 0) || request.metadata.message_type == MessageType::Response {
        "other"
    } else {
        match request.metadata.op_code {
            OpCode::Update if qtype == RecordType::SOA && in_zone => "upd",
            OpCode::Query if qtype == RecordType::AXFR && in_zone => "axfr",
            _ => "other",
        }
    };
    stats.push(format!("srv.kind.{kind}"));

    let signers: Vec<TSigner> = specs.iter().filter_map(|s| s.signer()).collect();
    // the store: sqlite (policy and TSIG in the SqliteZoneHandler), or in-memory / file (policy in
    // the InMemoryZoneHandler, no TSIG processing, no updates)
    let mut catalog = Catalog::new();
    let sqlite = match store {
        "0" | "1" => Some(build_zone(policy, au, signers, if jr { Some(&cx.journal_path) } else { None }, &cx.rt)),
        "c" | "r" => Some(build_from_config(policy, au, &specs, &cx.journal_path.with_file_name("c13-config"), store == "r", &cx.rt)?),
        "s" | "e" => {
            let mut h = SqliteZoneHandler::new(base_zone_of(AxfrPolicy::AllowAll, if store == "s" { ZoneType::Secondary } else { ZoneType::External }), policy, au, false);
            h.set_tsig_signers(signers);
            Some(Arc::new(h))
        }
        _ => None,
    };
    let mem: Option<Arc<InMemoryZoneHandler<TokioRuntimeProvider>>> = if store == "m" { Some(Arc::new(base_zone(policy))) } else { None };
    let file: Option<Arc<FileZoneHandler>> = if store == "f" { Some(Arc::new(cx.rt.block_on(FileZoneHandler::new(base_zone(policy))))) } else { None };
    let as_handler: Arc<dyn ZoneHandler> = match (&sqlite, &mem, &file) {
        (Some(h), _, _) => h.clone(),
        (_, Some(h), _) => h.clone(),
        (_, _, Some(h)) => h.clone(),
        _ => return None,
    };
    catalog.upsert(LowerName::new(&origin()), vec![as_handler]);
    let dump = |rt: &tokio::runtime::Runtime| match (&sqlite, &mem, &file) {
        (Some(h), _, _) => zone_dump(h, rt),
        (_, Some(h), _) => zone_dump(h, rt),
        (_, _, Some(h)) => zone_dump(h, rt),
        _ => (String::new(), 0),
    };
    let rows = |rt: &tokio::runtime::Runtime| sqlite.as_ref().map(|h| journal_rows(h, rt)).unwrap_or(0);
    let before = dump(&cx.rt);
    let rows_before = rows(&cx.rt);

    NOW.store(now, Ordering::SeqCst);
    let (stream, mut receiver) = BufDnsStreamHandle::new(src);
    let handle = ResponseHandle::new(src, stream, Protocol::Tcp);
    let run = catch(|| cx.rt.block_on(catalog.handle_request::<_, VTime>(&request, handle)));
    let after = dump(&cx.rt);
    let rows_after = rows(&cx.rt);
    let changed = before != after || rows_before != rows_after;

    let req_sig = request.signature.as_ref().map(|s| (s.name.clone(), s.data.clone()));
    let mut nontrivial = false;
    let out = match run {
        Err(p) => {
            if changed {
                fails.push(("zone changed although the handler panicked".into(), ""));
            }
            stats.push("srv.panic".into());
            panic_out(&p, "Catalog::handle_request", &mut fails)
        }
        Ok(()) => {
            let reply = receiver.next().now_or_never().flatten().map(|m| m.into_parts().0);
            let Some(reply) = reply else {
                fails.push(("no reply was sent".into(), ""));
                return Some(CaseOut { line, out: "noreply".into(), fails, nontrivial, stats });
            };
            let Ok(rm) = Message::from_vec(&reply) else {
                fails.push(("reply does not decode".into(), ""));
                return Some(CaseOut { line, out: "badreply".into(), fails, nontrivial, stats });
            };
            let rc = u16::from(rm.metadata.response_code);
            let data = !rm.answers.is_empty();
            let effect = if kind == "upd" { changed } else { data };
            let rtsig_tok = match rm.signature() {
                None => "none".to_string(),
                Some(s) => format!(
                    "{}/{}/{}/{}/{}/{}/{}",
                    name_tok(&s.name),
                    alg_bits(&s.data.algorithm),
                    s.data.fudge,
                    s.data.error.map(u16::from).unwrap_or(0),
                    s.data.mac.len(),
                    s.data.oid,
                    s.data.time
                ),
            };
            stats.push(format!("srv.{kind}.rc{rc}.eff{}", b(effect)));

            // ---- the property's table -------------------------------------------------
            let valid = matches!(verdict, RefVerdict::Valid { .. });
            let class = deviation_class(&buf, rtsig.as_ref());
            if changed && kind != "upd" {
                fails.push((format!("zone changed by a request that is not an UPDATE for the zone ({kind})"), ""));
            }
            // an accepted signed request is answered with a MAC'ed reply (which the client can verify)
            if kind == "upd" && changed && rm.signature().is_none() {
                fails.push((
                    format!("the update was applied but answered without TSIG (rcode {rc}): the client cannot tell it took effect"),
                    if now < (1u64 << 48) { "" } else { "C13.ClockBeyond48Bits" },
                ));
            }
            if kind == "upd" && changed && (store == "s" || store == "e") {
                fails.push(("zone changed by an update sent to a zone that is not Primary".into(), ""));
            }
            if kind == "upd" && changed && !(au && valid) {
                fails.push((format!("zone changed by an update that is not (allowed ∧ signed ∧ valid ∧ timely): allow_update={au} reference={verdict:?}"), class));
            }
            // zone-transfer content, whatever the query type that produced it: the answer section
            // enumerates the zone (records of three or more owner names; no ordinary answer of
            // this zone has more than one)
            let owners: std::collections::BTreeSet<String> = rm.answers.iter().map(|r| r.name.to_ascii().to_lowercase()).collect();
            let sqlite_store = !(store == "m" || store == "f");
            // a clock of 2^48 s or more cannot be written into a TSIG: every reply that would carry one
            // becomes SERVFAIL (observation, design/C13.md); no liveness demand there
            let clock_fits = now < (1u64 << 48);
            let primary = !(store == "s" || store == "e");
            if owners.len() >= 3 {
                stats.push(format!("srv.transfer-content.qtype{}", u16::from(qtype)));
                let admitted = match policy {
                    AxfrPolicy::Deny => false,
                    AxfrPolicy::AllowAll => true,
                    AxfrPolicy::AllowSigned => sqlite_store && valid,
                };
                if !admitted {
                    fails.push((
                        format!("zone-transfer content ({} records of {} owner names) returned for a {qtype} query that the policy {pol} does not admit (store {store}, reference={verdict:?})", rm.answers.len(), owners.len()),
                        class,
                    ));
                }
            }
            if kind == "axfr" && data && sqlite_store {
                let allowed = match policy {
                    AxfrPolicy::Deny => false,
                    AxfrPolicy::AllowAll => true,
                    AxfrPolicy::AllowSigned => valid,
                };
                if !allowed {
                    fails.push((format!("zone data returned for a transfer that the policy {pol} does not admit: reference={verdict:?}"), class));
                }
            }
            // a canonical, valid, strictly timely request under an admitting policy takes effect
            let canonical = rtsig.as_ref().is_some_and(|t| t.alg_plain && t.class == 255 && t.ttl == 0 && t.error == 0 && t.other.is_empty())
                && buf.len() > 3
                && buf[3] & 0x40 == 0;
            if matches!(verdict, RefVerdict::Valid { strict: true }) && canonical && !effect && sqlite_store && clock_fits {
                let expected = (kind == "upd" && au && primary) || (kind == "axfr" && policy != AxfrPolicy::Deny);
                if expected {
                    fails.push(("a correctly signed, timely request was refused".into(), ""));
                }
            }
            // the reply to an accepted signed request verifies on the client side …
            if let (Some((kname, rq)), Some(rs)) = (&req_sig, rm.signature()) {
                if !rs.data.mac.is_empty() {
                    nontrivial = true;
                    if let Some(spec) = specs.iter().find(|s| lower_labels(&s.name) == lower_labels(kname)) {
                        // (MAC chained on the request MAC over the exact reply bytes; whether the
                        // client's clock is within the *reply's* fudge is the client's business:
                        // `Stale` is not held against the server)
                        let (v, _) = ref_verify(&reply, std::slice::from_ref(spec), rq.time, Some(&rq.mac));
                        if !matches!(v, RefVerdict::Valid { .. } | RefVerdict::Stale) {
                            fails.push((format!("signed reply does not verify under the RFC 8945 reference ({v:?})"), ""));
                        }
                        match catch(|| spec.signer().unwrap().verify_message_byte(&reply, Some(&rq.mac), true).is_ok()) {
                            Ok(true) => {}
                            Ok(false) => fails.push(("signed reply is rejected by TSigner::verify_message_byte".into(), "")),
                            Err(p) => {
                                let (class, _) = panic_class(&p);
                                fails.push((format!("TSigner::verify_message_byte panicked on the server's signed reply: {p}"), class));
                            }
                        }
                    }
                }
            }
            if !effect && data {
                fails.push(("zone data in a refused reply".into(), ""));
            }
            if kind == "other" { "other".to_string() } else { format!("{kind} eff={} rc={rc} rtsig={rtsig_tok}", b(effect)) }
        }
    };
    Some(CaseOut { line, out, fails, nontrivial, stats })
}

/// `ssm <buf>` — `TSigner::should_sign_message` on the message the bytes decode to (header and
/// questions only on the model side, so records are cut off first)
fn exec_ssm(t: &[&str]) -> Option<CaseOut> {
    let [_, buf] = t else { return None };
    let buf = unhex(buf)?;
    let line = format!("ssm {}", hex(&buf));
    let out = match catch(|| {
        let mut d = BinDecoder::new(&buf);
        let h = hickory_proto::op::Header::read(&mut d).ok()?;
        let qs = Message::read_queries(&mut d, h.counts.queries as usize).ok()?;
        let mut m = Message::new(h.metadata.id, h.metadata.message_type, h.metadata.op_code);
        m.add_queries(qs);
        Some(sa().signer().unwrap().should_sign_message(&m))
    }) {
        Ok(Some(v)) => b(v).to_string(),
        Ok(None) => "err".into(),
        Err(p) => format!("panic {p}"),
    };
    let nontrivial = out == "1";
    Some(CaseOut { line, out, fails: vec![], nontrivial, stats: vec!["ssm".into()] })
}

// ---- the real DnsMultiplexer on a scripted stream ------------------------------------------

/// clock of the multiplexer's stream: `current_time()` = the shared virtual `NOW`, timeouts never fire
#[derive(Clone, Copy)]
struct MuxTime;

#[async_trait::async_trait]
impl Time for MuxTime {
    async fn delay_for(_duration: Duration) {
        std::future::pending::<()>().await
    }
    async fn timeout<F: 'static + Future + Send>(_duration: Duration, future: F) -> Result<F::Output, io::Error> {
        Ok(future.await)
    }
    fn current_time() -> u64 {
        NOW.load(Ordering::SeqCst)
    }
}

struct Scripted {
    inbox: Arc<std::sync::Mutex<std::collections::VecDeque<Vec<u8>>>>,
    addr: SocketAddr,
}

impl futures_util::Stream for Scripted {
    type Item = Result<SerialMessage, NetError>;
    fn poll_next(self: std::pin::Pin<&mut Self>, _cx: &mut std::task::Context<'_>) -> std::task::Poll<Option<Self::Item>> {
        match self.inbox.lock().unwrap().pop_front() {
            Some(b) => std::task::Poll::Ready(Some(Ok(SerialMessage::new(b, self.addr)))),
            None => std::task::Poll::Pending,
        }
    }
}

impl DnsClientStream for Scripted {
    type Time = MuxTime;
    fn name_server_addr(&self) -> SocketAddr {
        self.addr
    }
}

/// `begin mseq <signer> <request_time> <kinds>` (generator form) or the recorded form
/// `begin mseq <signer> <reqmac> <request_time> <reqid> <kinds>`: ONE signed AXFR request sent through
/// the real `DnsMultiplexer`, then a history of received messages for its id, each built against the
/// chain state the code's contract defines (MAC and time of the last *authenticated* message):
///   v valid next message of the chain      u unsigned            m valid but one MAC bit flipped
///   k MAC made with another key            s signed, stale time   r replay of the last accepted message
///   t valid but MAC truncated to half      (an unsigned message if nothing was accepted yet: r)
/// After every message the multiplexer is polled and the caller's response stream is read.
/// Contract (unchanged code): a message comes out `Ok` only if it verifies against that chain state;
/// a failure is delivered as `Err`, leaves the verifier in place and never turns later messages into
/// accepted ones.
fn exec_mseq(t: &[&str]) -> Option<Vec<CaseOut>> {
    let (sg, qt, kinds) = match t {
        [_, _, sg, qt, kinds] => (*sg, *qt, *kinds),
        [_, _, sg, _, qt, _, kinds] => (*sg, *qt, *kinds),
        _ => return None,
    };
    let sg = SignerSpec::parse(sg)?;
    let signer = sg.signer()?;
    let qt: u64 = qt.parse().ok()?;
    // `A:` prefix: the request is an ordinary A query — `should_sign_message` is false, the
    // multiplexer sends it unsigned and keeps no verifier although a signer is configured
    let plain = kinds.starts_with("A:");
    let kinds_tok = kinds.to_string();
    let kinds: Vec<&str> = kinds.trim_start_matches("A:").split(',').collect();
    let addr: SocketAddr = "192.0.2.53:53".parse().unwrap();
    let inbox = Arc::new(std::sync::Mutex::new(std::collections::VecDeque::new()));
    let (handle, mut out_rx): (BufDnsStreamHandle, StreamReceiver) = BufDnsStreamHandle::new(addr);
    let mut mux = DnsMultiplexer::new(Scripted { inbox: inbox.clone(), addr }, handle).with_signer(signer);
    NOW.store(qt, Ordering::SeqCst);
    let request = if plain {
        let mut m = Message::new(0, MessageType::Query, OpCode::Query);
        m.add_query(Query::new(Name::from_ascii("www.example.com.").unwrap(), RecordType::A));
        m
    } else {
        axfr_msg(0)
    };
    let mut resp: DnsResponseStream = mux.send_message(DnsRequest::new(request, DnsRequestOptions::default()));
    let sent = out_rx.next().now_or_never().flatten()?.into_parts().0;
    let id = r16(&sent, 0)? as u16;
    let reqmac = match ref_tsig(&sent) {
        Some(rq) => rq.mac.clone(),
        None if plain => vec![],
        None => return None,
    };
    let mut outs = vec![CaseOut {
        line: format!("begin mseq {} {} {} {} {}", sg.tok(false), hex(&reqmac), qt, id, kinds_tok),
        out: "ok".into(),
        fails: vec![],
        nontrivial: false,
        stats: vec![format!("mseq.len.{}", kinds.len())],
    }];
    let waker = futures_util::task::noop_waker();
    let mut pcx = std::task::Context::from_waker(&waker);
    // contract state
    let (mut prev, mut rt, mut last_ok): (Vec<u8>, u64, Option<Vec<u8>>) = (reqmac.clone(), 0, None);
    let mut failed_before = false;
    for (pos, kind) in kinds.iter().enumerate() {
        let first = rt == 0;
        let base = chain_msg(id, pos as u32, 1 + (pos as u32 % 2));
        let unsigned = || chain_msg(id, 100 + pos as u32, 2).to_vec().unwrap();
        let buf: Vec<u8> = match *kind {
            "v" => sign_chained(&base, &sg, &sg.keyid, &prev, qt, first)?.0,
            "u" => unsigned(),
            "m" => {
                let mut b_ = sign_chained(&base, &sg, &sg.keyid, &prev, qt, first)?.0;
                let r = ref_tsig(&b_)?;
                let i = r.end - 6 - r.other.len() - 1;
                b_[i] ^= 0x10;
                b_
            }
            "k" => sign_chained(&base, &sg, "kx", &prev, qt, first)?.0,
            "s" => sign_chained(&base, &sg, &sg.keyid, &prev, qt + sg.fudge as u64 + 50, first)?.0,
            "r" => last_ok.clone().unwrap_or_else(unsigned),
            // valid next message of the chain, but for another request id
            "i" => sign_chained(&chain_msg(id.wrapping_add(1), pos as u32, 1), &sg, &sg.keyid, &prev, qt, first)?.0,
            // does not decode at all / decodes as a query, not a response
            "g" => vec![0xde, 0xad, 0xbe, 0xef, 0x01],
            "q" => {
                let mut m = Message::new(id, MessageType::Query, OpCode::Query);
                m.add_query(Query::new(origin(), RecordType::AXFR));
                m.to_vec().ok()?
            }
            "t" => {
                let good = sign_chained(&base, &sg, &sg.keyid, &prev, qt, first)?.0;
                let mut gm = Message::from_vec(&good).ok()?;
                let sig = gm.take_signature()?;
                let mut mac = sig.data.mac.clone();
                mac.truncate(mac.len() / 2);
                let name = sig.name.clone();
                gm.set_signature(Box::new(make_tsig_record(name, sig.data.clone().set_mac(mac))));
                gm.to_vec().ok()?
            }
            _ => return None,
        };
        let ok = rdok(&buf);
        let pok = catch(|| DnsResponse::from_buffer(buf.clone()).is_ok()).unwrap_or(false);
        let mok = macok_for(&sg, &buf, Some(&prev), first);
        let (v, _) = ref_verify_ex(&buf, std::slice::from_ref(&sg), qt, Some(&prev), first);
        let r = if plain { None } else { ref_tsig(&buf) };
        let id_ok = r16(&buf, 0) == Some(id as usize);
        let authentic = if plain { pok && id_ok } else { pok && id_ok && matches!(v, RefVerdict::Valid { .. }) && r.as_ref().is_some_and(|r| r.time >= rt) };
        // feed it, run the multiplexer, read the caller's stream
        inbox.lock().unwrap().push_back(buf.clone());
        let mut fails: Vec<(String, &'static str)> = vec![];
        let polled = catch(|| {
            let _ = mux.poll_next_unpin(&mut pcx);
            let mut got = vec![];
            while let std::task::Poll::Ready(Some(x)) = resp.poll_next_unpin(&mut pcx) {
                got.push(x.is_ok());
                if got.len() > 4 {
                    break;
                }
            }
            got
        });
        let mut stats = vec![format!("mmsg.kind.{kind}"), format!("mmsg.after-failure.{}", b(failed_before))];
        let out = match polled {
            Err(p) => panic_out(&p, "DnsMultiplexer::poll_next", &mut fails),
            Ok(got) => {
                if got.len() > 1 {
                    fails.push((format!("{} items were delivered for one received message", got.len()), ""));
                }
                match got.first() {
                    None => "drop".to_string(),
                    Some(true) => {
                        stats.push(format!("mmsg.delivered-ok.after-failure.{}", b(failed_before)));
                        if !authentic {
                            fails.push((
                                format!("message {pos} (kind {kind}) of a history on a signed request was delivered as Ok although it does not verify against the chain ({v:?}; after an earlier failure: {failed_before})"),
                                "",
                            ));
                        }
                        match &r {
                            Some(r) => format!("ok {} {}", hex(&r.mac), r.time),
                            None => "ok ? ?".into(),
                        }
                    }
                    Some(false) => {
                        if authentic && matches!(v, RefVerdict::Valid { strict: true }) {
                            fails.push((format!("the genuine next message of the chain (position {pos}) was delivered as an error"), ""));
                        }
                        "err".into()
                    }
                }
            }
        };
        if authentic {
            if let Some(r) = &r {
                prev = r.mac.clone();
                rt = r.time;
                last_ok = Some(buf.clone());
            }
        } else if !plain {
            failed_before = true;
        }
        let nontrivial = out.starts_with("ok") && failed_before;
        outs.push(CaseOut { line: format!("mmsg {kind} {} {} {} {}", hex(&buf), b(ok), b(pok), b(mok)), out, fails, nontrivial, stats });
    }
    outs.push(CaseOut { line: "end".into(), out: "ok".into(), fails: vec![], nontrivial: false, stats: vec![] });
    Some(outs)
}

// ---- the real UdpClientStream with a signer, on a scripted socket -----------------------------

struct USock(Arc<std::sync::Mutex<std::collections::VecDeque<Vec<u8>>>>, SocketAddr);

impl DnsUdpSocket for USock {
    type Time = MuxTime;
    fn poll_recv_from(&self, _cx: &mut std::task::Context<'_>, buf: &mut [u8]) -> std::task::Poll<io::Result<(usize, SocketAddr)>> {
        match self.0.lock().unwrap().pop_front() {
            Some(b_) => {
                let n = b_.len().min(buf.len());
                buf[..n].copy_from_slice(&b_[..n]);
                std::task::Poll::Ready(Ok((n, self.1)))
            }
            None => std::task::Poll::Ready(Err(io::Error::new(io::ErrorKind::ConnectionRefused, "end of script"))),
        }
    }
    fn poll_send_to(&self, _cx: &mut std::task::Context<'_>, buf: &[u8], _target: SocketAddr) -> std::task::Poll<io::Result<usize>> {
        std::task::Poll::Ready(Ok(buf.len()))
    }
}

#[derive(Clone, Default)]
struct NoSpawn;
impl Spawn for NoSpawn {
    fn spawn_bg(&mut self, _future: impl Future<Output = ()> + Send + 'static) {}
}

#[derive(Clone)]
struct UProv(Arc<std::sync::Mutex<std::collections::VecDeque<Vec<u8>>>>, SocketAddr);

impl RuntimeProvider for UProv {
    type Handle = NoSpawn;
    type Timer = MuxTime;
    type Udp = USock;
    type Tcp = AsyncIoTokioAsStd<tokio::net::TcpStream>;
    fn create_handle(&self) -> Self::Handle {
        NoSpawn
    }
    fn connect_tcp(&self, _server_addr: SocketAddr, _bind_addr: Option<SocketAddr>, _timeout: Option<Duration>) -> std::pin::Pin<Box<dyn Send + Future<Output = Result<Self::Tcp, io::Error>>>> {
        Box::pin(async { Err(io::Error::new(io::ErrorKind::Unsupported, "no tcp in this script")) })
    }
    fn bind_udp(&self, _local_addr: SocketAddr, _server_addr: SocketAddr) -> std::pin::Pin<Box<dyn Send + Future<Output = Result<Self::Udp, io::Error>>>> {
        let s = USock(self.0.clone(), self.1);
        Box::pin(async move { Ok(s) })
    }
}

/// `udp <signer> <reqmac> <request_time> <reqid> (<buf> <rdok> <parseok> <qok>)*` — one signed AXFR
/// request (id `<reqid>`, signed at `<request_time>` by the stream itself: `finalize` is
/// deterministic, so the replies can be prepared against its MAC) sent through the real
/// `UdpClientStream::send_message` with `with_signer`; the scripted socket delivers the datagrams
/// from the name server's address, then an I/O error.  Contract: `Ok` only for a datagram that the
/// request's verifier authenticated, whatever its header bits say.
fn exec_udp(t: &[&str]) -> Option<CaseOut> {
    if t.len() < 5 || (t.len() - 5) % 4 != 0 {
        return None;
    }
    let sg = SignerSpec::parse(t[1])?;
    let signer = sg.signer()?;
    let qt: u64 = t[3].parse().ok()?;
    let id: u16 = t[4].parse().ok()?;
    let dgrams: Vec<Vec<u8>> = t[5..].chunks(4).map(|c| unhex(c[0])).collect::<Option<_>>()?;
    // what the stream will send: a signed AXFR, or (`-` as request MAC) an ordinary A query, which
    // `should_sign_message` leaves unsigned and unverified although a signer is configured
    let plain = t[2] == "-";
    let req = if plain {
        let mut m = Message::new(id, MessageType::Query, OpCode::Query);
        m.add_query(Query::new(Name::from_ascii("www.example.com.").unwrap(), RecordType::A));
        m
    } else {
        axfr_msg(id)
    };
    let reqmac = if plain {
        vec![]
    } else {
        let mut rq = req.clone();
        rq.finalize(&signer, qt).ok()?;
        rq.signature()?.data.mac.clone()
    };
    // per datagram: the parse summary and which one reaches the verifier
    let mut toks = vec![];
    let mut reaches: Option<usize> = None;
    for (i, d) in dgrams.iter().enumerate() {
        let ok = rdok(d);
        let parsed = catch(|| DnsResponse::from_buffer(d.clone()).ok()).unwrap_or(None);
        let pok = parsed.is_some();
        let qok = parsed.as_ref().is_some_and(|p| p.queries.iter().all(|q| req.queries.contains(q)));
        if reaches.is_none() && i < 3 && pok && qok && r16(d, 0) == Some(id as usize) && dgrams[..i].iter().all(|e| catch(|| DnsResponse::from_buffer(e.clone()).is_ok()).unwrap_or(false)) {
            reaches = Some(i);
        }
        toks.push(format!("{} {} {} {}", hex(d), b(ok), b(pok), b(qok)));
    }
    let mok = !plain && reaches.is_some_and(|i| macok_for(&sg, &dgrams[i], Some(&reqmac), true));
    let line = format!("udp {} {} {} {} {}", sg.tok(mok), hex(&reqmac), qt, id, toks.join(" ")).trim_end().to_string();
    // run
    let addr: SocketAddr = "192.0.2.53:53".parse().unwrap();
    let inbox = Arc::new(std::sync::Mutex::new(dgrams.iter().cloned().collect::<std::collections::VecDeque<_>>()));
    NOW.store(qt, Ordering::SeqCst);
    let mut fails: Vec<(String, &'static str)> = vec![];
    let mut stats = vec![format!("udp.dgrams.{}", dgrams.len())];
    let run = catch(|| {
        let mut stream = UdpClientStream::builder(addr, UProv(inbox.clone(), addr)).with_signer(Some(signer.clone())).with_timeout(None).build();
        let mut rs = stream.send_message(DnsRequest::new(req.clone(), DnsRequestOptions::default()));
        let waker = futures_util::task::noop_waker();
        let mut pcx = std::task::Context::from_waker(&waker);
        match rs.poll_next_unpin(&mut pcx) {
            std::task::Poll::Ready(Some(r)) => Some(r.map(|d| d.as_buffer().to_vec()).map_err(|_| ())),
            _ => None,
        }
    });
    let mut nontrivial = false;
    let out = match run {
        Err(p) => panic_out(&p, "UdpClientStream::send_message", &mut fails),
        Ok(None) => {
            fails.push(("the UDP request neither completed nor failed".into(), ""));
            "hang".into()
        }
        Ok(Some(Ok(_))) if plain => {
            stats.push("udp.plain.ok".into());
            "ok ? ?".into()
        }
        Ok(Some(Ok(bytes))) => {
            stats.push("udp.ok".into());
            nontrivial = true;
            let (v, _) = ref_verify_ex(&bytes, std::slice::from_ref(&sg), qt, Some(&reqmac), true);
            if !matches!(v, RefVerdict::Valid { .. }) {
                let tc = bytes.len() > 2 && bytes[2] & 0x02 != 0;
                fails.push((format!("a reply was handed to the caller of a signed UDP request as Ok although it does not verify ({v:?}; TC={tc})"), ""));
            }
            match ref_tsig(&bytes) {
                Some(r) => format!("ok {} {}", hex(&r.mac), r.time),
                None => "ok ? ?".into(),
            }
        }
        Ok(Some(Err(()))) => {
            stats.push("udp.err".into());
            if let (Some(i), false) = (reaches, plain) {
                let (v, rt_) = ref_verify_ex(&dgrams[i], std::slice::from_ref(&sg), qt, Some(&reqmac), true);
                let canonical = rt_.as_ref().is_some_and(|t| t.alg_plain && t.class == 255 && t.ttl == 0 && t.other.is_empty());
                if canonical && matches!(v, RefVerdict::Valid { strict: true }) {
                    fails.push(("a genuine signed reply was rejected by the UDP client".into(), ""));
                }
            }
            "err".into()
        }
    };
    Some(CaseOut { line, out, fails, nontrivial, stats })
}

/// `api <what>` — implementation-vs-oracle only (`~`): limits and refusals of the typed API that no
/// wire input reaches.
fn exec_api(t: &[&str]) -> Option<CaseOut> {
    let [_, what] = t else { return None };
    let mut fails: Vec<(String, &'static str)> = vec![];
    let all = [
        TsigAlgorithm::HmacMd5, TsigAlgorithm::Gss, TsigAlgorithm::HmacSha1, TsigAlgorithm::HmacSha224, TsigAlgorithm::HmacSha256,
        TsigAlgorithm::HmacSha256_128, TsigAlgorithm::HmacSha384, TsigAlgorithm::HmacSha384_192, TsigAlgorithm::HmacSha512,
        TsigAlgorithm::HmacSha512_256, TsigAlgorithm::Unknown(Name::from_ascii("hmac-sha3-256").unwrap()),
    ];
    let r = catch(|| match *what {
        // a key can only be configured with an algorithm whose MAC can be computed
        "signer-new" => {
            for al in &all {
                let made = TSigner::new(b"key".to_vec(), al.clone(), Name::from_ascii("k.").unwrap(), 300).is_ok();
                let full = matches!(al, TsigAlgorithm::HmacSha256 | TsigAlgorithm::HmacSha384 | TsigAlgorithm::HmacSha512);
                if made != full {
                    fails.push((format!("TSigner::new({al}) = {made}, but the algorithm's full-length MAC is {}", if full { "supported" } else { "not supported" }), ""));
                }
                if al.supported() != full {
                    fails.push((format!("TsigAlgorithm::supported({al}) != {full}"), ""));
                }
            }
            true
        }
        "mac-unsupported" => {
            for al in &all {
                let full = matches!(al, TsigAlgorithm::HmacSha256 | TsigAlgorithm::HmacSha384 | TsigAlgorithm::HmacSha512);
                let tag = al.mac_data(b"key", b"data");
                if tag.is_ok() != full {
                    fails.push((format!("mac_data({al}).is_ok() != {full}"), ""));
                }
                let v = al.verify_mac(b"key", b"data", tag.as_deref().unwrap_or(&[0u8; 32]));
                if v.is_ok() != full {
                    fails.push((format!("verify_mac({al}) of its own tag: {}", v.is_ok()), ""));
                }
                if full && al.verify_mac(b"key", b"data", &tag.as_ref().unwrap()[..16]).is_ok() {
                    fails.push((format!("verify_mac({al}) accepted a truncated tag"), ""));
                }
            }
            true
        }
        // what does not fit the wire format is an encoding error, never a panic or a truncated field
        "emit-limits" => {
            let m0 = update_msg(7, 1, false, false);
            for (tag, tsig) in [
                ("time 2^48", TSIG::new(TsigAlgorithm::HmacSha256, 1 << 48, 300, vec![1; 32], 7, None, vec![])),
                ("mac 70000", TSIG::new(TsigAlgorithm::HmacSha256, T0, 300, vec![1; 70000], 7, None, vec![])),
                ("other 70000", TSIG::new(TsigAlgorithm::HmacSha256, T0, 300, vec![1; 32], 7, None, vec![2; 70000])),
            ] {
                let mut m = m0.clone();
                m.set_signature(Box::new(make_tsig_record(Name::from_ascii("k.").unwrap(), tsig)));
                if m.to_vec().is_ok() {
                    fails.push((format!("a TSIG with {tag} was encoded"), ""));
                }
            }
            // Display and accessors: no panic
            let t_ = TSIG::new(TsigAlgorithm::HmacSha256, T0, 300, vec![1; 32], 7, Some(TsigError::BadTime), vec![0; 6]);
            let _ = format!("{t_} {}", TsigAlgorithm::Gss);
            let s_ = sa().signer().unwrap();
            s_.key().len() == 32
        }
        _ => false,
    });
    match r {
        Ok(true) => {}
        Ok(false) => return None,
        Err(p) => fails.push((format!("panic: {p}"), "")),
    }
    Some(CaseOut { line: format!("api {what}"), out: "~".into(), fails, nontrivial: false, stats: vec![format!("api.{what}")] })
}

/// Appends a TSIG RR built octet by octet (no hickory encoder) to a message that has none and MACs it
/// with the key over the TBS the real `signed_bitmessage_to_buf` derives (stub MAC if it refuses).
fn raw_sign(unsigned: &[u8], s: &SignerSpec, time: u64) -> Vec<u8> {
    let mk = |mac: &[u8]| {
        let mut b_ = unsigned.to_vec();
        let ar = r16(&b_, 10).unwrap() as u16;
        patch16(&mut b_, 10, ar + 1);
        let alg = lower_wire(&alg_labels(s.bits));
        b_.extend(lower_wire(&lower_labels(&s.name)));
        b_.extend([0, 250, 0, 255, 0, 0, 0, 0]);
        b_.extend(((alg.len() + 16 + mac.len()) as u16).to_be_bytes());
        b_.extend(alg);
        b_.extend(&time.to_be_bytes()[2..8]);
        b_.extend(s.fudge.to_be_bytes());
        b_.extend((mac.len() as u16).to_be_bytes());
        b_.extend(mac);
        b_.extend(&unsigned[0..2]);
        b_.extend([0, 0, 0, 0]);
        b_
    };
    let stub = mk(&vec![0u8; (s.bits / 8) as usize]);
    match real_tbs(&stub, None, true) {
        Ok(Ok((tbs, _))) => mk(&alg_of(s.bits).unwrap().mac_data(&key_bytes(&s.keyid), &tbs).unwrap()),
        _ => stub,
    }
}

/// `bigxfr <extra records> <udp|tcp> <edns payload|0>` — implementation-vs-oracle only (`~`): a signed
/// AXFR of a zone with many records; if the reply carries a MAC it must verify with the verifier
/// the client kept, whatever the size limit did to the message.
fn exec_bigxfr(t: &[&str], cx: &Ctx) -> Option<CaseOut> {
    let [_, extra, proto, payload] = t else { return None };
    let extra: u32 = extra.parse().ok()?;
    let payload: u16 = payload.parse().ok()?;
    let protocol = match *proto {
        "udp" => Protocol::Udp,
        "tcp" => Protocol::Tcp,
        _ => return None,
    };
    let line = format!("bigxfr {extra} {proto} {payload}");
    let mut fails: Vec<(String, &'static str)> = vec![];
    let signer = sa();
    let s = signer.signer()?;
    let handler = build_zone(AxfrPolicy::AllowSigned, false, vec![s.clone()], None, &cx.rt);
    for i in 0..extra {
        let name = Name::from_ascii(format!("host-{i:05}.example.com.")).unwrap();
        cx.rt.block_on(handler.upsert(Record::from_rdata(name, 300, RData::TXT(TXT::new(vec![format!("record number {i} of a zone that does not fit a small message")]))), 0));
    }
    let mut catalog = Catalog::new();
    catalog.upsert(LowerName::new(&origin()), vec![handler.clone() as Arc<dyn ZoneHandler>]);
    let mut m = axfr_msg(4242);
    if payload > 0 {
        let mut e = Edns::new();
        e.set_max_payload(payload);
        m.set_edns(e);
    }
    let mut verifier = m.finalize(&s, T0).ok()??;
    let src: SocketAddr = "127.0.0.1:5300".parse().unwrap();
    let request = Request::from_bytes(m.to_vec().ok()?, src, protocol).ok()?;
    NOW.store(T0, Ordering::SeqCst);
    let (stream, mut receiver) = BufDnsStreamHandle::new(src);
    let handle = ResponseHandle::new(src, stream, protocol);
    let mut stats = vec![format!("bigxfr.{proto}")];
    match catch(|| cx.rt.block_on(catalog.handle_request::<_, VTime>(&request, handle))) {
        Err(p) => {
            panic_out(&p, "Catalog::handle_request", &mut fails);
        }
        Ok(()) => match receiver.next().now_or_never().flatten().map(|m| m.into_parts().0) {
            None => {
                stats.push("bigxfr.noreply".into());
                fails.push(("no reply to a correctly signed AXFR".into(), "C13.ReplyTruncatedAfterSigning"));
            }
            Some(reply) => {
                let rm = Message::from_vec(&reply).ok();
                let signed = rm.as_ref().and_then(|m| m.signature()).is_some_and(|s| !s.data.mac.is_empty());
                let tc = rm.as_ref().is_some_and(|m| m.metadata.truncation);
                let n = rm.as_ref().map(|m| m.answers.len()).unwrap_or(0);
                stats.push(format!("bigxfr.reply.signed{}.tc{}", b(signed), b(tc)));
                stats.push(format!("bigxfr.{extra}.{proto}.{payload}.len{}.answers{n}.signed{}.tc{}", reply.len(), b(signed), b(tc)));
                if signed {
                    match catch(|| verifier.verify(&reply).is_ok()) {
                        Ok(true) => {}
                        Ok(false) => fails.push((
                            format!("the MAC'ed reply to a correctly signed AXFR ({} octets, {n} answers, TC={tc}) is rejected by the client's TSigVerifier", reply.len()),
                            "C13.ReplyTruncatedAfterSigning",
                        )),
                        Err(p) => {
                            panic_out(&p, "TSigVerifier::verify", &mut fails);
                        }
                    }
                } else if !tc {
                    fails.push(("unsigned, untruncated reply to a correctly signed AXFR".into(), ""));
                }
            }
        },
    }
    Some(CaseOut { line, out: "~".into(), fails, nontrivial: true, stats })
}

fn record(c: CaseOut, op: &str, rec: &mut Recorder) {
    if c.out == "~" {
        rec.impl_only += 1;
    }
    let idx = rec.case(c.line, c.out);
    rec.stat(&format!("op.{op}"));
    for s in c.stats {
        rec.stat(&s);
    }
    if c.nontrivial {
        rec.nontrivial(idx);
    }
    for (what, class) in c.fails {
        rec.fail(idx, what, class);
    }
}

fn exec(line: &str, rec: &mut Recorder, cx: &Ctx) {
    let t: Vec<&str> = line.split_whitespace().collect();
    // a multiplexer history: one input line (`begin mseq …`) expands into a recorded block
    if t.len() >= 5 && t[0] == "begin" && t[1] == "mseq" {
        match catch(|| exec_mseq(&t)) {
            Ok(Some(cs)) => {
                cx.skip_block.set(true);
                for c in cs {
                    let op = c.line.split(' ').next().unwrap_or("").to_string();
                    record(c, &op, rec);
                }
            }
            Ok(None) => rec.stat(&format!("skipped.unparsable-case.mseq.{}", t.last().unwrap_or(&""))),
            Err(p) => {
                let idx = rec.case(line.to_string(), format!("panic {p}"));
                rec.fail(idx, format!("harness panic: {p}"), "");
            }
        }
        return;
    }
    if t.first() == Some(&"mmsg") {
        // replayed expansion of a `begin mseq` line: the history was re-run as a whole
        return;
    }
    if t.first() == Some(&"end") && cx.skip_block.get() && cx.vseq.borrow().is_none() {
        cx.skip_block.set(false);
        return;
    }
    let r = catch(|| match t.first().copied() {
        Some("tbs") => exec_tbs(&t),
        Some("vmb") => exec_vmb(&t),
        Some("stbs") => exec_stbs(&t),
        Some("vfy") => exec_vfy(&t),
        Some("srv") => exec_srv(&t, cx),
        Some("bigxfr") => exec_bigxfr(&t, cx),
        Some("ssm") => exec_ssm(&t),
        Some("udp") => exec_udp(&t),
        Some("api") => exec_api(&t),
        Some("begin") => exec_vseq_begin(&t, cx),
        Some("vmsg") => exec_vmsg(&t, cx),
        Some("end") => exec_vseq_end(cx),
        _ => None,
    });
    match r {
        Ok(Some(c)) => record(c, t[0], rec),
        Ok(None) => rec.stat(&format!("skipped.unparsable-case.{}", t.first().unwrap_or(&""))),
        Err(p) => {
            let idx = rec.case(line.to_string(), format!("panic {p}"));
            rec.fail(idx, format!("harness panic: {p}"), "");
        }
    }
}

// ------------------------------------------------------------------------------------------
// generator

const T0: u64 = 1_700_000_000;

fn spec(name: &str, bits: u32, fudge: u16, keyid: &str) -> SignerSpec {
    SignerSpec { name: Name::from_ascii(name).unwrap(), bits, fudge, keyid: keyid.into() }
}

fn sa() -> SignerSpec {
    spec("tsig-key.", 256, 300, "ka")
}
fn sb() -> SignerSpec {
    spec("K2.example.com.", 512, 60, "kb")
}

fn update_msg(id: u16, n: u32, with_edns: bool, txt: bool) -> Message {
    let mut m = Message::new(id, MessageType::Query, OpCode::Update);
    m.add_query(Query::new(origin(), RecordType::SOA));
    let name = Name::from_ascii(format!("h{n}.example.com.")).unwrap();
    let rec = if txt {
        Record::from_rdata(name, 120, RData::TXT(TXT::new(vec![format!("v={n}")])))
    } else {
        Record::from_rdata(name, 120, RData::A(A::new(10, (n >> 16) as u8, (n >> 8) as u8, n as u8)))
    };
    m.add_authority(rec);
    if with_edns {
        let mut e = Edns::new();
        e.set_max_payload(1232);
        m.set_edns(e);
    }
    m
}

/// a seeded, always-effective update of richer shape: a satisfied prerequisite, 1-3 additions
/// under names that share suffixes (compression), mixed case, optional EDNS
fn rich_update(rng: &mut Rng, n: u32) -> Message {
    let mut m = Message::new(rng.next() as u16, MessageType::Query, OpCode::Update);
    let zone = if rng.chance(1, 2) { origin() } else { Name::from_ascii("Example.COM.").unwrap() };
    m.add_query(Query::new(zone, RecordType::SOA));
    if rng.chance(1, 2) {
        // "name is in use" (class ANY, type ANY, empty RDATA) for an existing name
        let mut pre = Record::update0(Name::from_ascii("www.example.com.").unwrap(), 0, RecordType::ANY).into_record_of_rdata();
        pre.dns_class = DNSClass::ANY;
        m.add_answer(pre);
    }
    if rng.chance(1, 3) {
        // "RRset does not exist" (class NONE) for a name that is not there
        let mut pre = Record::update0(Name::from_ascii(format!("absent{n}.example.com.")).unwrap(), 0, RecordType::A).into_record_of_rdata();
        pre.dns_class = DNSClass::NONE;
        m.add_answer(pre);
    }
    let k = rng.range(1, 3);
    for j in 0..k {
        let label: String = (0..rng.range(1, 20)).map(|_| *rng.pick(&[b'a', b'B', b'c', b'0', b'-', b'x', b'Y']) as char).collect();
        let name = Name::from_ascii(format!("L{label}.r{n}x{j}.example.com.")).unwrap();
        let rec = match rng.below(3) {
            0 => Record::from_rdata(name, rng.range(1, 86400) as u32, RData::A(A::new(10, rng.byte(), rng.byte(), rng.byte()))),
            1 => Record::from_rdata(name, rng.range(1, 86400) as u32, RData::TXT(TXT::new(vec![format!("n={n} j={j}"), "x".repeat(rng.range(0, 40) as usize)]))),
            _ => Record::from_rdata(name, rng.range(1, 86400) as u32, RData::NS(NS(Name::from_ascii(format!("ns{j}.example.com.")).unwrap()))),
        };
        m.add_authority(rec);
    }
    if rng.chance(1, 2) {
        let mut e = Edns::new();
        e.set_max_payload(*rng.pick(&[512u16, 1232, 4096]));
        m.set_edns(e);
    }
    m
}

fn axfr_msg(id: u16) -> Message {
    let mut m = Message::new(id, MessageType::Query, OpCode::Query);
    m.add_query(Query::new(origin(), RecordType::AXFR));
    m
}

/// signs `m` with arbitrary TSIG fields (what a key holder *can* send)
#[allow(clippy::too_many_arguments)]
fn sign_with(m: &Message, key_name: &Name, alg: TsigAlgorithm, key: &[u8], mac_alg: &TsigAlgorithm, time: u64, fudge: u16, oid: u16, error: Option<TsigError>, other: Vec<u8>) -> Option<Vec<u8>> {
    let pre = TSIG::new(alg, time, fudge, vec![], oid, error, other);
    let mut kn = key_name.clone();
    kn.set_fqdn(true);
    let tbs = message_tbs(m, &pre, &kn).ok()?;
    let mac = mac_alg.mac_data(key, &tbs).ok()?;
    let mut m = m.clone();
    m.set_signature(Box::new(make_tsig_record(kn, pre.set_mac(mac))));
    m.to_vec().ok()
}

fn sign_plain(m: &Message, s: &SignerSpec, time: u64) -> Vec<u8> {
    let mut m = m.clone();
    m.finalize(&s.signer().unwrap(), time).unwrap();
    m.to_vec().unwrap()
}

/// A message of a multi-message reply, signed with the real pieces the code base offers: the TBS
/// comes from `signed_bitmessage_to_buf(bytes, Some(previous MAC), first_style)` run on the message
/// carrying a stub TSIG RR (the TBS does not depend on the MAC), the MAC from `TSigner::sign`.
/// (There is no multi-message signer in hickory: the server signs single replies only, through
/// `TSigResponseContext::sign` — used for the first message below.)
fn sign_chained(m: &Message, s: &SignerSpec, keyid: &str, prev: &[u8], time: u64, first_style: bool) -> Option<(Vec<u8>, Vec<u8>)> {
    let alg = alg_of(s.bits)?;
    let mut kn = s.name.clone();
    kn.set_fqdn(true);
    let stub = TSIG::new(alg.clone(), time, s.fudge, vec![0u8; (s.bits / 8) as usize], m.metadata.id, None, vec![]);
    let mut mm = m.clone();
    mm.set_signature(Box::new(make_tsig_record(kn.clone(), stub.clone())));
    let bytes0 = mm.to_vec().ok()?;
    let (tbs, _) = signed_bitmessage_to_buf(&bytes0, Some(prev), first_style).ok()?;
    let mac = alg.mac_data(&key_bytes(keyid), &tbs).ok()?;
    mm.set_signature(Box::new(make_tsig_record(kn, stub.set_mac(mac.clone()))));
    Some((mm.to_vec().ok()?, mac))
}

fn chain_msg(id: u16, k: u32, n_answers: u32) -> Message {
    let mut m = Message::response(id, OpCode::Query);
    m.add_query(Query::new(origin(), RecordType::AXFR));
    for j in 0..n_answers {
        m.add_answer(Record::from_rdata(Name::from_ascii(format!("m{k}r{j}.example.com.")).unwrap(), 300, RData::A(A::new(10, 9, k as u8, j as u8))));
    }
    m
}

fn cfg_line(au: bool, pol: &str, keys: &[SignerSpec], now: u64, buf: &[u8], journal: bool) -> String {
    let sg: Vec<String> = keys.iter().map(|s| s.tok(false)).collect();
    format!(
        "srv {} {} {} {} {} {} ? {}",
        name_tok(&origin()),
        b(au),
        pol,
        if sg.is_empty() { "-".into() } else { sg.join(",") },
        now,
        hex(buf),
        b(journal)
    )
}

struct Gen<'a> {
    rec: &'a mut Recorder,
    cx: &'a Ctx,
    rng: Rng,
}

impl Gen<'_> {
    fn run(&mut self, line: String) {
        exec(&line, self.rec, self.cx);
    }
    fn raw(&mut self, buf: &[u8], s: &SignerSpec) {
        self.run(format!("tbs {} ~ 1 ?", hex(buf)));
        self.run(format!("vmb {} {} ~ 1 ?", s.tok(false), hex(buf)));
    }
    /// one request against the standard admitting configuration + the raw functions
    fn probe(&mut self, buf: &[u8], now: u64, keys: &[SignerSpec]) {
        self.run(cfg_line(true, "signed", keys, now, buf, false));
        let s = keys[0].clone();
        self.raw(buf, &s);
    }
}

fn patch16(b: &mut [u8], i: usize, v: u16) {
    b[i] = (v >> 8) as u8;
    b[i + 1] = v as u8;
}

/// mutations of one signed message: returns (tag, bytes)
fn mutations(base: &[u8], rng: &mut Rng, all_bits: bool, n_bits: usize) -> Vec<(String, Vec<u8>)> {
    let mut out = vec![];
    let nb = base.len() * 8;
    let t = ref_tsig(base);
    let mut bits: Vec<usize> = if all_bits { (0..nb).collect() } else { (0..n_bits).map(|_| rng.below(nb as u64) as usize).collect() };
    if !all_bits {
        // always: every header bit, and every bit of the TSIG RR's fixed fields
        bits.extend(0..96);
        if let Some(t) = &t {
            let lo = t.start * 8;
            bits.extend((lo..(t.end * 8).min(nb)).filter(|i| i % 3 == 0));
        }
    }
    for i in bits {
        let mut m = base.to_vec();
        m[i / 8] ^= 0x80 >> (i % 8);
        out.push((format!("bit{i}"), m));
    }
    // byte mutations
    let n_bytes = if all_bits { base.len() } else { 40 };
    for k in 0..n_bytes {
        let i = if all_bits { k } else { rng.below(base.len() as u64) as usize };
        for v in [0u8, 0xFF, rng.byte()] {
            if base[i] != v {
                let mut m = base.to_vec();
                m[i] = v;
                out.push((format!("byte{i}"), m));
            }
        }
    }
    // section-count edits
    for c in 0..4 {
        let i = 4 + 2 * c;
        let cur = r16(base, i).unwrap() as u16;
        for v in [0u16, 1, 2, cur.wrapping_add(1), cur.wrapping_sub(1), 0xFFFF, 0x8000] {
            if v != cur {
                let mut m = base.to_vec();
                patch16(&mut m, i, v);
                out.push((format!("count{c}"), m));
            }
        }
    }
    // move a record between sections / overflow of answers + authorities
    for (an, ns) in [(0xFFFFu16, 1u16), (0x8000, 0x8000), (1, 0), (0, 2)] {
        let mut m = base.to_vec();
        patch16(&mut m, 6, an);
        patch16(&mut m, 8, ns);
        out.push(("counts-an-ns".into(), m));
    }
    // truncations and extensions
    let cuts: Vec<usize> = if all_bits { (0..base.len()).collect() } else { (0..24).map(|_| rng.below(base.len() as u64) as usize).chain([11, 12, base.len() - 1]).collect() };
    for c in cuts {
        out.push((format!("cut{c}"), base[..c].to_vec()));
    }
    for extra in [vec![0u8], vec![0xFF; 3], rng.bytes(17)] {
        let mut m = base.to_vec();
        m.extend(extra);
        out.push(("trailing".into(), m));
    }
    // raw edits of TSIG RR fields the typed API cannot express
    if let Some(t) = &t {
        // fixed part after the owner name: type(2) class(2) ttl(4) rdlen(2)
        let (_, q, _) = ref_name(base, t.start, base.len()).unwrap();
        for (off, v) in [(2usize, 1u16), (2, 254), (2, 0), (4, 1), (6, 1), (6, 0x0E10)] {
            let mut m = base.to_vec();
            patch16(&mut m, q + off, v);
            out.push(("tsig-class-ttl".into(), m));
        }
        // the TSIG RR twice (second one a verbatim copy), ARCOUNT + 1
        let mut m = base.to_vec();
        m.extend_from_slice(&base[t.start..t.end]);
        let ar = r16(base, 10).unwrap() as u16;
        patch16(&mut m, 10, ar + 1);
        out.push(("double-tsig".into(), m));
        // TSIG RR with RDLENGTH 0
        let mut m = base[..q + 8].to_vec();
        m.extend([0, 0]);
        out.push(("tsig-rdlen0".into(), m));
        // upper-case the key name on the wire (same key, case-insensitive) — MAC must still hold
        let mut m = base.to_vec();
        for x in &mut m[t.start..q] {
            if x.is_ascii_lowercase() {
                *x = x.to_ascii_uppercase();
            }
        }
        out.push(("keyname-case".into(), m));
    }
    out
}

pub fn run(o: &Opts, rec: &mut Recorder) {
    rec.rule = "signed_bitmessage_to_buf produced a TBS / verify_message_byte or TSigVerifier::verify accepted / the server attached a MAC'ed TSIG to its reply".into();
    std::fs::create_dir_all(&o.out).ok();
    let cx = Ctx {
        rt: tokio::runtime::Builder::new_current_thread().enable_all().build().unwrap(),
        journal_path: o.out.join("c13-journal.sqlite"),
        vseq: std::cell::RefCell::new(None),
        skip_block: std::cell::Cell::new(false),
    };
    for l in &o.pre_lines {
        exec(l, rec, &cx);
    }
    rec.corpus_cases = rec.cases.len();
    if o.replay_only {
        return;
    }
    let thorough = o.thorough();
    let mut g = Gen { rec, cx: &cx, rng: Rng::new(o.seed) };
    let (a, bq) = (sa(), sb());
    let keysets: Vec<(&str, Vec<SignerSpec>)> = vec![
        ("A", vec![a.clone()]),
        ("AB", vec![a.clone(), bq.clone()]),
        ("BA", vec![bq.clone(), a.clone()]),
        ("B", vec![bq.clone()]),
        ("none", vec![]),
        ("A-wrongkey", vec![spec("tsig-key.", 256, 300, "kx")]),
        ("A-otheralg", vec![spec("tsig-key.", 384, 300, "ka")]),
    ];

    // ---- (1) pristine signed requests × configurations × clock offsets --------------------
    let mut n = 0u32;
    let mut bases: Vec<(Vec<u8>, SignerSpec, Message)> = vec![];
    for (signer, edns, txt, axfr) in [(&a, false, false, false), (&bq, true, true, false), (&a, false, false, true), (&bq, true, false, true)] {
        n += 1;
        let id = g.rng.next() as u16;
        let mut m = if axfr { axfr_msg(id) } else { update_msg(id, n, edns, txt) };
        if axfr && edns {
            m.set_edns(Edns::new());
        }
        let buf = sign_plain(&m, signer, T0);
        bases.push((buf, signer.clone(), m));
    }
    for _ in 0..o.n(3, 10) {
        n += 1;
        let m = rich_update(&mut g.rng, n);
        let signer = if g.rng.chance(1, 2) { a.clone() } else { bq.clone() };
        let t = if g.rng.chance(1, 4) { T0 + g.rng.range(0, 20) } else { T0 };
        let buf = sign_plain(&m, &signer, t);
        bases.push((buf, signer, m));
    }
    {
        // AXFR asked with another spelling of the zone name and a non-zero flag octet 3
        let mut m = axfr_msg(g.rng.next() as u16);
        m.queries[0].name = Name::from_ascii("eXample.Com.").unwrap();
        m.metadata.recursion_desired = true;
        m.metadata.checking_disabled = true;
        let buf = sign_plain(&m, &a, T0);
        bases.push((buf, a.clone(), m));
    }
    let offsets = |f: u64| -> Vec<i64> {
        let f = f as i64;
        let mut v = vec![0, 1, -1, f - 1, -(f - 1), f, -f, f + 1, -(f + 1), 1_000_000, -1_000_000];
        // skews that are small only modulo 2^16 / 2^32 (a truncating cast of the difference)
        for k in [1i64, 2, 3, 1000] {
            for d in [0i64, 7, -7, f - 1, -(f - 1)] {
                v.push(k * 65536 + d);
                v.push(-(k * 65536 + d));
            }
        }
        for d in [0i64, 7, -7] {
            v.push((1i64 << 32) + d);
            v.push((1i64 << 31) + d);
            v.push(-((1i64 << 30) + d));
        }
        v
    };
    for (bi, (buf, signer, _)) in bases.clone().into_iter().enumerate() {
        for (ki, (_, keys)) in keysets.iter().enumerate() {
            if bi >= 4 && ki != 1 {
                continue;
            }
            for au in [true, false] {
                for pol in ["signed", "all", "deny"] {
                    let offs = if keys.iter().any(|k| k.keyid == signer.keyid) && au && pol == "signed" { offsets(signer.fudge as u64) } else { vec![0, 1_000_000] };
                    for d in offs {
                        let now = (T0 as i64 + d) as u64;
                        g.run(cfg_line(au, pol, keys, now, &buf, false));
                    }
                }
            }
        }
        // with a journal under the out dir
        g.run(cfg_line(true, "signed", &[a.clone(), bq.clone()], T0, &buf, true));
        g.run(cfg_line(true, "signed", &[a.clone(), bq.clone()], T0 + 100_000, &buf, true));
        g.raw(&buf, &signer);
    }
    // unsigned requests
    for m in [update_msg(7, 99, false, false), axfr_msg(8), update_msg(9, 98, true, true)] {
        let buf = m.to_vec().unwrap();
        for pol in ["signed", "all", "deny"] {
            for au in [true, false] {
                g.run(cfg_line(au, pol, &[a.clone(), bq.clone()], T0, &buf, false));
            }
        }
        g.raw(&buf, &a);
    }

    // ---- (2) what a key holder can send: TSIG field edits, re-signed or not ----------------
    let std_keys = vec![a.clone(), bq.clone()];
    for (_, signer, m) in bases.clone() {
        let key = key_bytes(&signer.keyid);
        let alg = alg_of(signer.bits).unwrap();
        let kn = signer.name.clone();
        let id = m.metadata.id;
        let f = signer.fudge;
        type E = (Name, TsigAlgorithm, u64, u16, u16, Option<TsigError>, Vec<u8>);
        let base: E = (kn.clone(), alg.clone(), T0, f, id, None, vec![]);
        let mut edits: Vec<(&str, E, u64)> = vec![];
        let mut e = base.clone();
        e.0 = Name::from_ascii("other-key.").unwrap();
        edits.push(("keyname-other", e, T0));
        let mut e = base.clone();
        e.0 = Name::from_ascii(kn.to_ascii().to_uppercase()).unwrap();
        edits.push(("keyname-upper", e, T0));
        for al in [TsigAlgorithm::HmacSha256, TsigAlgorithm::HmacSha384, TsigAlgorithm::HmacSha512, TsigAlgorithm::HmacSha1, TsigAlgorithm::HmacSha256_128, TsigAlgorithm::HmacMd5, TsigAlgorithm::Gss, TsigAlgorithm::HmacSha224, TsigAlgorithm::HmacSha384_192, TsigAlgorithm::HmacSha512_256, TsigAlgorithm::Unknown(Name::from_ascii("HMAC-SHA256").unwrap()), TsigAlgorithm::Unknown(Name::from_ascii("hmac-sha256.example").unwrap())] {
            let mut e = base.clone();
            e.1 = al;
            edits.push(("alg", e, T0));
        }
        for (t, now) in [(0u64, 0u64), (0, 100), (100, 100), (100, 350), (f as u64 - 1, 10), (f as u64, 10), (f as u64 + 1, 10), ((1 << 48) - 1, (1 << 48) - 1), ((1 << 48) - 1, T0), (T0 + 5, T0), (T0 - 5, T0)] {
            let mut e = base.clone();
            e.2 = t;
            edits.push(("time", e, now));
        }
        for (fu, now) in [(0u16, T0), (0, T0 + 1), (1, T0 + 1), (1, T0 - 1), (0xFFFF, T0 + 65534), (0xFFFF, T0 + 65535), (0xFFFF, T0 - 65535)] {
            let mut e = base.clone();
            e.3 = fu;
            edits.push(("fudge", e, now));
        }
        for oid in [id.wrapping_add(1), 0, 0xFFFF] {
            let mut e = base.clone();
            e.4 = oid;
            edits.push(("oid", e, T0));
        }
        for er in [16u16, 17, 18, 22, 1] {
            let mut e = base.clone();
            e.5 = Some(TsigError::from(er));
            edits.push(("error", e, T0));
        }
        for ot in [vec![0u8; 6], vec![1, 2, 3]] {
            let mut e = base.clone();
            e.6 = ot;
            edits.push(("other", e, T0));
        }
        for (tag, e, now) in edits {
            g.rec.stat(&format!("gen.edit.{tag}"));
            // (a) re-signed by the key holder with the algorithm named in the record when it is
            // a supported one, else with the key's own
            let mac_alg = if e.1.supported() { e.1.clone() } else { alg.clone() };
            if let Some(buf) = sign_with(&m, &e.0, e.1.clone(), &key, &mac_alg, e.2, e.3, e.4, e.5, e.6.clone()) {
                g.probe(&buf, now, &std_keys);
            }
            // (b) the same record with a MAC made with another key
            if let Some(buf) = sign_with(&m, &e.0, e.1.clone(), &key_bytes("kx"), &mac_alg, e.2, e.3, e.4, e.5, e.6.clone()) {
                g.probe(&buf, now, &std_keys);
            }
        }
        // MAC length edits (truncation / extension), on the typed record
        let good = sign_plain(&m, &signer, T0);
        let gm = Message::from_vec(&good).unwrap();
        let full = gm.signature().unwrap().data.mac.clone();
        for len in [0usize, 1, 10, 16, full.len() / 2, full.len() - 1, full.len() + 1, full.len() + 16] {
            let mut mac = full.clone();
            mac.resize(len, 0xAA);
            let mut mm = gm.clone();
            let sig = mm.take_signature().unwrap();
            let name = sig.name.clone();
            mm.set_signature(Box::new(make_tsig_record(name, sig.data.clone().set_mac(mac))));
            g.rec.stat("gen.edit.maclen");
            g.probe(&mm.to_vec().unwrap(), T0, &std_keys);
        }
        // changed body, old signature (the typed way of "modified in transit")
        let mut mm = gm.clone();
        mm.add_authority(Record::from_rdata(Name::from_ascii("evil.example.com.").unwrap(), 1, RData::A(A::new(6, 6, 6, 6))));
        g.probe(&mm.to_vec().unwrap(), T0, &std_keys);
        // TSIG not last / in another section
        let mut mm = gm.clone();
        let sig = mm.take_signature().unwrap();
        let as_rec = Record::from_rdata(sig.name.clone(), 0, RData::TSIG(sig.data.clone()));
        let mut r2 = as_rec.clone();
        r2.dns_class = DNSClass::ANY;
        let mut m_ans = mm.clone();
        m_ans.add_answer(r2.clone());
        g.probe(&m_ans.to_vec().unwrap(), T0, &std_keys);
        let mut m_add = mm.clone();
        m_add.add_additional(r2.clone());
        m_add.add_additional(Record::from_rdata(Name::from_ascii("x.example.com.").unwrap(), 1, RData::A(A::new(1, 1, 1, 1))));
        g.probe(&m_add.to_vec().unwrap(), T0, &std_keys);
    }

    // ---- (3) byte-level mutations of the signed requests -----------------------------------
    let nbits = o.n(400, 0);
    for (i, (buf, signer, _)) in bases.clone().into_iter().enumerate() {
        let all = thorough && i < 3;
        let mut rng = g.rng.fork();
        for (tag, mb) in mutations(&buf, &mut rng, all, if thorough { 1500 } else { nbits }) {
            g.rec.stat(&format!("gen.mut.{}", tag.trim_end_matches(|c: char| c.is_ascii_digit())));
            g.run(cfg_line(true, "signed", &std_keys, T0, &mb, false));
            g.run(format!("tbs {} ~ 1 ?", hex(&mb)));
            if tag.starts_with("bit") || tag.starts_with("count") {
                let lim = mb.len().min(48);
                g.run(format!("ssm {}", hex(&mb[..lim])));
            }
            if g.rng.chance(1, 4) || tag.starts_with("tsig") || tag.starts_with("count") {
                g.run(format!("vmb {} {} ~ 1 ?", signer.tok(false), hex(&mb)));
            }
            if g.rng.chance(1, 16) {
                let prev = g.rng.bytes(32);
                let first = g.rng.chance(1, 2);
                g.run(format!("tbs {} {} {} ?", hex(&mb), hex(&prev), b(first)));
            }
        }
    }

    // ---- (4) replies: server-side TBS, client-side TBS, TSigVerifier, mutated replies -------
    for (i, (_, signer, m)) in bases.clone().into_iter().enumerate() {
        let f = signer.fudge as i64;
        for (now_off, au) in [(0i64, true), (f + 5, true), (0, false), (-f, true), (f - 1, true), (-(f - 1), true)] {
            // sign as a client does, keep what it keeps
            let mut req = m.clone();
            let unsigned = req.to_vec().unwrap();
            let s = signer.signer().unwrap();
            let _ = req.finalize(&s, T0).unwrap();
            let rb = req.to_vec().unwrap();
            let reqmac = req.signature().unwrap().data.mac.clone();
            let now = (T0 as i64 + now_off) as u64;
            // the exchange, on a private server
            let handler = build_zone(AxfrPolicy::AllowSigned, au, std_keys.iter().filter_map(|k| k.signer()).collect(), None, &cx.rt);
            let mut catalog = Catalog::new();
            catalog.upsert(LowerName::new(&origin()), vec![handler.clone() as Arc<dyn ZoneHandler>]);
            let src: SocketAddr = "127.0.0.1:5300".parse().unwrap();
            let request = Request::from_bytes(rb.clone(), src, Protocol::Tcp).unwrap();
            NOW.store(now, Ordering::SeqCst);
            let (stream, mut receiver) = BufDnsStreamHandle::new(src);
            let handle = ResponseHandle::new(src, stream, Protocol::Tcp);
            if catch(|| cx.rt.block_on(catalog.handle_request::<_, VTime>(&request, handle))).is_err() {
                continue;
            }
            let Some(reply) = receiver.next().now_or_never().flatten().map(|m| m.into_parts().0) else { continue };
            g.run(cfg_line(au, "signed", &std_keys, now, &rb, false));
            let Some(rt) = ref_tsig(&reply) else {
                // unsigned reply (refused before TSIG processing): the verifier must reject it
                g.run(format!("vfy {} {} 0 {} {} ? ? {} ~", signer.tok(false), hex(&reqmac), T0, hex(&reply), hex(&unsigned)));
                continue;
            };
            // server side: the unsigned encoding is the reply without its TSIG RR, ARCOUNT - 1
            let mut stripped = reply[..rt.start].to_vec();
            let ar = r16(&reply, 10).unwrap() as u16;
            patch16(&mut stripped, 10, ar - 1);
            g.run(format!("stbs {} {} {} {} {} {}", signer.tok(false), hex(&reqmac), hex(&stripped), rt.oid, rt.time, rt.error));
            if !rt.mac.is_empty() {
                // oracle: the MAC on the wire is the HMAC of exactly encode_response_tbs(stripped)
                let stub = TSIG::new(alg_of(signer.bits).unwrap(), rt.time, signer.fudge, vec![], rt.oid, if rt.error == 0 { None } else { Some(TsigError::from(rt.error)) }, vec![]);
                let tbs = s.encode_response_tbs(&reqmac, &stripped, &stub).unwrap();
                let idx = g.rec.cases.len() - 1;
                if s.sign(&tbs).ok().as_deref() != Some(&rt.mac[..]) {
                    g.rec.fail(idx, "the reply MAC is not the HMAC of encode_response_tbs(request MAC, reply without TSIG RR, stub)", "");
                }
            }
            g.run(format!("tbs {} {} 1 ?", hex(&reply), hex(&reqmac)));
            g.run(format!("tbs {} {} 0 ?", hex(&reply), hex(&reqmac)));
            let vline = |buf: &[u8], first: Option<&[u8]>| format!("vfy {} {} 0 {} {} ? ? {} {}", signer.tok(false), hex(&reqmac), T0, hex(buf), hex(&unsigned), first.map(hex).unwrap_or("~".into()));
            g.run(vline(&reply, None));
            // verifier of another request / other key / other request time
            g.run(format!("vfy {} {} 0 {} {} ? ? {} ~", signer.tok(false), hex(&reqmac), T0 + 7, hex(&reply), hex(&unsigned)));
            g.run(format!("vfy {} {} 0 {} {} ? ? {} ~", spec(&signer.name.to_ascii(), signer.bits, signer.fudge, "kx").tok(false), hex(&reqmac), T0, hex(&reply), hex(&unsigned)));
            let mut other_req = m.clone();
            other_req.metadata.id = other_req.metadata.id.wrapping_add(1);
            g.run(format!("vfy {} {} 0 {} {} ? ? {} ~", signer.tok(false), hex(&reqmac), T0, hex(&reply), hex(&other_req.to_vec().unwrap())));
            if rt.error == 0 && !rt.mac.is_empty() {
                // the same reply presented again as a second message of the chain
                g.run(vline(&reply, Some(&reply)));
            }
            // mutated replies
            let all = thorough && i < 2 && now_off == 0 && au;
            let mut rng = g.rng.fork();
            for (tag, mb) in mutations(&reply, &mut rng, all, if thorough { 600 } else { o.n(150, 0) }) {
                g.rec.stat(&format!("gen.rmut.{}", tag.trim_end_matches(|c: char| c.is_ascii_digit())));
                g.run(vline(&mb, None));
                if g.rng.chance(1, 3) {
                    g.run(format!("tbs {} {} 1 ?", hex(&mb), hex(&reqmac)));
                }
            }
        }
    }

    // ---- (4c) one TSigVerifier fed a sequence of messages (multi-message replies) -------------
    for signer in [a.clone(), bq.clone()] {
        let id = g.rng.next() as u16;
        let req = axfr_msg(id);
        let unsigned = req.to_vec().unwrap();
        let s = signer.signer().unwrap();
        let mut rq = req.clone();
        rq.finalize(&s, T0).unwrap();
        let reqmac = rq.signature().unwrap().data.mac.clone();
        // the genuine chain g0 … g4: the first message through the server's own response signer
        let times = [T0, T0, T0 + 1, T0 + 1, T0 + 2];
        let mut genuine: Vec<(Vec<u8>, Vec<u8>)> = vec![];
        let mut prev = reqmac.clone();
        for (k, t) in times.iter().enumerate() {
            let m = chain_msg(id, k as u32, 1 + (k as u32 % 3));
            let (bytes, mac) = if k == 0 {
                let un = m.to_vec().unwrap();
                let rec = TSigResponseContext::new(id, *t, s.clone(), reqmac.clone(), None).sign(&un).unwrap();
                let mac = rec.data.mac.clone();
                let mut mm = m.clone();
                mm.set_signature(rec);
                (mm.to_vec().unwrap(), mac)
            } else {
                sign_chained(&m, &signer, &signer.keyid, &prev, *t, false).unwrap()
            };
            prev = mac.clone();
            genuine.push((bytes, mac));
        }
        let g_ = |i: usize| genuine[i].0.clone();
        let unsigned_msg = |k: u32, idd: u16| chain_msg(idd, 100 + k, 2).to_vec().unwrap();
        // alternatives
        let alt2_after0 = sign_chained(&chain_msg(id, 2, 3), &signer, &signer.keyid, &genuine[0].1, T0 + 1, false).unwrap().0;
        let g2_first_style = sign_chained(&chain_msg(id, 2, 3), &signer, &signer.keyid, &genuine[1].1, T0 + 1, true).unwrap().0;
        let g0_later_style = sign_chained(&chain_msg(id, 0, 1), &signer, &signer.keyid, &reqmac, T0, false).unwrap().0;
        let g2_wrong_key = sign_chained(&chain_msg(id, 2, 3), &signer, "kx", &genuine[1].1, T0 + 1, false).unwrap().0;
        let g2_back_in_time = sign_chained(&chain_msg(id, 2, 3), &signer, &signer.keyid, &genuine[1].1, T0 - 1, false).unwrap().0;
        let g1_time_zero = sign_chained(&chain_msg(id, 1, 2), &signer, &signer.keyid, &genuine[0].1, 0, false).unwrap().0;
        let far = T0 + signer.fudge as u64 + 50;
        let g2_outside_window = sign_chained(&chain_msg(id, 2, 3), &signer, &signer.keyid, &genuine[1].1, far, false).unwrap().0;
        let mut g2_flipped = g_(2);
        g2_flipped[40] ^= 0x01;
        let mut seqs: Vec<(&str, Vec<Vec<u8>>)> = vec![
            ("genuine", (0..5).map(g_).collect()),
            ("unsigned-intermediate", vec![g_(0), g_(1), unsigned_msg(0, id), g_(2), g_(3)]),
            ("unsigned-after-first", vec![g_(0), unsigned_msg(1, id), unsigned_msg(2, id.wrapping_add(1))]),
            ("unsigned-first", vec![unsigned_msg(3, id), g_(0), g_(1)]),
            ("unsigned-last", vec![g_(0), g_(1), g_(2), unsigned_msg(4, id)]),
            ("forged-bit", vec![g_(0), g_(1), g2_flipped, g_(2), g_(3)]),
            ("forged-key", vec![g_(0), g_(1), g2_wrong_key, g_(2)]),
            ("replayed", vec![g_(0), g_(1), g_(1), g_(2), g_(0)]),
            ("out-of-order", vec![g_(0), g_(2), g_(1), g_(2), g_(4), g_(3), g_(4)]),
            ("fork", vec![g_(0), alt2_after0.clone(), g_(1), g_(2)]),
            ("first-style-later", vec![g_(0), g_(1), g2_first_style, g_(2)]),
            ("later-style-first", vec![g0_later_style, g_(0), g_(1)]),
            ("time-backwards", vec![g_(0), g_(1), g2_back_in_time, g_(2)]),
            ("time-zero", vec![g_(0), g1_time_zero, g_(1)]),
            ("outside-window", vec![g_(0), g_(1), g2_outside_window, g_(2)]),
            ("first-twice", vec![g_(0), g_(0), g_(1)]),
        ];
        // sampled bit flips / truncations of continuation messages inside a running chain
        let nflip = if thorough { 400 } else { 40 };
        for _ in 0..nflip {
            let k = g.rng.range(1, 3) as usize;
            let mut mb = g_(k);
            match g.rng.below(6) {
                0 => {
                    let c = g.rng.below(mb.len() as u64) as usize;
                    mb.truncate(c);
                }
                1 => {
                    // drop the TSIG RR: ARCOUNT - 1, cut at its start
                    if let Some(rt) = ref_tsig(&mb) {
                        let ar = r16(&mb, 10).unwrap() as u16;
                        mb.truncate(rt.start);
                        patch16(&mut mb, 10, ar - 1);
                    }
                }
                _ => {
                    let i = g.rng.below(mb.len() as u64 * 8) as usize;
                    mb[i / 8] ^= 0x80 >> (i % 8);
                }
            }
            let mut sq: Vec<Vec<u8>> = (0..k).map(g_).collect();
            sq.push(mb);
            sq.push(g_(k));
            seqs.push(("mutated-continuation", sq));
        }
        for (tag, sq) in seqs {
            g.rec.stat(&format!("gen.vseq.{tag}"));
            g.run(format!("begin vseq {} {} {} {}", signer.tok(false), hex(&reqmac), T0, hex(&unsigned)));
            for mb in sq {
                g.run(format!("vmsg {} ? ? ?", hex(&mb)));
            }
            g.run("end".to_string());
        }
    }

    // ---- (4d) histories on one request id through the real DnsMultiplexer ---------------------
    {
        const KINDS: [&str; 7] = ["v", "u", "m", "k", "s", "r", "t"];
        let mut serial = 0usize;
        for len in 2..=5usize {
            let total = 7usize.pow(len as u32);
            // quick: every history of length 2..4, a seeded sample of length 5; thorough: all
            let take_all = len < 5 || thorough;
            let n = if take_all { total } else { o.n(5000, total) };
            for j in 0..n {
                let mut code = if take_all { j } else { g.rng.below(total as u64) as usize };
                let ks: Vec<&str> = (0..len)
                    .map(|_| {
                        let k = KINDS[code % 7];
                        code /= 7;
                        k
                    })
                    .collect();
                let signer = if serial % 2 == 0 { &a } else { &bq };
                serial += 1;
                g.run(format!("begin mseq {} {} {}", signer.tok(false), T0, ks.join(",")));
            }
        }
    }

    // ---- (4g) coverage-driven families ------------------------------------------------------------
    {
        // store variants: sqlite from its config (zone file, journal, key files), re-opened from the
        // journal, zone types Secondary / External, and UPDATEs sent to the in-memory / file stores
        for (buf, _, m) in bases.clone().into_iter().take(4) {
            let unsigned = m.to_vec().unwrap();
            for store in ["c", "r", "s", "e", "m", "f"] {
                for b_ in [&buf, &unsigned] {
                    for pol in ["signed", "all"] {
                        let l = cfg_line(true, pol, &std_keys, T0, b_, false);
                        g.run(format!("{} {}", l.rsplit_once(' ').unwrap().0, store));
                    }
                }
                let l = cfg_line(true, "signed", &std_keys, T0 + 100_000, &buf, false);
                g.run(format!("{} {}", l.rsplit_once(' ').unwrap().0, store));
            }
        }
        // a server clock that does not fit the 48-bit time of a TSIG: the reply cannot be signed
        let t1: u64 = (1 << 48) - 100;
        for m in [update_msg(g.rng.next() as u16, 901, false, false), axfr_msg(g.rng.next() as u16)] {
            let buf = sign_with(&m, &a.name, TsigAlgorithm::HmacSha256, &key_bytes("ka"), &TsigAlgorithm::HmacSha256, t1, 300, m.metadata.id, None, vec![]).unwrap();
            for now in [t1 + 50, 1u64 << 48, (1 << 48) + 100, (1 << 48) + 250, T0 + (1 << 48)] {
                g.run(cfg_line(true, "signed", &std_keys, now, &buf, false));
            }
            g.run(cfg_line(true, "signed", &[spec("tsig-key.", 256, 300, "kx")], (1 << 48) + 100, &buf, false));
            g.run(cfg_line(true, "signed", &[], (1 << 48) + 100, &buf, false));
        }
        // a key with the third supported algorithm
        let sc = spec("Key-384.", 384, 120, "kb");
        for m in [update_msg(g.rng.next() as u16, 902, true, false), axfr_msg(g.rng.next() as u16)] {
            let buf = sign_plain(&m, &sc, T0);
            for keys in [vec![sc.clone()], vec![a.clone(), sc.clone()], vec![spec("key-384.", 512, 120, "kb")]] {
                g.run(cfg_line(true, "signed", &keys, T0, &buf, false));
            }
            g.raw(&buf, &sc);
        }
        // arms of read_records that typed messages do not reach: a SIG(0) record and OPT records in
        // the additional section in front of the TSIG RR, written octet by octet
        let sig_rr: Vec<u8> = [&[0u8, 0, 24, 0, 255, 0, 0, 0, 0, 0, 23][..], &[0, 1, 8, 0, 0, 0, 0, 0, 0x65, 0x53, 0xf2, 0, 0x65, 0x53, 0xf0, 0, 0x12, 0x34, 0, 1, 2, 3, 4][..]].concat();
        let opt_rr: Vec<u8> = vec![0, 0, 41, 0x04, 0xd0, 0, 0, 0, 0, 0, 0];
        let opt_v1: Vec<u8> = vec![0, 0, 41, 0x04, 0xd0, 0, 1, 0, 0, 0, 0];
        for (tag, extra, n) in [("sig", sig_rr.clone(), 1u16), ("opt", opt_rr.clone(), 1), ("opt-opt", [opt_rr.clone(), opt_rr.clone()].concat(), 2), ("sig-opt", [sig_rr.clone(), opt_rr.clone()].concat(), 2), ("opt-sig-opt", [opt_rr.clone(), sig_rr.clone(), opt_rr.clone()].concat(), 3), ("opt-v1", opt_v1.clone(), 1)] {
            for m in [update_msg(g.rng.next() as u16, 903, false, false), axfr_msg(g.rng.next() as u16)] {
                let mut un = m.to_vec().unwrap();
                un.extend(&extra);
                patch16(&mut un, 10, n);
                let buf = raw_sign(&un, &a, T0);
                g.rec.stat(&format!("gen.raw.{tag}"));
                g.probe(&buf, T0, &std_keys);
                g.probe(&un, T0, &std_keys);
            }
        }
        for what in ["signer-new", "mac-unsupported", "emit-limits"] {
            g.run(format!("api {what}"));
        }
        // multiplexer: foreign id, undecodable, not a response — mixed into histories; and requests
        // that `should_sign_message` leaves unsigned
        const K10: [&str; 10] = ["v", "u", "m", "k", "s", "r", "t", "i", "g", "q"];
        for j in 0..o.n(1500, 6000) {
            let len = 2 + j % 3;
            let mut ks: Vec<&str> = (0..len).map(|_| *g.rng.pick(&K10)).collect();
            let pos = g.rng.below(len as u64) as usize;
            ks[pos] = ["i", "g", "q"][j % 3];
            let signer = if j % 2 == 0 { &a } else { &bq };
            g.run(format!("begin mseq {} {} {}", signer.tok(false), T0, ks.join(",")));
        }
        for ks in ["u", "u,u", "i,u", "g,u", "q,u", "u,i,g,u"] {
            g.run(format!("begin mseq {} {} A:{}", a.tok(false), T0, ks));
        }
        // UDP: the same for a request that is not signed
        {
            let id = g.rng.next() as u16;
            let mut rm = Message::response(id, OpCode::Query);
            rm.add_query(Query::new(Name::from_ascii("www.example.com.").unwrap(), RecordType::A));
            rm.add_answer(Record::from_rdata(Name::from_ascii("www.example.com.").unwrap(), 300, RData::A(A::new(192, 0, 2, 80))));
            let plain_reply = rm.to_vec().unwrap();
            let mut foreign = plain_reply.clone();
            patch16(&mut foreign, 0, id.wrapping_add(9));
            let mut tc = plain_reply.clone();
            tc[2] |= 0x02;
            for ds in [vec![plain_reply.clone()], vec![foreign.clone(), plain_reply.clone()], vec![tc.clone()], vec![vec![1, 2, 3]], vec![chain_msg(id, 0, 1).to_vec().unwrap(), plain_reply.clone()], vec![]] {
                let toks: Vec<String> = ds.iter().map(|d| format!("{} ? ? ?", hex(d))).collect();
                g.run(format!("udp {} - {} {} {}", a.tok(false), T0, id, toks.join(" ")).trim_end().to_string());
            }
        }
    }

    // ---- (4e) transfer-type queries × store kinds × policies × authentication states -----------
    {
        let types: [(u16, bool); 10] = [(251, false), (251, true), (252, false), (253, false), (254, false), (255, false), (250, false), (249, false), (6, false), (1, false)];
        for (qt_, soa_auth) in types {
            let mut m = Message::new(g.rng.next() as u16, MessageType::Query, OpCode::Query);
            m.add_query(Query::new(origin(), RecordType::from(qt_)));
            if soa_auth {
                // IXFR as RFC 1995 sends it: the client's current SOA in the authority section
                let soa = SOA::new(Name::from_ascii("ns.example.com.").unwrap(), Name::from_ascii("admin.example.com.").unwrap(), 20250101, 7200, 3600, 360000, 60);
                m.add_authority(Record::from_rdata(origin(), 3600, RData::SOA(soa)));
            }
            let variants: Vec<(&str, Vec<u8>)> = vec![
                ("unsigned", m.to_vec().unwrap()),
                ("unknown-key", sign_plain(&m, &spec("nobody-knows-this-key.", 256, 300, "ka"), T0)),
                ("bad-mac", sign_plain(&m, &spec("tsig-key.", 256, 300, "kx"), T0)),
                ("valid", sign_plain(&m, &a, T0)),
                ("stale", sign_plain(&m, &a, T0 - 100_000)),
            ];
            for (tag, buf) in variants {
                for store in ["0", "m", "f"] {
                    for pol in ["signed", "all", "deny"] {
                        g.rec.stat(&format!("gen.xfr.{tag}"));
                        let l = cfg_line(true, pol, &std_keys, T0, &buf, false);
                        let l = format!("{} {}", l.rsplit_once(' ').unwrap().0, store);
                        g.run(l);
                    }
                }
            }
        }
    }

    // ---- (4f) the UDP client with a signer: reply kinds × header-bit variations -----------------
    {
        // (octet, mask, value): TC, AA, RD, RA, Z, AD, CD, rcode 3 / 5 / 9, TC + rcode
        let hdr_vars: [(&str, usize, u8, u8); 12] = [
            ("none", 2, 0, 0), ("tc", 2, 0x02, 0x02), ("aa", 2, 0x04, 0x04), ("rd", 2, 0x01, 0x01), ("ra", 3, 0x80, 0x80), ("z", 3, 0x40, 0x40),
            ("ad", 3, 0x20, 0x20), ("cd", 3, 0x10, 0x10), ("rc3", 3, 0x0F, 3), ("rc5", 3, 0x0F, 5), ("rc9", 3, 0x0F, 9), ("tc+rc2", 23, 0, 0),
        ];
        let apply = |m: &mut Message, var: &str| match var {
            "tc" => m.metadata.truncation = true,
            "aa" => m.metadata.authoritative = true,
            "rd" => m.metadata.recursion_desired = true,
            "ra" => m.metadata.recursion_available = true,
            "ad" => m.metadata.authentic_data = true,
            "cd" => m.metadata.checking_disabled = true,
            "rc3" => m.metadata.response_code = hickory_proto::op::ResponseCode::NXDomain,
            "rc5" => m.metadata.response_code = hickory_proto::op::ResponseCode::Refused,
            "rc9" => m.metadata.response_code = hickory_proto::op::ResponseCode::NotAuth,
            "tc+rc2" => {
                m.metadata.truncation = true;
                m.metadata.response_code = hickory_proto::op::ResponseCode::ServFail;
            }
            _ => {}
        };
        let patch = |b_: &mut Vec<u8>, var: &(&str, usize, u8, u8)| {
            if var.0 == "tc+rc2" {
                b_[2] |= 0x02;
                b_[3] = (b_[3] & 0xF0) | 2;
            } else if var.2 != 0 {
                b_[var.1] = (b_[var.1] & !var.2) | var.3;
            }
        };
        for signer in [a.clone(), bq.clone()] {
            let id = g.rng.next() as u16;
            let mut rq = axfr_msg(id);
            rq.finalize(&signer.signer().unwrap(), T0).unwrap();
            let reqmac = rq.signature().unwrap().data.mac.clone();
            let line = |ds: &[Vec<u8>]| {
                let toks: Vec<String> = ds.iter().map(|d| format!("{} ? ? ?", hex(d))).collect();
                format!("udp {} {} {} {} {}", signer.tok(false), hex(&reqmac), T0, id, toks.join(" ")).trim_end().to_string()
            };
            let build = |kind: &str, m: &Message| -> Vec<u8> {
                match kind {
                    "valid" => sign_chained(m, &signer, &signer.keyid, &reqmac, T0, true).unwrap().0,
                    "unsigned" => m.to_vec().unwrap(),
                    "badmac" => {
                        let mut b_ = sign_chained(m, &signer, &signer.keyid, &reqmac, T0, true).unwrap().0;
                        let r = ref_tsig(&b_).unwrap();
                        let i = r.end - 6 - r.other.len() - 1;
                        b_[i] ^= 0x01;
                        b_
                    }
                    "wrongkey" => sign_chained(m, &signer, "kx", &reqmac, T0, true).unwrap().0,
                    _ => sign_chained(m, &signer, &signer.keyid, &reqmac, T0 + signer.fudge as u64 + 50, true).unwrap().0,
                }
            };
            let genuine = build("valid", &chain_msg(id, 0, 2));
            for kind in ["valid", "unsigned", "badmac", "wrongkey", "stale"] {
                for var in &hdr_vars {
                    // the bits set by the sender (before signing) …
                    let mut m = chain_msg(id, 1, 2);
                    apply(&mut m, var.0);
                    let before = build(kind, &m);
                    g.rec.stat(&format!("gen.udp.{kind}.before"));
                    g.run(line(&[before.clone()]));
                    // … and changed in transit (after signing)
                    let mut after = build(kind, &chain_msg(id, 1, 2));
                    patch(&mut after, var);
                    g.rec.stat(&format!("gen.udp.{kind}.after"));
                    g.run(line(&[after.clone()]));
                    // the forgery first, the genuine reply behind it; a foreign id first
                    if var.0 == "tc" || var.0 == "tc+rc2" || var.0 == "none" {
                        g.run(line(&[after.clone(), genuine.clone()]));
                        let mut foreign = before.clone();
                        patch16(&mut foreign, 0, id.wrapping_add(1));
                        g.run(line(&[foreign, after.clone()]));
                    }
                }
            }
            g.run(line(&[]));
            g.run(line(&[vec![0u8; 5], genuine.clone()]));
        }
    }

    // ---- (4b) replies that meet the size limit ----------------------------------------------
    for (extra, proto, payload) in [(0u32, "tcp", 0u16), (3, "udp", 0), (40, "udp", 0), (40, "udp", 1232), (200, "udp", 4096), (40, "tcp", 0), (900, "tcp", 0)] {
        if extra > 300 && !thorough {
            continue;
        }
        g.run(format!("bigxfr {extra} {proto} {payload}"));
    }

    // ---- (5) random / structured garbage for the raw entry points --------------------------
    for _ in 0..o.n(150, 4000) {
        let len = g.rng.range(0, 80) as usize;
        let mut buf = g.rng.bytes(len);
        if buf.len() >= 12 && g.rng.chance(3, 4) {
            // plausible counts
            for c in 0..4 {
                let v = *g.rng.pick(&[0u16, 0, 1, 1, 2, 0xFFFF]);
                patch16(&mut buf, 4 + 2 * c, v);
            }
        }
        g.run(format!("tbs {} ~ 1 ?", hex(&buf)));
        g.run(cfg_line(true, "signed", &std_keys, T0, &buf, false));
    }
}
