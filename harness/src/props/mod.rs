use crate::common::{Opts, Recorder};

pub mod c04;

pub fn run(prop: &str, o: &Opts, rec: &mut Recorder) -> bool {
    match prop {
        "c04" => c04::run(o, rec),
        _ => return false,
    }
    true
}
