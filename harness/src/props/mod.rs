use crate::common::{Opts, Recorder};

pub mod c01;
pub mod encscript;
pub mod msgemit;
pub mod fuzzoracle;
pub mod c02;
pub mod c03;
pub mod c04;
pub mod c05;
pub mod c06;
pub mod c07;
pub mod c08;
pub mod c09;
pub mod c10;
pub mod c11;
pub mod c12;
pub mod c13;
pub mod c14;
pub mod c15;
pub mod c16;
pub mod c17;
pub mod c18;
pub mod c19;
pub mod c20;

pub fn run(prop: &str, o: &Opts, rec: &mut Recorder) -> bool {
    match prop {
        "c01" => c01::run(o, rec),
        "c02" => c02::run(o, rec),
        "c03" => c03::run(o, rec),
        "c04" => c04::run(o, rec),
        "c05" => c05::run(o, rec),
        "c06" => c06::run(o, rec),
        "c07" => c07::run(o, rec),
        "c08" => c08::run(o, rec),
        "c09" => c09::run(o, rec),
        "c10" => c10::run(o, rec),
        "c11" => c11::run(o, rec),
        "c12" => c12::run(o, rec),
        "c13" => c13::run(o, rec),
        "c14" => c14::run(o, rec),
        "c15" => c15::run(o, rec),
        "c16" => c16::run(o, rec),
        "c17" => c17::run(o, rec),
        "c18" => c18::run(o, rec),
        "c19" => c19::run(o, rec),
        "c20" => c20::run(o, rec),
        _ => return false,
    }
    true
}
