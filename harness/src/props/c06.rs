//! C06 — a signature is accepted only for the exact RRset, key and time window.
//!
//! Pure part through the hook `hickory_net::dnssec::verif_hooks::verify_rrset_with_dnskey`
//! (`vk` lines: field-by-field / bit-by-bit mutations of RRset, RRSIG, DNSKEY, clock offsets), plus
//! `serial` (`SerialNumber::partial_cmp`), `tag` (`DNSKEY::calculate_key_tag_internal`), `attl`
//! (`RRSIG::authenticated_ttl`).  History part (`begin` / `h` / `end` blocks) through
//! `DnssecDnsHandle::send` over a scripted upstream `DnsHandle` whose `Runtime::Timer::current_time`
//! is a controllable counter: observes `Record.proof` / `Record.ttl` of the returned response and
//! whether the verdict was freshly computed (the upstream saw a DNSKEY query) or came from the
//! `ValidationCache`.
//!
//! Oracle (independent of the model): a Secure verdict is acceptable only if the key is a trusted,
//! non-revoked zone key whose owner / algorithm / key tag match the RRSIG, the RRSIG's owner, class,
//! type covered and Labels fit the RRset, the validator's clock is inside [inception, expiration]
//! in serial arithmetic, and the signature verifies (ring) over the *reference* RFC 4035 §5.3.2
//! bytes of exactly these records (encoder of c05.rs); the TTL handed out must not exceed the
//! remaining signature lifetime nor the original TTL.
use std::collections::HashMap;
use std::future::Future;
use std::hash::{Hash, Hasher};
use std::io;
use std::net::SocketAddr;
use std::pin::Pin;
use std::sync::atomic::{AtomicU64, AtomicUsize, Ordering as AtOrd};
use std::sync::{Arc, Mutex};
use std::time::Duration;

use futures_util::stream::{self, Stream};
use hickory_net::dnssec::DnssecDnsHandle;
use hickory_net::dnssec::verif_hooks::verify_rrset_with_dnskey;
use hickory_net::runtime::{RuntimeProvider, Time, TokioRuntimeProvider, TokioTime};
use hickory_net::xfer::{DnsHandle, FirstAnswer};
use hickory_net::{DnsError, NetError};
use hickory_proto::dnssec::rdata::{DNSKEY, DNSSECRData, RRSIG, SigInput};
use hickory_proto::dnssec::{Algorithm, Proof, PublicKeyBuf, TBS, TrustAnchors, Verifier};
use hickory_proto::op::{DnsRequest, DnsRequestOptions, DnsResponse, Message, Query};
use hickory_proto::rr::{DNSClass, Name, RData, Record, RecordType, SerialNumber};

use super::c05::{self, Case, N, RD, Rec};
use crate::common::*;

// ------------------------------------------------------------------ tokens

#[derive(Clone, Debug, PartialEq)]
struct K {
    owner: N,
    flags: u16,
    alg: u8,
    pk: Vec<u8>,
}

#[derive(Clone, Debug, PartialEq)]
struct S {
    owner: N,
    cls: u16,
    ttl: u32,
    tc: u16,
    alg: u8,
    labels: u8,
    ottl: u32,
    exp: u32,
    inc: u32,
    tag: u16,
    signer: N,
    sig: Vec<u8>,
}

impl K {
    fn tok(&self) -> String {
        format!("{};{};{};{}", self.owner.tok(), self.flags, self.alg, hex(&self.pk))
    }
    fn parse_fields(f: &[&str]) -> Option<K> {
        let [o, fl, a, p] = f else { return None };
        Some(K { owner: N::parse(o)?, flags: fl.parse().ok()?, alg: a.parse().ok()?, pk: unhex(p)? })
    }
    fn parse(t: &str) -> Option<K> {
        Self::parse_fields(&t.split(';').collect::<Vec<_>>())
    }
    fn rdata(&self) -> Vec<u8> {
        let mut o = self.flags.to_be_bytes().to_vec();
        o.push(3);
        o.push(self.alg);
        o.extend_from_slice(&self.pk);
        o
    }
    fn dnskey(&self) -> DNSKEY {
        DNSKEY::with_flags(self.flags, PublicKeyBuf::new(self.pk.clone(), Algorithm::from_u8(self.alg)))
    }
    fn to_record(&self) -> Option<Record> {
        Some(Record::from_rdata(self.owner.to_name()?, 3600, RData::DNSSEC(DNSSECRData::DNSKEY(self.dnskey()))))
    }
}

/// RFC 4034 Appendix B key tag, written from the RFC
fn ref_key_tag(rdata: &[u8]) -> u16 {
    let mut ac: u64 = 0;
    for (i, b) in rdata.iter().enumerate() {
        ac += if i % 2 == 0 { (*b as u64) << 8 } else { *b as u64 };
    }
    ac += (ac >> 16) & 0xFFFF;
    (ac & 0xFFFF) as u16
}

impl S {
    fn tok(&self) -> String {
        format!(
            "{};{};{};{};{};{};{};{};{};{};{};{}",
            self.owner.tok(),
            self.cls,
            self.ttl,
            self.tc,
            self.alg,
            self.labels,
            self.ottl,
            self.exp,
            self.inc,
            self.tag,
            self.signer.tok(),
            hex(&self.sig)
        )
    }
    fn parse(t: &str) -> Option<S> {
        let f: Vec<&str> = t.split(';').collect();
        let [o, c, ttl, tc, alg, lab, ottl, exp, inc, tag, signer, sg] = f.as_slice() else { return None };
        Some(S {
            owner: N::parse(o)?,
            cls: c.parse().ok()?,
            ttl: ttl.parse().ok()?,
            tc: tc.parse().ok()?,
            alg: alg.parse().ok()?,
            labels: lab.parse().ok()?,
            ottl: ottl.parse().ok()?,
            exp: exp.parse().ok()?,
            inc: inc.parse().ok()?,
            tag: tag.parse().ok()?,
            signer: N::parse(signer)?,
            sig: unhex(sg)?,
        })
    }
    fn input(&self) -> Option<SigInput> {
        Some(SigInput {
            type_covered: RecordType::from(self.tc),
            algorithm: Algorithm::from_u8(self.alg),
            num_labels: self.labels,
            original_ttl: self.ottl,
            sig_expiration: SerialNumber::new(self.exp),
            sig_inception: SerialNumber::new(self.inc),
            key_tag: self.tag,
            signer_name: self.signer.to_name()?,
        })
    }
    fn to_record(&self) -> Option<Record> {
        let mut r = Record::from_rdata(
            self.owner.to_name()?,
            self.ttl,
            RData::DNSSEC(DNSSECRData::RRSIG(RRSIG::from_sig(self.input()?, self.sig.clone()))),
        );
        r.dns_class = DNSClass::from(self.cls);
        Some(r)
    }
    /// the C05 reference case for the RRset `recs` of `name` under these RRSIG fields
    fn ref_case(&self, name: &N, cls: u16, recs: &[Rec]) -> Case {
        Case {
            name: name.clone(),
            cls,
            tc: self.tc,
            alg: self.alg,
            labels: self.labels,
            ottl: self.ottl,
            exp: self.exp,
            inc: self.inc,
            tag: self.tag,
            signer: self.signer.clone(),
            recs: recs.to_vec(),
        }
    }
}

fn proof_tok(p: Proof) -> &'static str {
    match p {
        Proof::Secure => "S",
        Proof::Insecure => "I",
        Proof::Bogus => "B",
        Proof::Indeterminate => "N",
    }
}

fn parse_proof(t: &str) -> Option<Proof> {
    Some(match t {
        "S" => Proof::Secure,
        "I" => Proof::Insecure,
        "B" => Proof::Bogus,
        "N" => Proof::Indeterminate,
        _ => return None,
    })
}

fn same_name_ci(a: &N, b: &N) -> bool {
    a.fqdn == b.fqdn && a.lower_labels() == b.lower_labels()
}

/// a ≤ b in RFC 1982 serial arithmetic (defined and true)
fn serial_le(a: u32, b: u32) -> bool {
    b.wrapping_sub(a) < 0x8000_0000
}

fn in_window(now: u32, s: &S) -> bool {
    serial_le(s.inc, now) && serial_le(now, s.exp)
}

/// the TBS bytes for which the real crypto accepts (key, signature), as the oracle token
fn oracle_tok(k: &K, s: &S, name: &N, recs: &[Record]) -> String {
    let (Some(input), Some(name)) = (s.input(), name.to_name()) else { return "!".into() };
    match TBS::from_input(&name.to_lowercase(), DNSClass::IN, &input, recs.iter()) {
        Ok(tbs) => {
            if k.dnskey().verify(tbs.as_ref(), &s.sig).is_ok() {
                hex(tbs.as_ref())
            } else {
                "!".into()
            }
        }
        Err(_) => "!".into(),
    }
}

/// The independent acceptance predicate.  Returns the list of conditions that do **not** hold.
fn indep_check(now: u32, kproof: Proof, k: &K, s: &S, name: &N, ty: u16, recs: &[Rec]) -> Vec<&'static str> {
    let mut bad = vec![];
    if kproof != Proof::Secure {
        bad.push("key-not-secure");
    }
    if k.flags & 0x0100 == 0 {
        bad.push("not-zone-key");
    }
    if k.flags & 0x0080 != 0 {
        bad.push("revoked");
    }
    if !same_name_ci(&k.owner, &s.signer) {
        bad.push("key-owner!=signer");
    }
    if k.alg != s.alg {
        bad.push("algorithm");
    }
    if ref_key_tag(&k.rdata()) != s.tag {
        bad.push("key-tag");
    }
    if !same_name_ci(&s.owner, name) {
        bad.push("rrsig-owner");
    }
    if s.tc != ty {
        bad.push("type-covered");
    }
    let c = s.ref_case(name, s.cls, recs);
    if (s.labels as usize) > c.owner_label_count() {
        bad.push("labels");
    }
    if recs.is_empty() || recs.iter().any(|r| r.cls != s.cls || r.rtype != ty || !same_name_ci(&r.name, name)) {
        bad.push("rrset-owner-class-type");
    }
    if !in_window(now, s) {
        bad.push("window");
    }
    match c.ref_signed_data() {
        Some(bytes) if c.rrset().len() == recs.len() => {
            if k.dnskey().verify(&bytes, &s.sig).is_err() {
                bad.push("signature");
            }
        }
        _ => bad.push("signature"),
    }
    bad
}

fn ttl_excess(now: u32, s: &S, ttl: u32) -> Option<&'static str> {
    if ttl > s.exp.wrapping_sub(now) {
        Some("ttl > remaining signature lifetime")
    } else if ttl > s.ottl {
        Some("ttl > original ttl")
    } else {
        None
    }
}

// ------------------------------------------------------------------ scripted upstream, virtual clock

static CLOCK: AtomicU64 = AtomicU64::new(0);

#[derive(Clone, Copy)]
pub struct MockTime;

#[async_trait::async_trait]
impl Time for MockTime {
    async fn delay_for(duration: Duration) {
        TokioTime::delay_for(duration).await
    }
    async fn timeout<F: 'static + Future + Send>(duration: Duration, future: F) -> Result<F::Output, io::Error> {
        TokioTime::timeout(duration, future).await
    }
    fn current_time() -> u64 {
        CLOCK.load(AtOrd::SeqCst)
    }
}

#[derive(Clone)]
pub struct MockRuntime(TokioRuntimeProvider);

impl RuntimeProvider for MockRuntime {
    type Handle = <TokioRuntimeProvider as RuntimeProvider>::Handle;
    type Timer = MockTime;
    type Udp = <TokioRuntimeProvider as RuntimeProvider>::Udp;
    type Tcp = <TokioRuntimeProvider as RuntimeProvider>::Tcp;

    fn create_handle(&self) -> Self::Handle {
        self.0.create_handle()
    }
    fn connect_tcp(
        &self,
        server_addr: SocketAddr,
        bind_addr: Option<SocketAddr>,
        timeout: Option<Duration>,
    ) -> Pin<Box<dyn Send + Future<Output = Result<Self::Tcp, io::Error>>>> {
        self.0.connect_tcp(server_addr, bind_addr, timeout)
    }
    fn bind_udp(&self, local_addr: SocketAddr, server_addr: SocketAddr) -> Pin<Box<dyn Send + Future<Output = Result<Self::Udp, io::Error>>>> {
        self.0.bind_udp(local_addr, server_addr)
    }
}

#[derive(Default)]
struct Script {
    /// (lower-cased query name token, type) → answer records
    answers: HashMap<(String, u16), Vec<Record>>,
}

#[derive(Clone)]
struct Upstream {
    script: Arc<Mutex<Script>>,
    dnskey_queries: Arc<AtomicUsize>,
    other_queries: Arc<AtomicUsize>,
}

/// every DNSKEY query is answered with an error (scripted upstream failure)
static FAIL_DNSKEY: std::sync::atomic::AtomicBool = std::sync::atomic::AtomicBool::new(false);

impl DnsHandle for Upstream {
    type Response = Pin<Box<dyn Stream<Item = Result<DnsResponse, NetError>> + Send>>;
    type Runtime = MockRuntime;

    fn send(&self, request: DnsRequest) -> Self::Response {
        let q = request.queries.first().cloned();
        let mut msg = Message::query();
        msg.metadata.id = request.id;
        let mut answers = vec![];
        if let Some(q) = &q {
            msg.add_query(q.clone());
            if q.query_type == RecordType::DNSKEY {
                self.dnskey_queries.fetch_add(1, AtOrd::SeqCst);
            } else {
                self.other_queries.fetch_add(1, AtOrd::SeqCst);
            }
            let key = (name_tok(&q.name.to_lowercase()), u16::from(q.query_type));
            if let Some(a) = self.script.lock().unwrap().answers.get(&key) {
                answers = a.clone();
            }
        }
        if q.as_ref().map(|q| q.query_type == RecordType::DNSKEY).unwrap_or(false) && FAIL_DNSKEY.load(AtOrd::SeqCst) {
            return Box::pin(stream::once(async move { Err(NetError::from("scripted upstream failure")) }));
        }
        let mut msg = msg.into_response();
        for a in answers {
            msg.add_answer(a);
        }
        // what a transport would deliver: the response goes through the wire encoding (name compression, RDATA
        // decoders of RRSIG / DNSKEY / …); a message that cannot be encoded is handed over as it is
        let r = match msg.to_vec().ok().and_then(|bytes| DnsResponse::from_buffer(bytes).ok()) {
            // only if the decoded message carries the same records (some generated RDATA, e.g. a TXT without
            // strings, has no decodable wire form: C01/C02 territory)
            Some(r) if r.answers == msg.answers => Ok(r),
            _ => DnsResponse::from_message(msg).map_err(NetError::from),
        };
        Box::pin(stream::once(async move { r }))
    }
}

/// records every byte fed to a `Hasher`: the hash input of `RrsetVerificationContext::key()`
#[derive(Default)]
struct Recording(Vec<u8>);

impl Hasher for Recording {
    fn finish(&self) -> u64 {
        0
    }
    fn write(&mut self, bytes: &[u8]) {
        self.0.extend_from_slice(bytes);
    }
}

/// what `RrsetVerificationContext::key()` hashes, in its order
fn cache_key_stream(query: &Query, key_name: &Name, ty: RecordType, recs: &[Record], sigs: &[Record]) -> Vec<u8> {
    let mut h = Recording::default();
    query.name.hash(&mut h);
    query.query_class.hash(&mut h);
    query.query_type.hash(&mut h);
    hickory_proto::rr::LowerName::new(key_name).hash(&mut h);
    ty.hash(&mut h);
    for r in recs.iter().chain(sigs) {
        r.name.hash(&mut h);
        r.dns_class.hash(&mut h);
        // mirrors hash_rdata(): the uncompressed wire RDATA, letter case preserved
        let mut bytes = Vec::new();
        let ok = {
            let mut enc = hickory_proto::serialize::binary::BinEncoder::new(&mut bytes);
            enc.name_encoding = hickory_proto::serialize::binary::NameEncoding::Uncompressed;
            hickory_proto::serialize::binary::BinEncodable::emit(&r.data, &mut enc).is_ok()
        };
        if ok {
            bytes.hash(&mut h)
        } else {
            r.data.hash(&mut h)
        }
    }
    h.0
}

struct FreshInfo {
    validated_at: u32,
    canon: Vec<Option<Vec<u8>>>,
    indep_ok: bool,
    sig: S,
    ref_bytes: Option<Vec<u8>>,
    raw_lower: Vec<Vec<u8>>,
}

struct Hist {
    rt: tokio::runtime::Runtime,
    handle: DnssecDnsHandle<Upstream>,
    up: Upstream,
    memory: HashMap<String, FreshInfo>,
    last_inst: u64,
}

thread_local! {
    static HIST: std::cell::RefCell<Option<Hist>> = const { std::cell::RefCell::new(None) };
}

/// the five real keys plus, for each, two bogus "keys" with the same key tag and algorithm
/// (two 16-bit words of the public key swapped) — all of them trust anchors in the history part
fn all_keys() -> Vec<K> {
    let mut v = vec![];
    for k in c05::sign_keys() {
        let pk = k.dnskey.public_key().clone().into_inner();
        let base = K { owner: c05::nm("example.com."), flags: 257, alg: u8::from(k.alg), pk: pk.clone() };
        v.push(base.clone());
        for off in [0usize, 4] {
            let mut p = pk.clone();
            if p.len() >= off + 4 && (p[off], p[off + 1]) != (p[off + 2], p[off + 3]) {
                p.swap(off, off + 2);
                p.swap(off + 1, off + 3);
                v.push(K { pk: p, ..base.clone() });
            }
        }
    }
    v
}

fn real_key(i: usize) -> K {
    let k = &c05::sign_keys()[i];
    K { owner: c05::nm("example.com."), flags: 257, alg: u8::from(k.alg), pk: k.dnskey.public_key().clone().into_inner() }
}

fn sign_with(i: usize, bytes: &[u8]) -> Vec<u8> {
    c05::sign_keys()[i].key.sign(&TBS::from(bytes)).expect("sign")
}

// ------------------------------------------------------------------ exec

struct Out {
    line: String,
    out: String,
    fails: Vec<(String, String)>,
    stats: Vec<String>,
    nontrivial: bool,
}

pub fn exec(line: &str, rec: &mut Recorder) {
    let t: Vec<&str> = line.split_whitespace().collect();
    if t.is_empty() {
        return;
    }
    match catch(|| exec_inner(&t)) {
        Ok(Some(o)) => {
            if o.out == "~" {
                rec.impl_only += 1;
            }
            let idx = rec.case(o.line, o.out);
            rec.stat(&format!("op.{}", t[0]));
            for s in o.stats {
                rec.stat(&s);
            }
            if o.nontrivial {
                rec.nontrivial(idx);
            }
            for (what, class) in o.fails {
                rec.fail(idx, what, &class);
            }
        }
        Ok(None) => rec.stat("skipped.unparsable-case"),
        Err(p) => {
            // `vkp` lines have no model side (unsupported-algorithm family, repaired in /repo 2009bea: must-not-panic regression)
            let class = "";
            let out = if t[0] == "vkp" { "~".to_string() } else { format!("panic {p}") };
            if out == "~" {
                rec.impl_only += 1;
            }
            let idx = rec.case(line.to_string(), out);
            rec.stat(&format!("op.{}", t[0]));
            rec.fail(idx, format!("panic: {p}"), class);
        }
    }
}

fn simple(line: String, out: String) -> Option<Out> {
    Some(Out { line, out, fails: vec![], stats: vec![], nontrivial: true })
}

fn exec_inner(t: &[&str]) -> Option<Out> {
    // `hq QNAME <h arguments>`: the `h` step with the RRset arriving in the response to the query `QNAME DNSKEY`
    if t.len() > 2 && t[0] == "hq" {
        let mut v = vec!["h"];
        v.extend_from_slice(&t[2..]);
        return exec_with(&v, Some(t[1]));
    }
    exec_with(t, None)
}

fn exec_with(t: &[&str], orig: Option<&str>) -> Option<Out> {
    match t {
        ["serial", a, b] => {
            let (x, y): (u32, u32) = (a.parse().ok()?, b.parse().ok()?);
            let got = SerialNumber::new(x).partial_cmp(&SerialNumber::new(y));
            let out = match got {
                Some(std::cmp::Ordering::Less) => "lt",
                Some(std::cmp::Ordering::Equal) => "eq",
                Some(std::cmp::Ordering::Greater) => "gt",
                None => "none",
            };
            // RFC 1982 §3.2 by modular distance
            let d = y.wrapping_sub(x);
            let want = if d == 0 { "eq" } else if d < 0x8000_0000 { "lt" } else if d > 0x8000_0000 { "gt" } else { "none" };
            let mut o = simple(format!("serial {x} {y}"), out.into())?;
            if out != want {
                o.fails.push((format!("SerialNumber comparison {out} differs from RFC 1982 ({want})"), String::new()));
            }
            Some(o)
        }
        ["sadd", a, b2] => {
            let (x, y): (u32, u32) = (a.parse().ok()?, b2.parse().ok()?);
            let got = (SerialNumber::new(x) + SerialNumber::from(y)).get();
            let mut o = simple(format!("sadd {x} {y}"), got.to_string())?;
            if got != x.wrapping_add(y) {
                o.fails.push(("SerialNumber addition is not addition modulo 2^32 (RFC 1982 §3.1)".into(), String::new()));
            }
            Some(o)
        }
        ["sx", kind, key, sg, recs @ ..] => {
            // implementation only: edge paths of DnssecDnsHandle::send around a correctly signed answer —
            //   update   a non-Query opcode is passed through unvalidated: nothing may come back marked Secure
            //   noquery  a request without a question is refused
            //   depth0   max_request_depth = 0: the nested DNSKEY lookup is refused ("exceeded max validation
            //            depth") → the answer is Bogus, never Secure, and nothing is cached
            let k = K::parse(key)?;
            let s = S::parse(sg)?;
            let recs_n: Vec<Rec> = recs.iter().map(|r| Rec::parse(r)).collect::<Option<Vec<_>>>()?;
            let records: Vec<Record> = recs_n.iter().map(|r| r.to_record()).collect::<Option<Vec<_>>>()?;
            let first = recs_n.first()?;
            let name_h = first.name.to_name()?;
            let ty = first.rtype;
            let mut ta = TrustAnchors::empty();
            ta.insert(&PublicKeyBuf::new(k.pk.clone(), Algorithm::from_u8(k.alg)));
            let up = Upstream { script: Arc::new(Mutex::new(Script::default())), dnskey_queries: Arc::new(AtomicUsize::new(0)), other_queries: Arc::new(AtomicUsize::new(0)) };
            {
                let mut sc = up.script.lock().unwrap();
                let mut ans = records.clone();
                ans.push(s.to_record()?);
                sc.answers.insert((name_tok(&name_h.to_lowercase()), ty), ans);
                sc.answers.insert((name_tok(&s.signer.to_name()?.to_lowercase()), 48), vec![k.to_record()?]);
            }
            let ta = Arc::new(ta);
            let handle = DnssecDnsHandle::with_trust_anchor(up.clone(), ta.clone());
            CLOCK.store(s.inc.wrapping_add(1) as u64, AtOrd::SeqCst);
            let rt = tokio::runtime::Builder::new_current_thread().enable_all().build().ok()?;
            let mut opts = DnsRequestOptions::default();
            let query = Query::new(name_h.clone(), RecordType::from(ty));
            let mut req = DnsRequest::from_query(query.clone(), opts);
            match *kind {
                "update" => req.op_code = hickory_proto::op::OpCode::Update,
                "noquery" => req.queries.clear(),
                "depth0" => {
                    opts.max_request_depth = 0;
                    req = DnsRequest::from_query(query.clone(), opts);
                }
                "plain" => {}
                _ => return None,
            }
            let mut fails = vec![];
            let mut outcome = Vec::new();
            for round in 0..2 {
                let h2 = handle.clone();
                let rq = req.clone();
                let res = rt.block_on(async move { h2.send(rq).first_answer().await });
                let secure = match &res {
                    Ok(r) => r.answers.iter().any(|a| a.proof == Proof::Secure),
                    Err(NetError::Dns(DnsError::Nsec { response, .. })) => response.answers.iter().any(|a| a.proof == Proof::Secure),
                    Err(_) => false,
                };
                outcome.push(match (&res, secure) {
                    (Err(_), _) => "err",
                    (Ok(_), true) => "secure",
                    (Ok(_), false) => "not-secure",
                });
                match *kind {
                    "plain" => {}
                    "noquery" => {
                        if res.is_ok() {
                            fails.push(("a request without a question was answered".into(), String::new()));
                        }
                    }
                    _ => {
                        if secure {
                            fails.push((format!("send edge path `{kind}` (round {round}) returned records marked Secure"), String::new()));
                        }
                    }
                }
            }
            // after the refused nested lookups nothing must have been cached: the same handle validates normally
            if *kind == "depth0" {
                let h2 = handle.clone();
                let rq = DnsRequest::from_query(query.clone(), DnsRequestOptions::default());
                let res = rt.block_on(async move { h2.send(rq).first_answer().await });
                let secure = res.as_ref().map(|r| r.answers.iter().any(|a| a.proof == Proof::Secure)).unwrap_or(false);
                outcome.push(if secure { "then-secure" } else { "then-not-secure" });
                // what a handle without any history says about this answer (e.g. a DS RRset signed by its own owner is
                // never Secure)
                let fresh_handle = DnssecDnsHandle::with_trust_anchor(up.clone(), ta.clone());
                let rq = DnsRequest::from_query(query.clone(), DnsRequestOptions::default());
                let res = rt.block_on(async move { fresh_handle.send(rq).first_answer().await });
                let expected = res.as_ref().map(|r| r.answers.iter().any(|a| a.proof == Proof::Secure)).unwrap_or(false);
                if !secure && expected {
                    fails.push(("a Net error of the DNSKEY lookup was cached: the correctly signed answer is not Secure afterwards on the same handle".into(), String::new()));
                }
            }
            let line = format!("sx {kind} {} {}{}", k.tok(), s.tok(), recs_n.iter().map(|r| format!(" {}", r.tok().unwrap_or_default())).collect::<String>());
            Some(Out { line, out: "~".into(), fails, stats: vec![format!("sx.{kind}.{}", outcome.join("+"))], nontrivial: true })
        }
        ["tag", h] => {
            let b = unhex(h)?;
            let got = DNSKEY::calculate_key_tag_internal(&b);
            let mut o = simple(format!("tag {}", hex(&b)), got.to_string())?;
            if got != ref_key_tag(&b) {
                o.fails.push(("key tag differs from RFC 4034 Appendix B".into(), String::new()));
            }
            // the flag accessors the validator and the signer consult (RFC 4034 §2.1.1, RFC 5011 §3), and the
            // constructor from the three booleans
            if b.len() >= 4 {
                let flags = u16::from_be_bytes([b[0], b[1]]);
                let pk = PublicKeyBuf::new(b[4..].to_vec(), Algorithm::from_u8(b[3]));
                let k = DNSKEY::with_flags(flags, pk.clone());
                let (z, sep, rev) = (flags & 0x0100 != 0, flags & 0x0001 != 0, flags & 0x0080 != 0);
                if (k.zone_key(), k.secure_entry_point(), k.revoke()) != (z, sep, rev) || k.is_key_signing_key() != (z && sep && !rev) || k.flags() != flags {
                    o.fails.push((format!("DNSKEY flag accessors disagree with the flags field {flags:#06x}"), String::new()));
                }
                let k2 = DNSKEY::new(z, sep, rev, pk);
                if k2.flags() != flags & 0x0181 || (k2.zone_key(), k2.secure_entry_point(), k2.revoke()) != (z, sep, rev) {
                    o.fails.push((format!("DNSKEY::new({z}, {sep}, {rev}) has flags {:#06x}", k2.flags()), String::new()));
                }
            }
            Some(o)
        }
        ["attl", exp, ottl, rttl, now] => {
            let (exp, ottl, rttl, now): (u32, u32, u32, u32) = (exp.parse().ok()?, ottl.parse().ok()?, rttl.parse().ok()?, now.parse().ok()?);
            let s = S { owner: c05::nm("a."), cls: 1, ttl: 0, tc: 1, alg: 13, labels: 1, ottl, exp, inc: 0, tag: 0, signer: c05::nm("a."), sig: vec![] };
            let rrsig = RRSIG::from_sig(s.input()?, vec![]);
            let r = Record::from_rdata(Name::root(), rttl, RData::A(hickory_proto::rr::rdata::A::new(1, 2, 3, 4)));
            let got = rrsig.authenticated_ttl(&r, now);
            simple(format!("attl {exp} {ottl} {rttl} {now}"), got.to_string())
        }
        ["vkp", rest @ ..] => {
            // implementation only: a `vk` line of the unsupported-algorithm family (DNSKEY and RRSIG name the same
            // unsupported algorithm, everything else fits): never Secure, never a panic
            let mut v: Vec<&str> = vec!["vk"];
            v.extend_from_slice(rest);
            let mut o = exec_inner(&v)?;
            if o.out.starts_with("ok S") {
                o.fails.push(("Secure with a key of an unsupported algorithm".into(), String::new()));
            }
            o.stats.push(format!("vkp.{}", o.out.split(' ').take(2).collect::<Vec<_>>().join("-")));
            o.line = format!("vkp {}", o.line.strip_prefix("vk ")?);
            o.out = "~".into();
            Some(o)
        }
        ["vkx", expect, rest @ ..] => {
            // an external vector (tools/gen_rsa_vectors.py): a `vk` line whose verdict must be Secure (EXPECT = OK)
            let mut v: Vec<&str> = vec!["vk"];
            v.extend_from_slice(rest);
            let mut o = exec_inner(&v)?;
            let secure = o.out.starts_with("ok S");
            o.stats.push(format!("vkx.{}.{}", expect, if secure { "secure" } else { "rejected" }));
            if *expect == "OK" && !secure {
                o.fails.push(("a genuine third-party (openssl) signature over the reference signed data is not accepted (Secure expected)".into(), String::new()));
            }
            o.line = format!("vkx {expect} {}", o.line.strip_prefix("vk ")?);
            Some(o)
        }
        ["vk", now, kp, key, sg, name, ty, _orc, recs @ ..] => {
            let now: u32 = now.parse().ok()?;
            let kproof = parse_proof(kp)?;
            let k = K::parse(key)?;
            let s = S::parse(sg)?;
            let name_n = N::parse(name)?;
            let ty: u16 = ty.parse().ok()?;
            let recs_n: Vec<Rec> = recs.iter().map(|r| Rec::parse(r)).collect::<Option<Vec<_>>>()?;
            let mut records: Vec<Record> = recs_n.iter().map(|r| r.to_record()).collect::<Option<Vec<_>>>()?;
            let name_h = name_n.to_name()?;
            let krec = k.to_record()?;
            let srec = s.to_record()?;
            let orc = oracle_tok(&k, &s, &name_n, &records);
            let line = format!(
                "vk {now} {kp} {} {} {} {ty} {orc}{}",
                k.tok(),
                s.tok(),
                name_n.tok(),
                recs_n.iter().map(|r| format!(" {}", r.tok().unwrap_or_default())).collect::<String>()
            );
            let kref = krec.try_borrow::<DNSKEY>()?;
            let sref = srec.try_borrow::<RRSIG>()?;
            let got = verify_rrset_with_dnskey(kref, kproof, &sref, &name_h, RecordType::from(ty), &mut records, now);
            let out = match &got {
                Ok((p, ttl)) => format!("ok {} {}", proof_tok(*p), ttl.map(|t| t.to_string()).unwrap_or("none".into())),
                Err(p) => format!("err {}", proof_tok(*p)),
            };
            let bad = indep_check(now, kproof, &k, &s, &name_n, ty, &recs_n);
            let mut fails = vec![];
            let mut stats = vec![];
            let secure = matches!(got, Ok((Proof::Secure, _)));
            if secure {
                if !bad.is_empty() {
                    fails.push((format!("Secure although: {}", bad.join(", ")), String::new()));
                }
                match got {
                    Ok((_, Some(ttl))) => {
                        if let Some(w) = ttl_excess(now, &s, ttl) {
                            fails.push((format!("Secure with {w} (ttl {ttl})"), String::new()));
                        }
                        if recs_n.first().map(|r| ttl > r.ttl).unwrap_or(false) {
                            fails.push(("Secure with a TTL above the received record TTL".into(), String::new()));
                        }
                    }
                    _ => fails.push(("Secure without an authenticated TTL".into(), String::new())),
                }
            }
            stats.push(format!("vk.verdict.{}", if secure { "secure" } else { "rejected" }));
            stats.push(format!(
                "vk.oracle.{}",
                match bad.len() {
                    0 => "all-conditions-hold".to_string(),
                    1 => format!("only-{}-fails", bad[0]),
                    _ => "several-fail".to_string(),
                }
            ));
            if bad.is_empty() && !secure {
                stats.push("vk.valid-but-rejected (allowed: 'only if')".into());
            }
            Some(Out { line, out, fails, stats, nontrivial: secure || bad.len() == 1 })
        }
        ["begin", cfg @ ..] => {
            let mut up = Upstream { script: Arc::new(Mutex::new(Script::default())), dnskey_queries: Arc::new(AtomicUsize::new(0)), other_queries: Arc::new(AtomicUsize::new(0)) };
            up.dnskey_queries = Arc::new(AtomicUsize::new(0));
            // trust anchors of the block: `ta=ALG:PUBKEYHEX,…` (every key the block serves)
            let mut ta = TrustAnchors::empty();
            for c in cfg {
                if let Some(list) = c.strip_prefix("ta=") {
                    for e in list.split(',') {
                        let (alg, pk) = e.split_once(':')?;
                        ta.insert(&PublicKeyBuf::new(unhex(pk)?, Algorithm::from_u8(alg.parse().ok()?)));
                    }
                }
            }
            let mut handle = DnssecDnsHandle::with_trust_anchor(up.clone(), Arc::new(ta));
            for c in cfg {
                if c.starts_with("ta=") {
                    continue;
                }
                let (k, v) = c.split_once('=')?;
                let (lo, hi) = v.split_once(':')?;
                let range = Duration::from_secs(lo.parse().ok()?)..=Duration::from_secs(hi.parse().ok()?);
                handle = match k {
                    "pos" => handle.positive_validation_ttl(range),
                    "neg" => handle.negative_validation_ttl(range),
                    _ => return None,
                };
            }
            let rt = tokio::runtime::Builder::new_current_thread().enable_all().build().ok()?;
            HIST.with(|h| *h.borrow_mut() = Some(Hist { rt, handle, up, memory: HashMap::new(), last_inst: 0 }));
            let mut line = "begin".to_string();
            for c in cfg {
                line.push(' ');
                line.push_str(c);
            }
            Some(Out { line, out: "begin".into(), fails: vec![], stats: vec![], nontrivial: false })
        }
        ["end"] => {
            HIST.with(|h| *h.borrow_mut() = None);
            Some(Out { line: "end".into(), out: "end".into(), fails: vec![], stats: vec![], nontrivial: false })
        }
        ["h", now, inst, _ck, keys, sg, name, ty, _orcs, recs @ ..] => {
            // CLOCK: the u64 wall clock `Time::current_time()` returns; the validator uses `as u32`
            let clock: u64 = now.parse().ok()?;
            let now: u32 = clock as u32;
            let inst: u64 = inst.parse().ok()?;
            // KEYS = `!`: every DNSKEY lookup of this request fails upstream
            let net_error = *keys == "!";
            let ks: Vec<K> = if *keys == "-" || net_error {
                vec![]
            } else {
                keys.split('|')
                    .map(|k| {
                        let f: Vec<&str> = k.split(';').collect();
                        K::parse_fields(&f[..f.len().min(4)])
                    })
                    .collect::<Option<Vec<_>>>()?
            };
            // all RRSIGs of the RRset, in message order
            let sigs: Vec<S> = sg.split('|').map(S::parse).collect::<Option<Vec<_>>>()?;
            let name_n = N::parse(name)?;
            let ty: u16 = ty.parse().ok()?;
            let recs_n: Vec<Rec> = recs.iter().map(|r| Rec::parse(r)).collect::<Option<Vec<_>>>()?;
            let records: Vec<Record> = recs_n.iter().map(|r| r.to_record()).collect::<Option<Vec<_>>>()?;
            let srecs: Vec<Record> = sigs.iter().map(|s| s.to_record()).collect::<Option<Vec<_>>>()?;
            let name_h = name_n.to_name()?;
            // the original query: the RRset's own name and type, or (`hq`) a DNSKEY query whose response also
            // carries this RRset
            let orig_n: Option<N> = match orig {
                Some(q) => Some(N::parse(q)?),
                None => None,
            };
            let query = match &orig_n {
                Some(q) => Query::new(q.to_name()?, RecordType::DNSKEY),
                None => Query::new(name_h.clone(), RecordType::from(ty)),
            };
            let ck = hex(&cache_key_stream(&query, &name_h, RecordType::from(ty), &records, &srecs));
            let orcs = if ks.is_empty() {
                "-".to_string()
            } else {
                sigs.iter().map(|s| ks.iter().map(|k| oracle_tok(k, s, &name_n, &records)).collect::<Vec<_>>().join("|")).collect::<Vec<_>>().join(",")
            };
            let keys_tok = if net_error { "!".to_string() } else if ks.is_empty() { "-".to_string() } else { ks.iter().map(|k| format!("{};S", k.tok())).collect::<Vec<_>>().join("|") };
            let line = format!(
                "{} {clock} {inst} {ck} {keys_tok} {} {} {ty} {orcs}{}",
                match &orig_n {
                    Some(q) => format!("hq {}", q.tok()),
                    None => "h".to_string(),
                },
                sigs.iter().map(|s| s.tok()).collect::<Vec<_>>().join("|"),
                name_n.tok(),
                recs_n.iter().map(|r| format!(" {}", r.tok().unwrap_or_default())).collect::<String>()
            );
            // the RRSIGs for which verify_default_rrset makes a DNSKEY lookup at all (own computation)
            let is_candidate = |i: usize, s: &S| {
                let signer_l = s.signer.lower_labels();
                let owner_l = name_n.lower_labels();
                let in_zone = signer_l.len() <= owner_l.len() && signer_l.iter().rev().zip(owner_l.iter().rev()).all(|(a, b2)| a == b2);
                let ds_self = ty == 43 && !owner_l.is_empty() && signer_l == owner_l && s.signer.fqdn == name_n.fqdn;
                // "Break verification cycle": the DNSKEY query for this signer is the original query again
                let cycle = orig_n.as_ref().map(|q| same_name_ci(q, &s.signer)).unwrap_or(false);
                in_zone && !ds_self && i <= 8 && !cycle
            };
            // select_ok: a candidate whose DNSKEY lookup ends in an error (upstream failure, or no DNSKEY at the
            // signer's name in the response) passes the turn to the next one
            let lookup_fails = |s: &S| net_error || !ks.iter().any(|k| same_name_ci(&k.owner, &s.signer));
            let first_cand: Option<usize> = sigs
                .iter()
                .enumerate()
                .find(|(i, s)| is_candidate(*i, s) && !lookup_fails(s))
                .or_else(|| sigs.iter().enumerate().find(|(i, s)| is_candidate(*i, s)))
                .map(|(i, _)| i);
            HIST.with(|hcell| {
                let mut hb = hcell.borrow_mut();
                let h = hb.as_mut()?;
                if inst > h.last_inst {
                    // the cache runs on `Instant::now()`: let real time pass
                    std::thread::sleep(Duration::from_millis((inst - h.last_inst) * 1000 + 150));
                    h.last_inst = inst;
                }
                CLOCK.store(clock, AtOrd::SeqCst);
                {
                    let mut sc = h.up.script.lock().unwrap();
                    sc.answers.clear();
                    let mut ans = records.clone();
                    ans.extend(srecs.iter().cloned());
                    sc.answers.insert((name_tok(&name_h.to_lowercase()), ty), ans);
                    // every signer's DNSKEY query is answered with all served keys (the validator only looks at
                    // the keys owned by the signer)
                    for s in &sigs {
                        let signer = s.signer.to_name()?;
                        sc.answers.insert((name_tok(&signer.to_lowercase()), 48), ks.iter().map(|k| k.to_record()).collect::<Option<Vec<_>>>()?);
                    }
                    if let Some(q) = &orig_n {
                        // the response to the original DNSKEY query: the keys at that name, then the RRset and its RRSIGs
                        let mut full: Vec<Record> = ks.iter().filter(|k| same_name_ci(&k.owner, q)).map(|k| k.to_record()).collect::<Option<Vec<_>>>()?;
                        full.extend(sc.answers.remove(&(name_tok(&name_h.to_lowercase()), ty)).unwrap_or_default());
                        sc.answers.insert((name_tok(&q.to_name()?.to_lowercase()), 48), full);
                    }
                }
                h.up.dnskey_queries.store(0, AtOrd::SeqCst);
                FAIL_DNSKEY.store(net_error, AtOrd::SeqCst);
                let req = DnsRequest::from_query(query.clone(), DnsRequestOptions::default());
                let handle = h.handle.clone();
                let res = h.rt.block_on(async move { handle.send(req).first_answer().await });
                FAIL_DNSKEY.store(false, AtOrd::SeqCst);
                // (the original query of an `hq` step is itself a DNSKEY query)
                let fresh = h.up.dnskey_queries.load(AtOrd::SeqCst) > orig_n.is_some() as usize;
                let msg: Message = match res {
                    Ok(r) => r.into_message(),
                    Err(NetError::Dns(DnsError::Nsec { response, .. })) => response.into_message(),
                    Err(e) => {
                        return Some(Out { line: line.clone(), out: format!("err {}", e.to_string().chars().take(40).collect::<String>().replace(' ', "_")), fails: vec![("send failed".into(), String::new())], stats: vec![], nontrivial: false });
                    }
                };
                let mut proofs = vec![];
                let mut ttls = vec![];
                let mut sig_outs: Vec<String> = vec![];
                let mut marked: Vec<usize> = vec![];
                for a in &msg.answers {
                    if a.record_type() == RecordType::RRSIG {
                        if a.proof == Proof::Secure {
                            marked.push(sig_outs.len());
                        }
                        sig_outs.push(format!("{} {}", proof_tok(a.proof), a.ttl));
                    } else if orig_n.is_some() && a.record_type() == RecordType::DNSKEY {
                        // the DNSKEY RRset the original query asked for (verify_dnskey_rrset: C07)
                    } else {
                        proofs.push(a.proof);
                        ttls.push(a.ttl);
                    }
                }
                let sig_out = sig_outs.join(" ");
                let p0 = proofs.first().copied().unwrap_or(Proof::Indeterminate);
                // the model-side flags are about the first candidate RRSIG; the oracle below is about the RRSIG that
                // was handed the Secure proof
                let s: S = sigs[first_cand.unwrap_or(0)].clone();
                // class flag `validation-cache-outlives-signature`, computed here and by the Lean predicate
                let dev = !fresh
                    && p0 == Proof::Secure
                    && (!in_window(now, &s) || ttls.first().map(|t| *t > s.exp.wrapping_sub(now)).unwrap_or(false));
                // class flag `validation-cache-key-folds-rdata-case`: served from an entry whose fresh
                // validation had the same RRSIG but other canonical RDATA
                let canon_now: Vec<Option<Vec<u8>>> = recs_n.iter().map(|r| r.rd.ref_canon()).collect();
                let dev2 = !fresh && p0 == Proof::Secure && h.memory.get(&ck).map(|fi| fi.sig == s && fi.canon != canon_now).unwrap_or(false);
                // no candidate RRSIG (207ce2a, 4f49cf9, RRSIG cap): no DNSKEY lookup, fresh/cached cannot be told apart
                let nolookup = first_cand.is_none();
                let out = format!(
                    "{} {} {} sig {sig_out} dev={}{}",
                    if nolookup { "nolookup" } else if fresh { "fresh" } else { "cached" },
                    if proofs.is_empty() { "-" } else { proof_tok(p0) },
                    ttls.iter().map(|t| t.to_string()).collect::<Vec<_>>().join(" "),
                    b(dev),
                    b(dev2)
                );
                let mut fails = vec![];
                let mut stats = vec![format!("h.{}.{}", if fresh { "fresh" } else { "cached" }, proof_tok(p0))];
                if proofs.iter().any(|p| *p != p0) {
                    fails.push(("records of one RRset left with different proofs".into(), String::new()));
                }
                stats.push(format!("h.rrsigs.{}", sigs.len().min(5)));
                // the RRSIG that was handed the Secure proof is the one every demand below is about
                if p0 == Proof::Secure && marked.len() != 1 {
                    fails.push((format!("Secure RRset with {} RRSIG records marked Secure (exactly the verifying one expected)", marked.len()), String::new()));
                }
                if p0 != Proof::Secure && !marked.is_empty() {
                    fails.push(("an RRSIG record is marked Secure although the RRset is not".into(), String::new()));
                }
                let s: S = marked.first().map(|j| sigs[*j].clone()).unwrap_or(s);
                if sigs.len() > 1 {
                    if let Some(j) = marked.first() {
                        stats.push(format!("h.multi.verifying-rrsig-at-{}-of-{}", j, sigs.len().min(5)));
                    }
                }
                // independent oracle
                let bad_now: Vec<&str> = {
                    // any served key may be the right one
                    let mut best: Option<Vec<&str>> = None;
                    for k in &ks {
                        let b = indep_check(now, Proof::Secure, k, &s, &name_n, ty, &recs_n);
                        if best.as_ref().map(|x| b.len() < x.len()).unwrap_or(true) {
                            best = Some(b);
                        }
                    }
                    best.unwrap_or(vec!["no-key"])
                };
                let refc = s.ref_case(&name_n, s.cls, &recs_n);
                let raw_lower: Vec<Vec<u8>> = recs_n.iter().map(|r| r.rd.ref_canon().unwrap_or_default().to_ascii_lowercase()).collect();
                if fresh {
                    h.memory.insert(ck.clone(), FreshInfo { validated_at: now, canon: recs_n.iter().map(|r| r.rd.ref_canon()).collect(), indep_ok: bad_now.is_empty(), sig: s.clone(), ref_bytes: refc.ref_signed_data(), raw_lower: raw_lower.clone() });
                }
                if p0 == Proof::Secure {
                    if fresh {
                        if !bad_now.is_empty() {
                            fails.push((format!("fresh validation Secure although: {}", bad_now.join(", ")), String::new()));
                        }
                        for t in &ttls {
                            if let Some(w) = ttl_excess(now, &s, *t) {
                                fails.push((format!("fresh validation Secure with {w}"), String::new()));
                            }
                        }
                    } else {
                        match h.memory.get(&ck) {
                            None => fails.push(("cached Secure verdict without a fresh validation of that key in this history".into(), String::new())),
                            Some(fi) => {
                                let same_signed = fi.sig.sig == s.sig && fi.ref_bytes.is_some() && fi.ref_bytes == refc.ref_signed_data();
                                if !fi.indep_ok {
                                    fails.push(("cached Secure verdict whose fresh validation should not have been Secure".into(), String::new()));
                                } else if !same_signed {
                                    let case_only = fi.sig == s && fi.raw_lower == raw_lower;
                                    stats.push(format!("h.deviation.{}", if case_only { "validation-cache-key-folds-rdata-case" } else { "other-content" }));
                                    fails.push((
                                        format!(
                                            "Secure from the validation cache for an RRset whose signed RDATA differs from the validated one{}",
                                            if case_only { " in letter case only (regression of /repo a831deb: the cache key must hash the exact RDATA)" } else { "" }
                                        ),
                                        String::new(),
                                    ));
                                } else {
                                    let mut why = vec![];
                                    if !in_window(now, &s) {
                                        why.push("validator clock outside [inception, expiration]".to_string());
                                    }
                                    for t in &ttls {
                                        if let Some(w) = ttl_excess(now, &s, *t) {
                                            why.push(format!("{w} (ttl {t}, remaining {})", s.exp.wrapping_sub(now)));
                                            break;
                                        }
                                    }
                                    if !why.is_empty() {
                                        stats.push("h.deviation.validation-cache-outlives-signature".into());
                                        fails.push((format!("Secure from the validation cache: {} (regression of /repo 411522f: the cache must not outlive the signature)", why.join("; ")), String::new()));
                                    }
                                }
                            }
                        }
                    }
                }
                Some(Out { line: line.clone(), out, fails, stats, nontrivial: p0 == Proof::Secure || !fresh })
            })
        }
        ["dk", now, anchors, keys, sg] => {
            // implementation only: a DNSKEY query for the root zone through DnssecDnsHandle::send
            // (verify_dnskey_rrset: trust anchors, no DS for the root, RRSIG over the DNSKEY RRset)
            let clock: u64 = now.parse().ok()?;
            let now: u32 = clock as u32;
            let ks: Vec<K> = keys.split('|').map(K::parse).collect::<Option<Vec<_>>>()?;
            let anchor_idx: Vec<usize> = if *anchors == "-" { vec![] } else { anchors.split(',').map(|x| x.parse().ok()).collect::<Option<Vec<_>>>()? };
            let s = S::parse(sg)?;
            let root = N { labels: vec![], fqdn: true };
            let recs_n: Vec<Rec> = ks.iter().map(|k| Rec { name: k.owner.clone(), rtype: 48, cls: 1, ttl: s.ttl, rd: RD::Op(k.rdata()) }).collect();
            let mut ta = TrustAnchors::empty();
            for i in &anchor_idx {
                let k = ks.get(*i)?;
                ta.insert(&PublicKeyBuf::new(k.pk.clone(), Algorithm::from_u8(k.alg)));
            }
            let up = Upstream { script: Arc::new(Mutex::new(Script::default())), dnskey_queries: Arc::new(AtomicUsize::new(0)), other_queries: Arc::new(AtomicUsize::new(0)) };
            {
                let mut sc = up.script.lock().unwrap();
                let mut ans: Vec<Record> = ks
                    .iter()
                    .map(|k| {
                        let mut r = k.to_record()?;
                        r.ttl = s.ttl;
                        Some(r)
                    })
                    .collect::<Option<Vec<_>>>()?;
                ans.push(s.to_record()?);
                sc.answers.insert((name_tok(&Name::root()), 48), ans);
            }
            let handle = DnssecDnsHandle::with_trust_anchor(up.clone(), Arc::new(ta));
            CLOCK.store(clock, AtOrd::SeqCst);
            let rt = tokio::runtime::Builder::new_current_thread().enable_all().build().ok()?;
            let req = DnsRequest::from_query(Query::new(Name::root(), RecordType::DNSKEY), DnsRequestOptions::default());
            let res = rt.block_on(async move { handle.send(req).first_answer().await });
            let msg: Option<Message> = match res {
                Ok(r) => Some(r.into_message()),
                Err(NetError::Dns(DnsError::Nsec { response, .. })) => Some(response.into_message()),
                Err(_) => None,
            };
            let secure = msg.as_ref().map(|m| m.answers.iter().any(|a| a.record_type() == RecordType::DNSKEY && a.proof == Proof::Secure)).unwrap_or(false);
            // acceptable only through a trust-anchored key of the set that is an acceptable signer of the set
            let mut best: Option<Vec<&str>> = None;
            for (i, k) in ks.iter().enumerate() {
                let mut bad = indep_check(now, Proof::Secure, k, &s, &root, 48, &recs_n);
                if !anchor_idx.contains(&i) {
                    bad.push("not-a-trust-anchor");
                }
                if best.as_ref().map(|x| bad.len() < x.len()).unwrap_or(true) {
                    best = Some(bad);
                }
            }
            let bad = best.unwrap_or(vec!["no-key"]);
            let all_anchors = !ks.is_empty() && (0..ks.len()).all(|i| anchor_idx.contains(&i));
            let mut fails = vec![];
            if secure && !bad.is_empty() && !all_anchors {
                fails.push((format!("DNSKEY RRset Secure although no trust-anchored key of the set is an acceptable signer of it: {}", bad.join(", ")), String::new()));
            }
            let signer_flags = ks.iter().find(|k| ref_key_tag(&k.rdata()) == s.tag).map(|k| k.flags.to_string()).unwrap_or("none".into());
            let stats = vec![format!("dk.{}.signer-flags-{}{}", if secure { "secure" } else { "rejected" }, signer_flags, if bad.is_empty() { ".acceptable" } else { "" })];
            Some(Out { line: format!("dk {clock} {anchors} {} {}", ks.iter().map(|k| k.tok()).collect::<Vec<_>>().join("|"), s.tok()), out: "~".into(), fails, stats, nontrivial: secure || bad.len() == 1 })
        }
        _ => None,
    }
}

/// a `dk` line: the root zone's DNSKEY RRset {KSK with `flags` (trust anchor, signs the set), a ZSK that is
/// not a trust anchor}, the RRSIG naming the KSK; optionally one more mutation of the RRSIG
fn gen_dk(r: &mut Rng, flags: u16) -> Option<String> {
    let n = c05::sign_keys().len();
    let ki = r.below(n as u64) as usize;
    let zi = (ki + 1 + r.below(n as u64 - 1) as usize) % n;
    let root = N { labels: vec![], fqdn: true };
    let mut ksk = real_key(ki);
    ksk.owner = root.clone();
    ksk.flags = flags;
    let mut zsk = real_key(zi);
    zsk.owner = root.clone();
    zsk.flags = 256;
    let ttl = *r.pick(&[300u32, 3600, 172800]);
    let keys = if r.chance(1, 2) { vec![ksk.clone(), zsk] } else { vec![zsk, ksk.clone()] };
    let recs: Vec<Rec> = keys.iter().map(|k| Rec { name: root.clone(), rtype: 48, cls: 1, ttl, rd: RD::Op(k.rdata()) }).collect();
    let inc = 1_700_000_000u32;
    let mut s = S { owner: root.clone(), cls: 1, ttl, tc: 48, alg: ksk.alg, labels: 0, ottl: ttl, exp: inc + 86400, inc, tag: ref_key_tag(&ksk.rdata()), signer: root.clone(), sig: vec![] };
    let bytes = s.ref_case(&root, 1, &recs).ref_signed_data()?;
    s.sig = sign_with(ki, &bytes);
    let mut now = inc + 10;
    match r.below(8) {
        0 => flip_bit(&mut s.sig, r),
        1 => now = inc + 86401,
        _ => {}
    }
    let ai = keys.iter().position(|k| k.pk == ksk.pk)?;
    // the wall clock is a u64: the same second of the u32 clock, one or several wraps later
    let now = now as u64 + *r.pick(&[0u64, 0, 1 << 32, 1 << 33, 5 << 32]);
    Some(format!("dk {now} {ai} {} {}", keys.iter().map(|k| k.tok()).collect::<Vec<_>>().join("|"), s.tok()))
}

// ------------------------------------------------------------------ generator

struct Base {
    ki: usize,
    k: K,
    s: S,
    name: N,
    ty: u16,
    recs: Vec<Rec>,
    now: u32,
}

/// key flags: zone key (256), zone key + SEP (257), the same with REVOKE (384, 385), not a zone key (0, 1)
const KEY_FLAGS: &[u16] = &[256, 257, 384, 385, 0, 1, 128];

fn gen_base(r: &mut Rng) -> Base {
    gen_base_with(r, false)
}

/// `plain`: a valid, acceptable base (zone key, not revoked) — for the histories that need a Secure start
fn gen_base_with(r: &mut Rng, plain: bool) -> Base {
    gen_base_full(r, plain, None)
}

fn gen_base_full(r: &mut Rng, plain: bool, forced_type: Option<u16>) -> Base {
    let ki = r.below(c05::sign_keys().len() as u64) as usize;
    let mut zone = c05::lower_n(&c05::gen_n(r));
    zone.fqdn = true;
    if zone.labels.is_empty() {
        zone.labels.push(b"example".to_vec());
    }
    let mut name = zone.clone();
    if r.chance(2, 3) {
        name.labels.insert(0, r.pick(&[&b"www"[..], b"Mail", b"a", b"_sip"]).to_vec());
    }
    let ty = forced_type.unwrap_or(*r.pick(&[1u16, 1, 2, 15, 16, 28, 33, 5, 6, 12, 43, 52, 47, 48, 48, 64, 65, 65305, 35]));
    if ty == 48 {
        // the zone's own DNSKEY RRset (self-signature)
        name = zone.clone();
    }
    let mut k = real_key(ki);
    k.owner = c05::flip_case(r, &zone, 20);
    // the key that signs: usually acceptable, otherwise revoked / not a zone key — with the RRSIG naming
    // exactly this key (tag computed over these flags), so that only the flag tests stand in the way
    k.flags = if plain || r.chance(3, 5) { *r.pick(&[257u16, 256]) } else { *r.pick(KEY_FLAGS) };
    let clean = r.chance(1, 2);
    let pool = c05::name_pool(r);
    let n = if ty == 5 || ty == 6 { 1 } else { r.range(1, 3) as usize };
    let ttl = *r.pick(&[0u32, 30, 300, 3600, 86400]);
    let mut recs: Vec<Rec> = vec![];
    let mut tries = 0;
    while recs.len() < n && tries < 20 {
        tries += 1;
        let rd = if ty == 48 && recs.is_empty() {
            RD::Op(k.rdata())
        } else {
            // mixed-case embedded names for every name-bearing type (half of the cases)
            c05::gen_rd(r, ty, &pool, clean)
        };
        if matches!(rd, RD::Txt(ref ss) if ss.iter().any(|s| s.len() > 255)) || recs.iter().any(|x| x.rd.ref_canon() == rd.ref_canon()) {
            continue;
        }
        recs.push(Rec { name: name.clone(), rtype: ty, cls: 1, ttl, rd });
    }
    let inc = *r.pick(&[1_700_000_000u32, 0xFFFF_FF00, 0x7FFF_FF00, 0, 5, 0xFFFF_FFFF, 0x8000_0000]);
    let dur = *r.pick(&[0u32, 1, 10, 3600, 86400 * 30, 0x7FFF_FFFF, 0x7FFF_FFFE]);
    let exp = inc.wrapping_add(dur);
    let now = inc.wrapping_add(if dur == 0 { 0 } else { r.below(dur as u64 + 1) as u32 });
    let mut s = S {
        owner: c05::flip_case(r, &name, 20),
        cls: 1,
        ttl,
        tc: ty,
        alg: k.alg,
        labels: name.labels.len() as u8,
        ottl: *r.pick(&[ttl, ttl, ttl.saturating_mul(2), 60, 0]),
        exp,
        inc,
        tag: ref_key_tag(&k.rdata()),
        signer: c05::flip_case(r, &zone, 20),
        sig: vec![],
    };
    // a generated first label may be `*`: the Labels field does not count it
    s.labels = s.ref_case(&name, 1, &recs).owner_label_count() as u8;
    let bytes = s.ref_case(&name, 1, &recs).ref_signed_data().expect("reference bytes");
    s.sig = sign_with(ki, &bytes);
    Base { ki, k, s, name, ty, recs, now }
}


/// An RRSIG whose Expiration lies *before* its Inception in serial arithmetic (an empty validity
/// period — also across the u32 wrap — or the undefined distance 2^31), re-signed, plus the clock
/// values around both timestamps.  Returns the clocks to try.
fn make_empty_window(b: &mut Base, r: &mut Rng) -> Vec<u32> {
    let inc = *r.pick(&[2_000_000u32, 1_700_000_000, 5, 0, 0xFFFF_FFF0, 0x8000_0000, 0x7FFF_FFFF]);
    let d = *r.pick(&[1u32, 10, 1_000_000, 0x7FFF_FFFF, 0x7FFF_FFFE, 0x8000_0000]);
    // d < 2^31: expiration d seconds before inception; d = 2^31: comparison undefined
    let exp = inc.wrapping_sub(d);
    b.s.inc = inc;
    b.s.exp = exp;
    let bytes = b.s.ref_case(&b.name, 1, &b.recs).ref_signed_data().expect("reference bytes");
    b.s.sig = sign_with(b.ki, &bytes);
    let mid = exp.wrapping_add(d / 2);
    vec![
        exp.wrapping_sub(1),
        exp,
        exp.wrapping_add(1),
        mid,
        inc.wrapping_sub(1),
        inc,
        inc.wrapping_add(1),
        inc.wrapping_add(3600),
        exp.wrapping_sub(3600),
        inc.wrapping_add(0x8000_0000),
        0,
        u32::MAX,
        r.next() as u32,
    ]
}

/// Injects 1–3 records with the RRset's owner and type but another class (CH, HS, NONE, ANY, unknown)
/// at the first / a middle / the last position; the signed IN records stay untouched.
fn inject_other_class(recs: &mut Vec<Rec>, r: &mut Rng) -> String {
    let n = r.range(1, 3) as usize;
    let mut where_ = vec![];
    for _ in 0..n {
        let mut x = r.pick(recs).clone();
        if r.chance(1, 2) {
            mutate_rd(&mut x.rd, r);
        }
        x.cls = *r.pick(&[3u16, 3, 4, 254, 255, 2, 7, 0, 65280]);
        let pos = match r.below(3) {
            0 => 0,
            1 => recs.len(),
            _ => r.below(recs.len() as u64 + 1) as usize,
        };
        where_.push(if pos == 0 { "first" } else if pos == recs.len() { "last" } else { "middle" });
        recs.insert(pos, x);
    }
    format!("rrset.inject-other-class.{}", where_.join("+"))
}

/// every RDATA type with an embedded domain name that the harness can build
const NAME_BEARING_TYPES: &[u16] = &[2, 5, 12, 15, 6, 33, 35, 47, 64, 65, 65305];

/// byte region of the embedded name of a case-preserving opaque type
fn name_region(ty: u16, raw: &[u8]) -> Option<(usize, usize)> {
    let st = match ty {
        64 | 65 => 2,
        65305 | 47 => 0,
        _ => return None,
    };
    let mut i = st;
    while i < raw.len() && raw[i] != 0 {
        i += raw[i] as usize + 1;
    }
    (i < raw.len()).then_some((st, i + 1 - st))
}

/// Changes only the letter case of the names embedded in the RDATA: `lower` = all lower case, else a
/// random (non-identical, if there is a letter) case flip.  Returns false if the RDATA has no letters in a name.
fn set_embedded_case(rd: &mut RD, ty: u16, lower: bool, r: &mut Rng) -> bool {
    fn bytes(v: &mut [u8], lower: bool, r: &mut Rng) -> bool {
        if !v.iter().any(|x| x.is_ascii_alphabetic()) {
            return false;
        }
        if lower {
            v.make_ascii_lowercase();
        } else {
            let before = v.to_vec();
            for x in v.iter_mut() {
                if x.is_ascii_alphabetic() && r.chance(1, 2) {
                    *x ^= 0x20;
                }
            }
            if v == &before[..] {
                let i = v.iter().position(|x| x.is_ascii_alphabetic()).unwrap();
                v[i] ^= 0x20;
            }
        }
        true
    }
    fn name(n: &mut N, lower: bool, r: &mut Rng) -> bool {
        let mut any = false;
        let mut flat: Vec<u8> = n.labels.concat();
        if bytes(&mut flat, lower, r) {
            any = true;
            let mut i = 0;
            for l in n.labels.iter_mut() {
                let k = l.len();
                l.copy_from_slice(&flat[i..i + k]);
                i += k;
            }
        }
        any
    }
    match rd {
        RD::Ns(n) | RD::Cname(n) | RD::Ptr(n) | RD::Mx(_, n) | RD::Srv(_, _, _, n) => name(n, lower, r),
        RD::Soa(m, rn, ..) => {
            let a = name(m, lower, r);
            let b2 = name(rn, lower, r);
            a || b2
        }
        RD::OpL(o, st, ln) => bytes(&mut o[*st..*st + *ln], lower, r),
        RD::Op(o) => match name_region(ty, o) {
            Some((st, ln)) => {
                // label length octets are below 64 and therefore never letters
                bytes(&mut o[st..st + ln], lower, r)
            }
            None => false,
        },
        _ => false,
    }
}

/// the octets of an RDATA that can be permuted / XOR-ed without making it unparsable
fn raw_octets_mut(rd: &mut RD) -> Option<&mut Vec<u8>> {
    match rd {
        RD::A(o) | RD::Aaaa(o) => Some(o),
        RD::Op(o) if o.len() >= 2 => Some(o),
        RD::Txt(ss) => ss.iter_mut().find(|s| s.len() >= 2),
        RD::Ns(n) | RD::Cname(n) | RD::Ptr(n) | RD::Mx(_, n) | RD::Srv(_, _, _, n) | RD::Soa(n, ..) => n.labels.iter_mut().find(|l| l.len() >= 2),
        _ => None,
    }
}

fn flip_bit(v: &mut [u8], r: &mut Rng) {
    if !v.is_empty() {
        let i = r.below(v.len() as u64) as usize;
        v[i] ^= 1 << r.below(8);
    }
}

fn mutate_name(n: &mut N, r: &mut Rng) -> &'static str {
    if n.labels.is_empty() {
        n.labels.push(b"x".to_vec());
        return "name.add-label";
    }
    match r.below(5) {
        0 => {
            let i = r.below(n.labels.len() as u64) as usize;
            flip_bit(&mut n.labels[i], r);
            "name.bit"
        }
        1 => {
            *n = c05::flip_case(r, n, 60);
            "name.case"
        }
        2 => {
            n.labels.remove(0);
            "name.drop-label"
        }
        3 => {
            n.labels.insert(0, b"x".to_vec());
            "name.add-label"
        }
        _ => {
            n.fqdn = !n.fqdn;
            "name.fqdn"
        }
    }
}

fn mutate_rd(rd: &mut RD, r: &mut Rng) -> &'static str {
    match rd {
        RD::A(o) | RD::Aaaa(o) => {
            flip_bit(o, r);
            "rdata.bit"
        }
        RD::Op(o) => {
            if o.is_empty() {
                o.push(1);
                "rdata.bit"
            } else if o.iter().any(|x| x.is_ascii_alphabetic()) && r.chance(1, 3) {
                // canonical form of these types is the wire form: a letter-case change is a signed change
                let before = o.clone();
                for x in o.iter_mut() {
                    if x.is_ascii_alphabetic() && r.chance(1, 2) {
                        *x ^= 0x20;
                    }
                }
                if *o == before {
                    let i = o.iter().position(|x| x.is_ascii_alphabetic()).unwrap();
                    o[i] ^= 0x20;
                }
                "rdata.letter-case (case-preserving type)"
            } else {
                flip_bit(o, r);
                "rdata.bit"
            }
        }
        RD::OpL(o, st, ln) => {
            if r.chance(1, 2) && o[*st..*st + *ln].iter().any(|x| x.is_ascii_alphabetic()) {
                // inside the lower-cased embedded name: the canonical form does not change
                for x in o[*st..*st + *ln].iter_mut() {
                    if x.is_ascii_alphabetic() && r.chance(1, 2) {
                        *x ^= 0x20;
                    }
                }
                "rdata.embedded-name-case (unsigned)"
            } else {
                let i = if *st > 0 { r.below(*st as u64) as usize } else { o.len() - 1 };
                o[i] ^= 1 << r.below(5);
                "rdata.bit"
            }
        }
        RD::Ns(n) | RD::Cname(n) | RD::Ptr(n) => mutate_name(n, r),
        RD::Mx(p, n) => {
            if r.chance(1, 2) {
                *p ^= 1 << r.below(16);
                "rdata.bit"
            } else {
                mutate_name(n, r)
            }
        }
        RD::Srv(a, b2, c, n) => match r.below(4) {
            0 => {
                *a ^= 1 << r.below(16);
                "rdata.bit"
            }
            1 => {
                *b2 ^= 1 << r.below(16);
                "rdata.bit"
            }
            2 => {
                *c ^= 1 << r.below(16);
                "rdata.bit"
            }
            _ => mutate_name(n, r),
        },
        RD::Soa(m, rn, a, ..) => match r.below(3) {
            0 => mutate_name(m, r),
            1 => mutate_name(rn, r),
            _ => {
                *a ^= 1 << r.below(32);
                "rdata.bit"
            }
        },
        RD::Txt(ss) => {
            if ss.is_empty() || ss.iter().all(|s| s.is_empty()) {
                ss.push(b"x".to_vec());
                "rdata.add-string"
            } else {
                let i = (0..ss.len()).find(|i| !ss[*i].is_empty()).unwrap();
                flip_bit(&mut ss[i], r);
                "rdata.bit"
            }
        }
    }
}

/// applies one mutation; returns its label
fn mutate(b: &mut Base, kproof: &mut Proof, r: &mut Rng) -> String {
    let m = r.below(47);
    let lab: String = match m {
        0..=3 => "none".into(),
        4..=9 => {
            // clock: window edges ±1, ±2³¹, wrap
            let (inc, exp) = (b.s.inc, b.s.exp);
            let (l, v) = *r.pick(&[
                ("inc-1", inc.wrapping_sub(1)),
                ("inc", inc),
                ("inc+1", inc.wrapping_add(1)),
                ("exp-1", exp.wrapping_sub(1)),
                ("exp", exp),
                ("exp+1", exp.wrapping_add(1)),
                ("exp+2^31", exp.wrapping_add(0x8000_0000)),
                ("exp+2^31+1", exp.wrapping_add(0x8000_0001)),
                ("exp+2^31-1", exp.wrapping_add(0x7FFF_FFFF)),
                ("inc+2^31", inc.wrapping_add(0x8000_0000)),
                ("inc-2^31+1", inc.wrapping_sub(0x7FFF_FFFF)),
                ("0", 0),
                ("u32::MAX", u32::MAX),
            ]);
            b.now = v;
            format!("clock.{l}")
        }
        10 => {
            b.now = r.next() as u32;
            "clock.random".into()
        }
        11..=14 => {
            let i = r.below(b.recs.len() as u64) as usize;
            mutate_rd(&mut b.recs[i].rd, r).into()
        }
        15 => {
            let i = r.below(b.recs.len() as u64) as usize;
            let l = mutate_name(&mut b.recs[i].name, r);
            format!("record-owner.{l}")
        }
        16 => {
            let l = mutate_name(&mut b.name, r);
            format!("rrset-name.{l}")
        }
        17 => {
            let i = r.below(b.recs.len() as u64) as usize;
            b.recs[i].ttl ^= 1 << r.below(32);
            "record.ttl (unsigned)".into()
        }
        18 => {
            let i = r.below(b.recs.len() as u64) as usize;
            b.recs[i].cls = *r.pick(&[3u16, 255, 0]);
            "record.class".into()
        }
        19 => {
            if b.recs.len() > 1 {
                b.recs.pop();
                "rrset.remove-record".into()
            } else {
                let mut x = b.recs[0].clone();
                mutate_rd(&mut x.rd, r);
                b.recs.push(x);
                "rrset.add-record".into()
            }
        }
        20 => {
            let mut x = b.recs[0].clone();
            mutate_rd(&mut x.rd, r);
            b.recs.push(x);
            "rrset.add-record".into()
        }
        21 => {
            b.recs.reverse();
            "rrset.reorder (unsigned)".into()
        }
        22 => {
            b.ty = if b.ty == 1 { 28 } else { 1 };
            "rrset-type".into()
        }
        23 => {
            b.s.tc ^= 1 << r.below(16);
            "rrsig.type-covered".into()
        }
        24 => {
            b.s.alg = *r.pick(&[8u8, 10, 13, 14, 15, 5, 0]);
            "rrsig.algorithm".into()
        }
        25 => {
            b.s.labels = match r.below(3) {
                0 => b.s.labels.wrapping_sub(1),
                1 => b.s.labels.wrapping_add(1),
                _ => r.byte(),
            };
            "rrsig.labels".into()
        }
        26 => {
            b.s.ottl ^= 1 << r.below(32);
            "rrsig.original-ttl".into()
        }
        27 => {
            b.s.exp ^= 1 << r.below(32);
            "rrsig.expiration".into()
        }
        28 => {
            b.s.inc ^= 1 << r.below(32);
            "rrsig.inception".into()
        }
        29 => {
            b.s.tag ^= 1 << r.below(16);
            "rrsig.key-tag".into()
        }
        30 => {
            let l = mutate_name(&mut b.s.signer, r);
            format!("rrsig.signer.{l}")
        }
        31 | 32 => {
            flip_bit(&mut b.s.sig, r);
            "rrsig.signature-bit".into()
        }
        33 => {
            let l = mutate_name(&mut b.s.owner, r);
            format!("rrsig.owner.{l}")
        }
        34 => {
            match r.below(2) {
                0 => b.s.cls = *r.pick(&[3u16, 255]),
                _ => b.s.ttl ^= 1 << r.below(32),
            }
            "rrsig.class/ttl".into()
        }
        35 => {
            b.k.flags ^= 1 << r.below(16);
            "dnskey.flags-bit".into()
        }
        36 => {
            match r.below(2) {
                0 => b.k.alg = *r.pick(&[8u8, 10, 13, 14, 15]),
                _ => flip_bit(&mut b.k.pk, r),
            }
            "dnskey.algorithm/public-key-bit".into()
        }
        37 => {
            let l = mutate_name(&mut b.k.owner, r);
            format!("dnskey.owner.{l}")
        }
        38 => {
            // a different key (optionally with the RRSIG naming it)
            let other = (b.ki + 1 + r.below(4) as usize) % c05::sign_keys().len();
            let owner = b.k.owner.clone();
            b.k = real_key(other);
            b.k.owner = owner;
            if r.chance(1, 2) {
                b.s.alg = b.k.alg;
                b.s.tag = ref_key_tag(&b.k.rdata());
            }
            "different-key".into()
        }
        39 => {
            *kproof = *r.pick(&[Proof::Insecure, Proof::Bogus, Proof::Indeterminate]);
            "dnskey-proof".into()
        }
        40..=42 => {
            // a genuinely signed RRSIG with an empty validity period, at a clock around both timestamps
            let clocks = make_empty_window(b, r);
            b.now = *r.pick(&clocks);
            "window.empty (expiration before inception)".into()
        }
        43..=45 => inject_other_class(&mut b.recs, r),
        _ => {
            // the RRSIG alone, without a single record of the RRset
            b.recs.clear();
            "rrset.empty".into()
        }
    };
    lab
}

fn vk_line(b: &Base, kproof: Proof) -> Option<String> {
    let mut s = format!("vk {} {} {} {} {} {} !", b.now, proof_tok(kproof), b.k.tok(), b.s.tok(), b.name.tok(), b.ty);
    for r in &b.recs {
        s.push(' ');
        s.push_str(&r.tok()?);
    }
    Some(s)
}

fn h_line(now: u32, inst: u64, keys: &[K], s: &S, name: &N, ty: u16, recs: &[Rec]) -> Option<String> {
    h_line_multi(now as u64, inst, keys, std::slice::from_ref(s), name, ty, recs)
}

/// a history line with a u64 wall clock and all RRSIGs of the RRset in message order
fn h_line_multi(clock: u64, inst: u64, keys: &[K], sigs: &[S], name: &N, ty: u16, recs: &[Rec]) -> Option<String> {
    let keys_tok = if keys.is_empty() { "-".to_string() } else { keys.iter().map(|k| format!("{};S", k.tok())).collect::<Vec<_>>().join("|") };
    let mut l = format!("h {clock} {inst} - {keys_tok} {} {} {ty} -", sigs.iter().map(|s| s.tok()).collect::<Vec<_>>().join("|"), name.tok());
    for r in recs {
        l.push(' ');
        l.push_str(&r.tok()?);
    }
    Some(l)
}

#[allow(dead_code)]
fn h_line_old(now: u32, inst: u64, keys: &[K], s: &S, name: &N, ty: u16, recs: &[Rec]) -> Option<String> {
    let keys_tok = if keys.is_empty() { "-".to_string() } else { keys.iter().map(|k| format!("{};S", k.tok())).collect::<Vec<_>>().join("|") };
    let mut l = format!("h {now} {inst} - {keys_tok} {} {} {ty} -", s.tok(), name.tok());
    for r in recs {
        l.push(' ');
        l.push_str(&r.tok()?);
    }
    Some(l)
}

/// one history: validate; advance the clock / change what upstream serves; validate again
fn gen_history(r: &mut Rng, kind: u64) -> Option<Vec<String>> {
    // kind 12 draws the signing key's flags from the whole family; the others start from an acceptable key
    let plain = kind != 12 && !r.chance(1, 10);
    let mut b = gen_base_with(r, plain);
    while b.ty == 48 {
        // a DNSKEY RRset takes the verify_dnskey_rrset path (C07), which this model does not cover
        // (exercised implementation-only by the `dk` lines)
        b = gen_base_with(r, plain);
    }
    // histories use plain (non-wrapping) windows and TTLs that are 0 or long: the cache runs on real time
    b.s.inc = *r.pick(&[1_700_000_000u32, 0xFFFF_FF00, 100]);
    let life = *r.pick(&[10u32, 60, 600]);
    b.s.exp = b.s.inc.wrapping_add(life);
    let ttl = *r.pick(&[3600u32, 300, 86400, 0]);
    for x in b.recs.iter_mut() {
        x.ttl = ttl;
    }
    b.s.ttl = ttl;
    b.s.ottl = *r.pick(&[ttl, 7200]);
    b.k.owner = b.s.signer.clone();
    let resign = |b: &mut Base| {
        let bytes = b.s.ref_case(&b.name, 1, &b.recs).ref_signed_data().expect("ref");
        b.s.sig = sign_with(b.ki, &bytes);
    };
    let t0 = b.s.inc.wrapping_add(1);
    let mut cfg = String::new();
    let mut lines = vec![];
    let keys = vec![b.k.clone()];
    match kind {
        0 | 1 => {
            // clock advances past the expiration
            resign(&mut b);
            lines.push(h_line(t0, 0, &keys, &b.s, &b.name, b.ty, &b.recs)?);
            for dt in [life / 2, life - 1, life, life + 1, life + 3600, 0x8000_0000] {
                if r.chance(2, 3) {
                    lines.push(h_line(t0.wrapping_add(dt), 0, &keys, &b.s, &b.name, b.ty, &b.recs)?);
                }
            }
        }
        2 => {
            // configured positive range stretches / shrinks the lifetime
            cfg = r.pick(&[" pos=60:120", " pos=0:0", " pos=0:5", " neg=60:120"]).to_string();
            resign(&mut b);
            lines.push(h_line(t0, 0, &keys, &b.s, &b.name, b.ty, &b.recs)?);
            lines.push(h_line(t0.wrapping_add(life + 1), 0, &keys, &b.s, &b.name, b.ty, &b.recs)?);
        }
        3 => {
            // upstream serves altered content on the second validation
            resign(&mut b);
            lines.push(h_line(t0, 0, &keys, &b.s, &b.name, b.ty, &b.recs)?);
            let mut kp = Proof::Secure;
            let mut b2 = Base { ki: b.ki, k: b.k.clone(), s: b.s.clone(), name: b.name.clone(), ty: b.ty, recs: b.recs.clone(), now: t0 };
            let _ = mutate(&mut b2, &mut kp, r);
            // the query stays the same RRset; owner / type changes of the key are not expressible through send
            // (an RRSIG with another owner / type covered is grouped into another RRset by RrsetMap::new:
            // those mutations are exercised by the pure part)
            b2.name = b.name.clone();
            b2.ty = b.ty;
            b2.s.tc = b.ty;
            if !same_name_ci(&b2.s.owner, &b.name) {
                b2.s.owner = b.s.owner.clone();
            }
            for x in b2.recs.iter_mut() {
                x.name = b.name.clone();
                x.rtype = b.ty;
                x.cls = 1;
            }
            let now2 = if r.chance(1, 2) { t0 } else { b2.now };
            lines.push(h_line(now2, 0, &[b2.k.clone()], &b2.s, &b2.name, b2.ty, &b2.recs)?);
            lines.push(h_line(t0, 0, &keys, &b.s, &b.name, b.ty, &b.recs)?);
        }
        4 => {
            // letter case of a name inside RDATA changes between the two validations
            let ty = *r.pick(&[47u16, 2, 15, 47]);
            b.ty = ty;
            b.s.tc = ty;
            let next = c05::nm(*r.pick(&["B.Example.com.", "Host.example.COM.", "zz.Example.com."]));
            let mk = |n: &N| match ty {
                47 => {
                    let mut raw = c05::wire(&n.labels);
                    raw.extend([0u8, 1, 0x40]);
                    RD::Op(raw)
                }
                2 => RD::Ns(n.clone()),
                _ => RD::Mx(10, n.clone()),
            };
            b.recs = vec![Rec { name: b.name.clone(), rtype: ty, cls: 1, ttl, rd: mk(&next) }];
            resign(&mut b);
            lines.push(h_line(t0, 0, &keys, &b.s, &b.name, b.ty, &b.recs)?);
            let flipped = c05::flip_case(r, &next, 100);
            let recs2 = vec![Rec { name: b.name.clone(), rtype: ty, cls: 1, ttl, rd: mk(&flipped) }];
            lines.push(h_line(t0, 0, &keys, &b.s, &b.name, b.ty, &recs2)?);
        }
        5 => {
            // key-tag collisions: two bogus trust anchors with the same tag in front of the right key
            resign(&mut b);
            let mut ks: Vec<K> = all_keys().into_iter().filter(|k| k.alg == b.k.alg && k.pk != b.k.pk && ref_key_tag(&k.rdata()) == ref_key_tag(&b.k.rdata())).collect();
            for k in ks.iter_mut() {
                k.owner = b.k.owner.clone();
            }
            ks.truncate(r.range(1, 2) as usize);
            if r.chance(1, 2) {
                ks.push(b.k.clone());
            } else {
                ks.insert(0, b.k.clone());
            }
            lines.push(h_line(t0, 0, &ks, &b.s, &b.name, b.ty, &b.recs)?);
        }
        7 => {
            // NSEC RRset whose RRSIG claims wildcard expansion (Labels below the owner's label count):
            // correctly signed, still refused by verify_rrsig_with_keys; Labels equal: accepted
            b.ty = 47;
            b.s.tc = 47;
            let mut raw = c05::wire(&c05::nm("z.example.com.").labels);
            raw.extend([0u8, 1, 0x40]);
            b.recs = vec![Rec { name: b.name.clone(), rtype: 47, cls: 1, ttl, rd: RD::Op(raw) }];
            let full = b.s.labels;
            for labels in [full.saturating_sub(1), full] {
                b.s.labels = labels;
                resign(&mut b);
                lines.push(h_line(t0, 0, &keys, &b.s, &b.name, b.ty, &b.recs)?);
            }
        }
        8 => {
            // genuinely signed RRSIG with an empty validity period: never Secure, at any clock
            let clocks = make_empty_window(&mut b, r);
            for c in clocks.iter().take(r.range(3, 8) as usize) {
                lines.push(h_line(*c, 0, &keys, &b.s, &b.name, b.ty, &b.recs)?);
            }
        }
        9 => {
            // a signed IN RRset plus injected records of another class with the same owner and type:
            // RrsetMap groups them together, no record of the group may come back Secure
            resign(&mut b);
            let mut recs2 = b.recs.clone();
            let _ = inject_other_class(&mut recs2, r);
            if r.chance(1, 2) {
                lines.push(h_line(t0, 0, &keys, &b.s, &b.name, b.ty, &b.recs)?);
            }
            lines.push(h_line(t0, 0, &keys, &b.s, &b.name, b.ty, &recs2)?);
            lines.push(h_line(t0, 0, &keys, &b.s, &b.name, b.ty, &b.recs)?);
        }
        11 => {
            // cache-key collision family: validate X, then probe with inputs that differ from X in exactly
            // one component of the cache key (or have two components swapped / XOR-ed by the same value);
            // every probe must get its own, correct verdict; finally X again (served from the cache)
            resign(&mut b);
            let x = |b: &Base| h_line(t0, 0, &[b.k.clone()], &b.s, &b.name, b.ty, &b.recs);
            lines.push(x(&b)?);
            let clone = |b: &Base| Base { ki: b.ki, k: b.k.clone(), s: b.s.clone(), name: b.name.clone(), ty: b.ty, recs: b.recs.clone(), now: t0 };
            let mut probes: Vec<Base> = vec![];
            {
                // owner: one more label; labels in another order
                let mut v = clone(&b);
                v.name.labels.insert(0, b"x".to_vec());
                v.s.owner = v.name.clone();
                v.recs.iter_mut().for_each(|q| q.name = v.name.clone());
                probes.push(v);
                if b.name.labels.len() >= 2 && b.name.labels[0] != b.name.labels[1] {
                    let mut v = clone(&b);
                    v.name.labels.swap(0, 1);
                    v.s.owner = v.name.clone();
                    v.recs.iter_mut().for_each(|q| q.name = v.name.clone());
                    probes.push(v);
                }
                // type: the same RDATA octets under another type
                let mut v = clone(&b);
                v.ty = if b.ty == 65280 { 65281 } else { 65280 };
                v.s.tc = v.ty;
                for q in v.recs.iter_mut() {
                    q.rtype = v.ty;
                    q.rd = RD::Op(q.rd.ref_canon().unwrap_or_default());
                }
                probes.push(v);
                // class
                let mut v = clone(&b);
                v.s.cls = 3;
                v.recs.iter_mut().for_each(|q| q.cls = 3);
                probes.push(v);
                // key tag: one bit, octets swapped
                let mut v = clone(&b);
                v.s.tag ^= 1 << r.below(16);
                probes.push(v);
                let mut v = clone(&b);
                v.s.tag = v.s.tag.swap_bytes();
                probes.push(v);
                // signer
                let mut v = clone(&b);
                v.s.signer.labels.insert(0, b"s".to_vec());
                probes.push(v);
                // signature octets: one bit, two octets swapped, reversed
                let mut v = clone(&b);
                flip_bit(&mut v.s.sig, r);
                probes.push(v);
                let mut v = clone(&b);
                if let Some(i) = (0..v.s.sig.len() - 1).find(|i| v.s.sig[*i] != v.s.sig[*i + 1]) {
                    v.s.sig.swap(i, i + 1);
                }
                probes.push(v);
                let mut v = clone(&b);
                v.s.sig.reverse();
                probes.push(v);
                // RDATA: two octets of a record swapped; all records XOR-ed with the same value; records swapped
                let mut v = clone(&b);
                if let Some(raw) = raw_octets_mut(&mut v.recs[0].rd) {
                    if let Some(i) = (0..raw.len().saturating_sub(1)).find(|i| raw[*i] != raw[*i + 1]) {
                        raw.swap(i, i + 1);
                    }
                }
                probes.push(v);
                let mut v = clone(&b);
                let d = 1u8 << r.below(3);
                for q in v.recs.iter_mut() {
                    if let Some(raw) = raw_octets_mut(&mut q.rd) {
                        if let Some(l) = raw.last_mut() {
                            *l ^= d;
                        }
                    }
                }
                probes.push(v);
                if b.recs.len() >= 2 {
                    let mut v = clone(&b);
                    v.recs.swap(0, 1); // the same set in another order: a different key, the same verdict
                    probes.push(v);
                }
                // RRSIG fields: two swapped with each other, single ones altered
                let mut v = clone(&b);
                std::mem::swap(&mut v.s.exp, &mut v.s.inc);
                probes.push(v);
                let mut v = clone(&b);
                std::mem::swap(&mut v.s.exp, &mut v.s.ottl);
                probes.push(v);
                let mut v = clone(&b);
                let (e, i) = (v.s.exp, v.s.inc);
                v.s.exp = e ^ 0x10;
                v.s.inc = i ^ 0x10;
                probes.push(v);
                let mut v = clone(&b);
                v.s.labels ^= 1;
                probes.push(v);
                let mut v = clone(&b);
                v.s.alg = if v.s.alg == 13 { 15 } else { 13 };
                probes.push(v);
                let mut v = clone(&b);
                v.s.ottl ^= 1;
                probes.push(v);
                // TTLs are not part of the key (and not signed): the cached verdict is the right one
                let mut v = clone(&b);
                v.recs.iter_mut().for_each(|q| q.ttl = q.ttl.wrapping_add(1));
                probes.push(v);
                let mut v = clone(&b);
                v.s.ttl = v.s.ttl.wrapping_add(7);
                probes.push(v);
            }
            for v in &probes {
                if let Some(l) = x(v) {
                    lines.push(l);
                }
            }
            lines.push(x(&b)?);
        }
        12 => {
            // the signing key's flags come from the whole family {256, 257, 384, 385, 0, 1, 128}: an RRset whose
            // only verifying key is revoked or not a zone key is never Secure, fresh or cached
            resign(&mut b);
            lines.push(h_line(t0, 0, &keys, &b.s, &b.name, b.ty, &b.recs)?);
            let mut k2 = b.k.clone();
            k2.flags = *r.pick(KEY_FLAGS);
            let mut s2 = b.s.clone();
            if r.chance(1, 2) {
                s2.tag = ref_key_tag(&k2.rdata());
            }
            lines.push(h_line(t0, 0, &[k2], &s2, &b.name, b.ty, &b.recs)?);
            lines.push(h_line(t0, 0, &keys, &b.s, &b.name, b.ty, &b.recs)?);
        }
        14 => {
            // several RRSIGs: the one that verifies (short validity) among non-candidates and failing candidates with
            // very different validity periods and original TTLs, at the first / a middle / the last position;
            // then re-validation at later clock values on the same handle
            let life = *r.pick(&[600u32, 60, 3600]);
            b.s.inc = *r.pick(&[1_700_000_000u32, 0xFFFF_FF00, 100]);
            b.s.exp = b.s.inc.wrapping_add(life);
            let rttl = *r.pick(&[3600u32, 86400, 1000]);
            for x in b.recs.iter_mut() {
                x.ttl = rttl;
            }
            b.s.ttl = rttl;
            b.s.ottl = *r.pick(&[rttl, 600, 7200]);
            resign(&mut b);
            let t0 = b.s.inc.wrapping_add(1);
            let good = b.s.clone();
            let sign_variant = |b: &Base, f: &dyn Fn(&mut S)| -> Option<S> {
                let mut s2 = b.s.clone();
                f(&mut s2);
                let bytes = s2.ref_case(&b.name, 1, &b.recs).ref_signed_data()?;
                s2.sig = sign_with(b.ki, &bytes);
                Some(s2)
            };
            let ten_years = 315_360_000u32;
            let mut others: Vec<(&str, S)> = vec![];
            let n_other = r.range(1, 3);
            for _ in 0..n_other {
                let v = match r.below(8) {
                    0 | 1 => {
                        // out-of-zone signer, ten-year validity, large original TTL: not even a candidate
                        let mut j = good.clone();
                        j.signer = c05::nm(*r.pick(&["unrelated.test.", "example.invalid.", "x.y.z."]));
                        j.exp = t0.wrapping_add(ten_years);
                        j.ottl = 1_000_000;
                        j.ttl = 1000;
                        j.sig = r.bytes(64);
                        ("foreign-signer", j)
                    }
                    2 => {
                        if r.chance(1, 2) && good.labels > 0 {
                            // genuinely signed for a wildcard expansion that this owner is not
                            ("labels-below", sign_variant(&b, &|s| {
                                s.labels -= 1;
                                s.exp = t0.wrapping_add(ten_years);
                            })?)
                        } else {
                            let mut j = good.clone();
                            j.labels = j.labels.wrapping_add(1);
                            j.exp = t0.wrapping_add(ten_years);
                            j.sig = r.bytes(64);
                            ("labels-above", j)
                        }
                    }
                    3 => {
                        let mut j = good.clone();
                        j.alg = 253;
                        j.exp = t0.wrapping_add(ten_years);
                        j.sig = r.bytes(64);
                        ("unsupported-algorithm", j)
                    }
                    4 => ("expired", sign_variant(&b, &|s| {
                        s.exp = t0.wrapping_sub(10);
                        s.inc = t0.wrapping_sub(100_000);
                    })?),
                    5 => ("not-yet-valid", sign_variant(&b, &|s| {
                        s.inc = t0.wrapping_add(50_000);
                        s.exp = t0.wrapping_add(ten_years);
                        s.ottl = 500_000;
                    })?),
                    6 => {
                        let mut j = sign_variant(&b, &|s| {
                            s.exp = t0.wrapping_add(ten_years);
                            s.ottl = 900_000;
                        })?;
                        flip_bit(&mut j.sig, r);
                        ("bad-signature-long-validity", j)
                    }
                    _ => {
                        // a second genuinely valid RRSIG with a much longer validity
                        ("second-valid-long", sign_variant(&b, &|s| {
                            s.exp = t0.wrapping_add(ten_years);
                            s.ottl = 50_000;
                        })?)
                    }
                };
                others.push(v);
            }
            let pos = r.below(others.len() as u64 + 1) as usize;
            let mut sigs: Vec<S> = others.iter().map(|(_, s)| s.clone()).collect();
            sigs.insert(pos, good.clone());
            for dt in [0u32, life / 2, life - 2, life + 1, life + 4000, 50_001, ten_years / 2] {
                if dt == 0 || r.chance(2, 3) {
                    lines.push(h_line_multi(t0.wrapping_add(dt) as u64, 0, &keys, &sigs, &b.name, b.ty, &b.recs)?);
                }
            }
        }
        15 => {
            // the u64 wall clock around and beyond 2^32, RRSIG windows spanning the serial-number wrap or lying
            // just after it: the verdict depends on the clock only modulo 2^32
            let two32: u64 = 1 << 32;
            let (inc, exp): (u32, u32) = *r.pick(&[(0xFFFF_FE00u32, 0x0000_0200u32), (0xFFFF_FFF0, 0x10), (100, 5000), (0xFFFF_0000, 0xFFFF_FF00), (0, 600)]);
            b.s.inc = inc;
            b.s.exp = exp;
            let rttl = *r.pick(&[3600u32, 0, 300]);
            for x in b.recs.iter_mut() {
                x.ttl = rttl;
            }
            b.s.ttl = rttl;
            b.s.ottl = rttl;
            resign(&mut b);
            let width = exp.wrapping_sub(inc) as u64;
            let base = inc as u64; // seconds of the u32 clock at which the window opens
            let wraps = *r.pick(&[0u64, 1, 1, 2, 5]);
            let mut clocks: Vec<u64> = vec![];
            for k in [wraps, wraps + 1] {
                let o = base + k * two32;
                clocks.extend([o.saturating_sub(1), o, o + 1, o + width / 2, o + width, o + width + 1]);
            }
            clocks.extend([two32 - 1, two32, two32 + 1, 2 * two32 + 5, u32::MAX as u64]);
            for c in clocks {
                if r.chance(3, 5) {
                    lines.push(h_line_multi(c, 0, &keys, std::slice::from_ref(&b.s), &b.name, b.ty, &b.recs)?);
                }
            }
        }
        17 => {
            // more RRSIGs than MAX_RRSIGS_PER_RRSET: non-candidates (foreign signer) in front, the verifying RRSIG at
            // index 7 … 11 — beyond index 8 it is never looked at
            resign(&mut b);
            let total = r.range(9, 12) as usize;
            let at = r.range(7, total as u64 - 1) as usize;
            let mut sigs: Vec<S> = vec![];
            for i in 0..total {
                if i == at {
                    sigs.push(b.s.clone());
                } else {
                    let mut j = b.s.clone();
                    j.signer = c05::nm(*r.pick(&["unrelated.test.", "x.y.z."]));
                    j.tag = j.tag.wrapping_add(i as u16 + 1);
                    j.sig = r.bytes(16);
                    sigs.push(j);
                }
            }
            lines.push(h_line_multi(t0 as u64, 0, &keys, &sigs, &b.name, b.ty, &b.recs)?);
            lines.push(h_line_multi(t0 as u64, 0, &keys, &sigs, &b.name, b.ty, &b.recs)?);
        }
        18 => {
            // DNSKEY owners: the answer to the signer's DNSKEY query carries the verifying key under another owner
            // (must not count), alone or next to the properly owned key, in both orders
            resign(&mut b);
            let mut foreign = b.k.clone();
            foreign.owner = c05::nm(*r.pick(&["other.test.", "com.", "."]));
            if same_name_ci(&foreign.owner, &b.k.owner) {
                foreign.owner = c05::nm("other.test.");
            }
            lines.push(h_line(t0, 0, &[foreign.clone()], &b.s, &b.name, b.ty, &b.recs)?);
            let pair = if r.chance(1, 2) { vec![foreign.clone(), b.k.clone()] } else { vec![b.k.clone(), foreign.clone()] };
            // another TTL: a new look-up is forced by changing the records' TTL? no — the cache key ignores TTLs; a
            // different RDATA order makes a different key
            let mut recs2 = b.recs.clone();
            recs2.reverse();
            lines.push(h_line(t0, 0, &pair, &b.s, &b.name, b.ty, if b.recs.len() > 1 { &recs2 } else { &b.recs })?);
        }
        19 => {
            // the DNSKEY lookup fails (upstream error): Bogus for this response, NOT cached — the next, successful
            // validation is fresh and Secure; and a cached Secure verdict is served without any lookup
            resign(&mut b);
            let fail = |b: &Base| h_line_multi(t0 as u64, 0, &[], std::slice::from_ref(&b.s), &b.name, b.ty, &b.recs).map(|l| {
                let mut t: Vec<String> = l.split(' ').map(String::from).collect();
                t[4] = "!".into();
                t.join(" ")
            });
            if r.chance(1, 2) {
                lines.push(h_line(t0, 0, &keys, &b.s, &b.name, b.ty, &b.recs)?);
                lines.push(fail(&b)?);
            } else {
                lines.push(fail(&b)?);
                lines.push(fail(&b)?);
                lines.push(h_line(t0, 0, &keys, &b.s, &b.name, b.ty, &b.recs)?);
                lines.push(fail(&b)?);
            }
        }
        20 => {
            // an RRSIG without a single record of the type it covers: Bogus, nothing to cache
            resign(&mut b);
            lines.push(h_line(t0, 0, &keys, &b.s, &b.name, b.ty, &[])?);
            lines.push(h_line(t0, 0, &keys, &b.s, &b.name, b.ty, &[])?);
            lines.push(h_line(t0, 0, &keys, &b.s, &b.name, b.ty, &b.recs)?);
        }
        22 => {
            // select_ok over the candidates: an RRSIG naming an ancestor (or the owner) at which upstream has no
            // DNSKEY is a candidate whose lookup ends in an error — the turn passes to the next candidate; when
            // every lookup fails the RRset is Bogus and nothing is cached
            resign(&mut b);
            let good = b.s.clone();
            let mut alt = b.s.signer.clone();
            if alt.labels.is_empty() {
                alt = b.name.clone();
            } else {
                alt.labels.remove(0);
            }
            if same_name_ci(&alt, &b.s.signer) {
                return None;
            }
            let mut failing = good.clone();
            failing.signer = alt;
            failing.exp = failing.exp.wrapping_add(100_000);
            failing.ottl = 900_000;
            let bytes = failing.ref_case(&b.name, 1, &b.recs).ref_signed_data()?;
            failing.sig = sign_with(b.ki, &bytes);
            let mut failing2 = failing.clone();
            failing2.tag = failing2.tag.wrapping_add(1);
            match r.below(4) {
                0 => {
                    for _ in 0..2 {
                        lines.push(h_line_multi(t0 as u64, 0, &keys, &[failing.clone(), good.clone()], &b.name, b.ty, &b.recs)?);
                    }
                }
                1 => {
                    lines.push(h_line_multi(t0 as u64, 0, &keys, &[failing.clone(), failing2.clone(), good.clone()], &b.name, b.ty, &b.recs)?);
                    lines.push(h_line_multi(t0.wrapping_add(life + 5) as u64, 0, &keys, &[failing.clone(), failing2.clone(), good.clone()], &b.name, b.ty, &b.recs)?);
                }
                2 => {
                    // every lookup fails: not cached; the key then appears at that name too
                    for _ in 0..2 {
                        lines.push(h_line_multi(t0 as u64, 0, &keys, &[failing.clone(), failing2.clone()], &b.name, b.ty, &b.recs)?);
                    }
                    let mut k2 = b.k.clone();
                    k2.owner = failing.signer.clone();
                    lines.push(h_line_multi(t0 as u64, 0, &[b.k.clone(), k2], &[failing.clone(), failing2.clone()], &b.name, b.ty, &b.recs)?);
                }
                _ => {
                    lines.push(h_line_multi(t0 as u64, 0, &keys, &[good.clone(), failing.clone()], &b.name, b.ty, &b.recs)?);
                    lines.push(h_line_multi(t0 as u64, 0, &keys, &[failing.clone()], &b.name, b.ty, &b.recs)?);
                }
            }
        }
        23 => {
            // "Break verification cycle": the RRset arrives in the response to the query `SIGNER DNSKEY`; the DNSKEY
            // lookup its RRSIG needs would be that query again — the RRSIG is skipped (Bogus, no lookup), also when
            // it is genuine; an RRSIG of another signer in the same response is evaluated as usual
            resign(&mut b);
            let good = b.s.clone();
            let to_hq = |l: String, q: &N| l.replacen("h ", &format!("hq {} ", q.tok()), 1);
            let mut q = b.s.signer.clone();
            if r.chance(1, 3) {
                // letter case of the query name does not matter
                for l in q.labels.iter_mut() {
                    l.make_ascii_uppercase();
                }
            }
            match r.below(3) {
                0 => {
                    lines.push(to_hq(h_line_multi(t0 as u64, 0, &keys, std::slice::from_ref(&good), &b.name, b.ty, &b.recs)?, &q));
                    // the same RRset asked for directly is Secure
                    lines.push(h_line_multi(t0 as u64, 0, &keys, std::slice::from_ref(&good), &b.name, b.ty, &b.recs)?);
                    lines.push(to_hq(h_line_multi(t0 as u64, 0, &keys, std::slice::from_ref(&good), &b.name, b.ty, &b.recs)?, &q));
                }
                1 => {
                    // a second RRSIG by an ancestor zone whose key is served: that one is looked up and verifies
                    let mut alt = b.s.signer.clone();
                    if alt.labels.is_empty() {
                        return None;
                    }
                    alt.labels.remove(0);
                    let mut anc = good.clone();
                    anc.signer = alt.clone();
                    let bytes = anc.ref_case(&b.name, 1, &b.recs).ref_signed_data()?;
                    anc.sig = sign_with(b.ki, &bytes);
                    let mut k2 = b.k.clone();
                    k2.owner = alt;
                    let sigs = if r.chance(1, 2) { vec![good.clone(), anc.clone()] } else { vec![anc.clone(), good.clone()] };
                    for _ in 0..2 {
                        lines.push(to_hq(h_line_multi(t0 as u64, 0, &[b.k.clone(), k2.clone()], &sigs, &b.name, b.ty, &b.recs)?, &q));
                    }
                }
                _ => {
                    // the original DNSKEY query is for another name: no cycle, the RRSIG is evaluated
                    let mut other = b.k.clone();
                    other.owner = c05::nm("other.test.");
                    if same_name_ci(&other.owner, &b.s.signer) {
                        return None;
                    }
                    let q2 = other.owner.clone();
                    for _ in 0..2 {
                        lines.push(to_hq(h_line_multi(t0 as u64, 0, &[b.k.clone(), other.clone()], std::slice::from_ref(&good), &b.name, b.ty, &b.recs)?, &q2));
                    }
                }
            }
        }
        _ => {
            // wrong key first (Bogus is cached), then the right key; and the reverse
            resign(&mut b);
            let other = real_key((b.ki + 1) % c05::sign_keys().len());
            let wrong = K { owner: b.k.owner.clone(), ..other };
            let (first, second) = if r.chance(1, 2) { (vec![wrong], keys.clone()) } else { (keys.clone(), vec![wrong]) };
            lines.push(h_line(t0, 0, &first, &b.s, &b.name, b.ty, &b.recs)?);
            lines.push(h_line(t0, 0, &second, &b.s, &b.name, b.ty, &b.recs)?);
        }
    }
    Some(block(&cfg, lines))
}

/// brackets a history; the `begin` line names every key the block serves as a trust anchor
fn block(cfg: &str, lines: Vec<String>) -> Vec<String> {
    let mut tas: Vec<String> = vec![];
    for l in &lines {
        let t: Vec<&str> = l.split_whitespace().collect();
        let at = if t.first() == Some(&"hq") { 5 } else { 4 };
        if t.len() > at && t[at] != "-" && t[at] != "!" {
            for k in t[at].split('|') {
                let f: Vec<&str> = k.split(';').collect();
                let e = format!("{}:{}", f[2], f[3]);
                if !tas.contains(&e) {
                    tas.push(e);
                }
            }
        }
    }
    let mut out = vec![format!("begin ta={}{cfg}", tas.join(","))];
    out.extend(lines);
    out.push("end".into());
    out
}

/// the replay of the finding, with real time passing: TTL 3600, signature valid for 10 s
fn hand_histories() -> Vec<Vec<String>> {
    let mut r = Rng::new(606);
    let mut v = vec![];
    let mk = |r: &mut Rng, ttl: u32, life: u32| {
        let mut b = gen_base_with(r, true);
        b.name = c05::nm("www.example.com.");
        b.ty = 1;
        b.recs = vec![
            Rec { name: b.name.clone(), rtype: 1, cls: 1, ttl, rd: RD::A(vec![192, 0, 2, 1]) },
            Rec { name: b.name.clone(), rtype: 1, cls: 1, ttl, rd: RD::A(vec![192, 0, 2, 2]) },
        ];
        b.k.owner = c05::nm("example.com.");
        b.s = S { owner: b.name.clone(), cls: 1, ttl, tc: 1, alg: b.k.alg, labels: 3, ottl: ttl, exp: 1_700_000_000 + life, inc: 1_700_000_000 - 100, tag: ref_key_tag(&b.k.rdata()), signer: c05::nm("example.com."), sig: vec![] };
        let bytes = b.s.ref_case(&b.name, 1, &b.recs).ref_signed_data().expect("ref");
        b.s.sig = sign_with(b.ki, &bytes);
        b
    };
    // (1) TTL 3600, RRSIG expires in 10 s: validate, +5 s, +20 s (validator clock only)
    let b = mk(&mut r, 3600, 10);
    let keys = vec![b.k.clone()];
    let mut h = vec![];
    for dt in [0u32, 5, 20] {
        h.push(h_line(1_700_000_000 + dt, 0, &keys, &b.s, &b.name, b.ty, &b.recs).unwrap());
    }
    v.push(block("", h));
    // (2) the same with real time passing: TTL 3600 entry is still live after 2 s, signature valid 1 s
    let b = mk(&mut r, 3600, 1);
    let keys = vec![b.k.clone()];
    let mut h = vec![];
    h.push(h_line(1_700_000_000, 0, &keys, &b.s, &b.name, b.ty, &b.recs).unwrap());
    h.push(h_line(1_700_000_002, 2, &keys, &b.s, &b.name, b.ty, &b.recs).unwrap());
    v.push(block("", h));
    // (3) entry lifetime 1 s (TTL 1) does expire on the monotonic clock: fresh validation after 2 s
    let b = mk(&mut r, 1, 600);
    let keys = vec![b.k.clone()];
    let mut h = vec![];
    h.push(h_line(1_700_000_000, 0, &keys, &b.s, &b.name, b.ty, &b.recs).unwrap());
    h.push(h_line(1_700_000_002, 2, &keys, &b.s, &b.name, b.ty, &b.recs).unwrap());
    v.push(block("", h));
    v
}

pub fn run(o: &Opts, rec: &mut Recorder) {
    rec.rule = "vk: an RRset of a modelled or opaque type (1-3 records) signed with a real key (ED25519, ECDSA P-256/P-384, RSA SHA-256/512) over the reference RFC 4035 bytes, then one mutation (a bit / field of RRset, RRSIG or DNSKEY, another key, key proof, or the clock at the window edges ±1, ±2^31, wrap) — non-trivial when the verdict is Secure or exactly one acceptance condition fails; h: validate / move the validator clock / change what upstream serves / re-validate histories through DnssecDnsHandle::send — non-trivial when Secure or served from the validation cache; serial/tag/attl: edge and random values; distinct by case line".into();
    for l in o.pre_lines.clone() {
        exec(&l, rec);
    }
    rec.corpus_cases = rec.cases.len();
    if o.replay_only {
        return;
    }
    let mut r = Rng::new(o.seed);
    // serial arithmetic: edges and random pairs
    let edges = [0u32, 1, 2, 0x7FFF_FFFE, 0x7FFF_FFFF, 0x8000_0000, 0x8000_0001, 0xFFFF_FFFE, 0xFFFF_FFFF];
    for a in edges {
        for b in edges {
            exec(&format!("serial {a} {b}"), rec);
        }
    }
    for _ in 0..o.n(300, 100_000) {
        let a = r.next() as u32;
        let x = r.next() as u32;
        let d = *r.pick(&[0u32, 1, 0x7FFF_FFFF, 0x8000_0000, 0x8000_0001, 0xFFFF_FFFF, x]);
        exec(&format!("serial {a} {}", a.wrapping_add(d)), rec);
    }
    for _ in 0..o.n(60, 5_000) {
        let x = r.next() as u32;
        let y = *r.pick(&[0u32, 1, 0x7FFF_FFFF, 0x8000_0000, 0xFFFF_FFFF, r.0 as u32]);
        exec(&format!("sadd {x} {y}"), rec);
    }
    for k in all_keys() {
        exec(&format!("tag {}", hex(&k.rdata())), rec);
    }
    // every combination of the three defined flag bits (zone key, revoke, secure entry point), and all bits set
    for flags in [0u16, 1, 0x80, 0x81, 0x100, 0x101, 0x180, 0x181, 0xFFFF, 0xFE7E] {
        let mut k = real_key(0);
        k.flags = flags;
        exec(&format!("tag {}", hex(&k.rdata())), rec);
    }
    // edge paths of DnssecDnsHandle::send around a correctly signed answer (implementation only)
    {
        let mut sr = Rng::new(6064);
        for _ in 0..o.n(6, 60) {
            let mut b = gen_base_with(&mut sr, true);
            while b.ty == 48 || b.recs.is_empty() {
                b = gen_base_with(&mut sr, true);
            }
            b.s.inc = 1_700_000_000;
            b.s.exp = 1_700_086_400;
            b.k.owner = b.s.signer.clone();
            if let Some(bytes) = b.s.ref_case(&b.name, 1, &b.recs).ref_signed_data() {
                b.s.sig = sign_with(b.ki, &bytes);
                for kind in ["plain", "update", "noquery", "depth0"] {
                    let mut l = format!("sx {kind} {} {}", b.k.tok(), b.s.tok());
                    for q in &b.recs {
                        if let Some(t) = q.tok() {
                            l.push(' ');
                            l.push_str(&t);
                        }
                    }
                    exec(&l, rec);
                }
            }
        }
    }
    for _ in 0..o.n(100, 5_000) {
        let n = r.below(70) as usize;
        let b = if r.chance(1, 4) { vec![0xFF; n] } else { r.bytes(n) };
        exec(&format!("tag {}", hex(&b)), rec);
    }
    for _ in 0..o.n(200, 10_000) {
        let v = |r: &mut Rng| {
            let x = r.next() as u32;
            *r.pick(&[0u32, 1, 10, 3600, 0x7FFF_FFFF, 0x8000_0000, 0xFFFF_FFFF, x])
        };
        exec(&format!("attl {} {} {} {}", v(&mut r), v(&mut r), v(&mut r), v(&mut r)), rec);
    }
    // pure part
    for _ in 0..o.n(4000, 150_000) {
        let mut rr = r.fork();
        let g = catch(move || {
            let mut b = gen_base(&mut rr);
            let mut kp = Proof::Secure;
            let lab = mutate(&mut b, &mut kp, &mut rr);
            vk_line(&b, kp).map(|l| (lab, l))
        });
        match g {
            Ok(Some((lab, l))) => {
                rec.stat(&format!("mutation.{}", lab.split('.').next().unwrap_or("?")));
                if lab.contains("case") {
                    rec.stat(&format!("mutation.{lab}"));
                }
                exec(&l, rec);
            }
            Ok(None) => rec.stat("generator.unbuildable"),
            Err(e) => {
                eprintln!("c06 generator panic: {e}");
                rec.stat("generator.panic");
            }
        }
    }
    // hand-built: empty validity periods at every surrounding clock; other-class records at every position
    {
        let mut hr = Rng::new(6061);
        for _ in 0..o.n(6, 40) {
            let mut b = gen_base_with(&mut hr, true);
            let clocks = make_empty_window(&mut b, &mut hr);
            for c in clocks {
                b.now = c;
                if let Some(l) = vk_line(&b, Proof::Secure) {
                    rec.stat("mutation.window-empty-handbuilt");
                    exec(&l, rec);
                }
            }
        }
        for _ in 0..o.n(20, 200) {
            let mut b = gen_base_with(&mut hr, true);
            let base_recs = b.recs.clone();
            for cls in [3u16, 4, 254, 65280] {
                for pos in 0..=base_recs.len() {
                    let mut recs = base_recs.clone();
                    let mut x = base_recs[pos.min(base_recs.len() - 1)].clone();
                    x.cls = cls;
                    recs.insert(pos, x);
                    b.recs = recs;
                    if let Some(l) = vk_line(&b, Proof::Secure) {
                        rec.stat("mutation.inject-other-class-handbuilt");
                        exec(&l, rec);
                    }
                }
            }
        }
    }
    // embedded-name case family: for every RDATA type with an embedded name, sign with the names in one
    // letter case and present them in another (both directions).  For the types of the RFC 4034 §6.2 /
    // RFC 6840 §5.1 list the canonical form is the same (still Secure is fine); for the case-preserving
    // types (NSEC, SVCB, HTTPS, ANAME, …) the signature does not cover the presented RDATA.
    {
        let mut er = Rng::new(6063);
        for _ in 0..o.n(8, 120) {
            for ty in NAME_BEARING_TYPES {
                for sign_lower in [true, false] {
                    let mut b = gen_base_full(&mut er, true, Some(*ty));
                    let mut any = false;
                    for q in b.recs.iter_mut() {
                        any |= set_embedded_case(&mut q.rd, *ty, sign_lower, &mut er);
                    }
                    if !any {
                        continue;
                    }
                    let Some(bytes) = b.s.ref_case(&b.name, 1, &b.recs).ref_signed_data() else { continue };
                    b.s.sig = sign_with(b.ki, &bytes);
                    for q in b.recs.iter_mut() {
                        set_embedded_case(&mut q.rd, *ty, !sign_lower, &mut er);
                    }
                    if let Some(l) = vk_line(&b, Proof::Secure) {
                        rec.stat(&format!("embedded-name-case.type-{ty}.signed-{}", if sign_lower { "lower" } else { "mixed" }));
                        exec(&l, rec);
                    }
                }
            }
        }
    }
    // unsupported-algorithm family (implementation only): DNSKEY and RRSIG name the same algorithm that the
    // crypto backend does not support (RSAMD5, DSA, ECC-GOST, ED448, private, unassigned); all other checks pass
    {
        let mut ur = Rng::new(6065);
        for _ in 0..o.n(2, 20) {
            for alg in [1u8, 3, 6, 12, 16, 253, 255] {
                let mut b = gen_base_with(&mut ur, true);
                b.k.alg = alg;
                b.s.alg = alg;
                b.s.tag = ref_key_tag(&b.k.rdata());
                if let Some(l) = vk_line(&b, Proof::Secure) {
                    rec.stat(&format!("unsupported-algorithm.vkp.{alg}"));
                    exec(&format!("vkp {}", l.strip_prefix("vk ").unwrap()), rec);
                }
            }
        }
    }
    // key-flag family: every flag value × {the zone's own DNSKEY RRset, a data RRset} through the hook,
    // and the DNSKEY RRset of the root zone through DnssecDnsHandle::send (implementation only)
    {
        let mut fr = Rng::new(6062);
        for round in 0..o.n(12, 120) {
            for flags in KEY_FLAGS {
                for want_dnskey in [true, false] {
                    let mut b = gen_base_with(&mut fr, true);
                    let mut tries = 0;
                    while (b.ty == 48) != want_dnskey && tries < 60 {
                        b = gen_base_with(&mut fr, true);
                        tries += 1;
                    }
                    b.k.flags = *flags;
                    if b.ty == 48 {
                        b.recs[0].rd = RD::Op(b.k.rdata());
                    }
                    b.s.tag = ref_key_tag(&b.k.rdata());
                    if let Some(bytes) = b.s.ref_case(&b.name, 1, &b.recs).ref_signed_data() {
                        b.s.sig = sign_with(b.ki, &bytes);
                        if let Some(l) = vk_line(&b, Proof::Secure) {
                            rec.stat(&format!("keyflags.vk.{}.{flags}", if want_dnskey { "dnskey-set" } else { "data-set" }));
                            exec(&l, rec);
                        }
                    }
                }
                if round < o.n(12, 60) {
                    if let Some(l) = gen_dk(&mut fr, *flags) {
                        rec.stat(&format!("keyflags.dk.{flags}"));
                        exec(&l, rec);
                    }
                }
            }
        }
    }
    // history part
    for h in hand_histories() {
        for l in h {
            exec(&l, rec);
        }
    }
    for i in 0..o.n(1440, 48_000) {
        let mut rr = r.fork();
        match catch(move || gen_history(&mut rr, i as u64 % 24)) {
            Ok(Some(h)) => {
                rec.stat(&format!("history.kind.{}", i % 24));
                for l in h {
                    exec(&l, rec);
                }
            }
            Ok(None) => rec.stat("generator.unbuildable"),
            Err(e) => {
                eprintln!("c06 generator panic: {e}");
                rec.stat("generator.panic");
            }
        }
    }
}
