//! C16 — only the queried server's matching reply completes a query.
//!
//! UDP: the real `UdpClientStream::send_message` over a scripted `DnsUdpSocket`/`RuntimeProvider`
//! in virtual time (`c16/udp.rs`, `c16/vtime.rs`).
//! Streams: the real `DnsMultiplexer` over a scripted `DnsClientStream`, polled by hand with a counting
//! waker (`c16/mux.rs`, begin…end blocks with a model side), and end to end through `DnsExchange` under
//! a wake-driven executor (`c16/xchg.rs`, implementation-vs-oracle only).
use std::net::{IpAddr, Ipv4Addr, Ipv6Addr, SocketAddr};

use crate::common::*;

#[path = "c16/mux.rs"]
mod mux;
#[path = "c16/udp.rs"]
mod udp;
#[path = "c16/vtime.rs"]
mod vtime;
#[path = "c16/xchg.rs"]
mod xchg;

use udp::{Ev, UdpCase, Q};

/// known-finding classes (known-findings.json); mirrored by `UdpMatch.endsUndecodable` / `endsCaseMismatch`
/// and `queryEndClass` in the Lean model, whose verdict is part of the compared output line (`k=`)
const CLASS_UNDECODABLE: &str = "C16.udp-query-ended-by-undecodable-or-nonresponse-datagram-from-queried-address";
const CLASS_CASE: &str = "C16.udp-query-ended-by-case-mismatched-reply";

/// state threaded through the lines of a multiplexer block
#[derive(Default)]
pub struct Ctx {
    mux: Option<mux::MuxRun>,
    begin_idx: usize,
    ops: usize,
}

pub fn exec(ctx: &mut Ctx, line: &str, rec: &mut Recorder) {
    let t: Vec<&str> = line.split_whitespace().collect();
    match t.first().copied() {
        Some("udp") => exec_udp(line, &t, rec),
        Some("idfill") => {
            let Some(n) = t.get(1).and_then(|x| x.parse::<usize>().ok()) else {
                rec.stat("skipped.unparsable-case");
                return;
            };
            let r = catch(|| mux::id_fill(n.min(65_536), rec));
            rec.impl_only += 1;
            match r {
                Ok((out, fails)) => {
                    let idx = rec.case(line.to_string(), out);
                    rec.stat("op.idfill");
                    if fails.is_empty() {
                        rec.nontrivial(idx);
                    }
                    for f in fails {
                        rec.fail(idx, f, "");
                    }
                }
                Err(p) => {
                    let idx = rec.case(line.to_string(), "~".into());
                    rec.fail(idx, format!("panic: {p}"), "");
                }
            }
        }
        Some("udp-sender-contract") => {
            rec.impl_only += 1;
            let idx = rec.case(line.to_string(), "~".into());
            rec.stat("op.udp-sender-contract");
            match catch(udp::sender_contract) {
                Ok(fails) => {
                    for f in fails {
                        rec.fail(idx, f, "");
                    }
                }
                Err(p) => rec.fail(idx, format!("panic: {p}"), ""),
            }
        }
        Some("consts") => {
            let out = source_consts().unwrap_or_else(|| "?".into());
            rec.case(line.to_string(), out);
            rec.stat("op.consts");
        }
        Some("xchg") => {
            let Some(c) = xchg::parse(&t) else {
                rec.stat("skipped.unparsable-case");
                return;
            };
            let r = catch(|| xchg::run(&c));
            rec.impl_only += 1;
            let idx = rec.case(line.to_string(), "~".into());
            rec.stat("op.xchg");
            match r {
                Ok((stats, fails)) => {
                    for s in stats {
                        rec.stat(&s);
                    }
                    if fails.is_empty() && c.k >= 2 {
                        rec.nontrivial(idx);
                    }
                    for f in fails {
                        rec.fail(idx, f, "");
                    }
                }
                Err(p) => rec.fail(idx, format!("panic: {p}"), ""),
            }
        }
        Some("begin") => {
            if let ["begin", "mux", tmo, m, st, ..] = t.as_slice() {
                if let (Ok(tmo), Ok(m), Some(st)) = (tmo.parse::<u64>(), m.parse::<usize>(), match *st { "0" | "0s" => Some(false), "1" | "1s" => Some(true), _ => None }) {
                    let signer = t[4].ends_with('s');
                    if signer {
                        rec.stat("mux.block.with_signer");
                    }
                    ctx.mux = Some(mux::MuxRun::new(tmo, m, st, signer));
                    ctx.begin_idx = rec.case(line.to_string(), "ok".into());
                    ctx.ops = 0;
                    rec.stat("op.mux.begin");
                    rec.stat(&format!("mux.block.stalled.{}", b(st)));
                    return;
                }
            }
            rec.stat("skipped.unparsable-case");
        }
        Some("end") => {
            let Some(mut m) = ctx.mux.take() else {
                rec.stat("skipped.unparsable-case");
                return;
            };
            let so = m.finish();
            let out = if m.id_reused { rec.impl_only += 1; "~".to_string() } else { so.out };
            let idx = rec.case(line.to_string(), out);
            for f in so.fails {
                rec.fail(idx, f, "");
            }
            rec.stat("op.mux.end");
            rec.stat(&format!("mux.block.max-concurrent.{}", m.max_concurrent.min(9)));
            if m.id_reused {
                rec.stat("mux.block.id-reused(model side dropped)");
            }
            let got: usize = m.callers.iter().map(|c| c.got).sum();
            // non-trivial block: at least two requests in flight together and a response reached a caller
            if m.max_concurrent >= 2 && got >= 1 {
                rec.nontrivial(ctx.begin_idx);
            }
        }
        Some(_) if ctx.mux.is_some() => {
            let m = ctx.mux.as_mut().unwrap();
            match m.step(&t) {
                None => rec.stat("skipped.unparsable-case"),
                Some(so) => {
                    let out = if m.id_reused { rec.impl_only += 1; "~".to_string() } else { so.out.clone() };
                    let idx = rec.case(line.to_string(), out);
                    ctx.ops += 1;
                    rec.stat(&format!("op.mux.{}", t[0]));
                    let kind = so.out.split(' ').next().unwrap_or("");
                    rec.stat(&format!("mux.{}.{}", t[0], kind));
                    if t[0] == "send" && t.contains(&"e") {
                        rec.stat("mux.send.request-does-not-encode");
                    }
                    if t[0] == "send" && t.contains(&"x") {
                        rec.stat("mux.send.axfr-question");
                    }
                    if t[0] == "deliver" {
                        rec.stat(&format!("mux.deliver.kind.{}", &t[1][..1]));
                    }
                    for f in so.fails {
                        rec.fail(idx, f, "");
                    }
                }
            }
        }
        _ => rec.stat("skipped.unparsable-case"),
    }
}

/// The five numeric constants the models hard-code, read from the source the harness was built from:
/// UDP loop bound, QOS_MAX_RECEIVE_MSGS, id tries, caller channel slots (buffer + 1), outbound slots.
fn source_consts() -> Option<String> {
    let root = std::env::var("HK_REPO").or_else(|_| std::env::var("HICKORY_REPO")).unwrap_or_else(|_| "/repo".into());
    let rd = |p: &str| std::fs::read_to_string(format!("{root}/{p}")).ok();
    fn num_after(s: &str, anchor: &str, then: &str) -> Option<u64> {
        let i = s.find(anchor)?;
        let s = &s[i + anchor.len()..];
        let j = s.find(then)?;
        let s = &s[j + then.len()..];
        let d: String = s.chars().take_while(|c| c.is_ascii_digit() || *c == '_').filter(|c| *c != '_').collect();
        d.parse().ok()
    }
    let udp = rd("crates/net/src/udp/udp_client_stream.rs")?;
    let mux = rd("crates/net/src/xfer/dns_multiplexer.rs")?;
    let xfer = rd("crates/net/src/xfer/mod.rs")?;
    let examined = num_after(&udp, "let mut recv_buf = vec![0; self.recv_buf_size];", "for _ in 0..")?;
    let qos = num_after(&mux, "const QOS_MAX_RECEIVE_MSGS: usize", "= ")?;
    let tries = num_after(&mux, "fn next_random_query_id", "for _ in 0..")?;
    let chan = num_after(&mux, "const QUERY_RESPONSE_BUFFER_SIZE: usize", "= ")?;
    let out = num_after(&xfer, "const DEFAULT_STREAM_BUFFER_SIZE: usize", "= ")?;
    // NextRandomUdpSocket retries a bind failing with AddrInUse/PermissionDenied while `attempted < ATTEMPT_RANDOM + 1`
    let udps = rd("crates/net/src/udp/udp_stream.rs")?;
    let attempt_random = num_after(&udps, "const ATTEMPT_RANDOM: usize", "= ")?;
    if !udps.contains("&& this.attempted < ATTEMPT_RANDOM + 1") {
        return None;
    }
    Some(format!("{examined} {qos} {tries} {} {} {}", chan + 1, out + 1, attempt_random + 1))
}

// ------------------------------------------------------------------------------------------------
// UDP

/// Is the descriptor of every scripted datagram what the real parser sees in its bytes?
fn script_consistent(c: &UdpCase) -> bool {
    for (t, sc) in c.scripts.iter().enumerate() {
        for (j, e) in sc.iter().enumerate() {
            if let Ev::D { parses, resp, id, qs, raw, hdr, .. } = e {
                if raw.is_none() && !*parses && hdr.is_none() {
                    return false;
                }
                let bytes = udp::dgram_bytes(t, j, e).unwrap().0;
                if bytes.len() > 512 {
                    return false;
                }
                let (p, r, i, q) = udp::abstract_bytes(&bytes);
                if p != *parses || (p && (r != *resp || i != *id || &q != qs)) {
                    if std::env::var("HKDEBUG").is_ok() {
                        eprintln!("inconsistent {t}.{j}: {} real=({p},{r},{i},{})", udp::ev_tok(e), udp::qs_tok(&q));
                    }
                    return false;
                }
            }
        }
    }
    true
}

fn exec_udp(line: &str, t: &[&str], rec: &mut Recorder) {
    let Some(c) = udp::parse_case(t) else {
        rec.stat("skipped.unparsable-case");
        return;
    };
    // the request, built the way the case says, and the case as it really is on the wire
    let Some((req, c)) = udp::prepare(&c) else {
        rec.stat("skipped.udp-case-not-buildable");
        return;
    };
    if !script_consistent(&c) {
        rec.stat("skipped.udp-descriptor-differs-from-bytes");
        return;
    }
    let r = catch(|| udp::run_case(&c, req));
    let run = match r {
        Err(p) => {
            let idx = rec.case(line.to_string(), format!("panic {p}"));
            rec.fail(idx, format!("panic: {p}"), "");
            return;
        }
        Ok(None) => {
            rec.stat("skipped.unparsable-case");
            return;
        }
        Ok(Some(run)) => run,
    };
    // the request that went out must be the scripted one, else the case says nothing
    if let Some(sent) = &run.sent_first {
        let (p, r, i, q) = udp::abstract_bytes(sent);
        if !(p && !r && i == c.id && q == c.qs) {
            rec.stat("skipped.udp-request-not-roundtrip");
            return;
        }
    }
    // Which scripted event ended the query, by the script and the clock alone: the last event a
    // transmission consumed, arriving exactly when the query ended in an error.  If it is the 1st or 2nd
    // datagram of its transmission and does not match the query, it was not skipped (a skip would have
    // kept the transmission waiting); on the 3rd the transmission is over either way.
    let interval = c.retry_interval.max(c.floor);
    let mut ender: Option<(usize, usize)> = None;
    if run.outcome == "err" {
        for (t, (sc, n)) in c.scripts.iter().zip(&run.consumed).enumerate() {
            if *n >= 1 && *n <= sc.len() {
                let at: u64 = t as u64 * interval
                    + sc[..*n].iter().map(|e| match e { Ev::E { delay } | Ev::D { delay, .. } => *delay }).sum::<u64>();
                if at == run.end_time {
                    ender = Some((t, *n - 1));
                    break;
                }
            }
        }
    }
    // (token for the output line, known-finding class, description)
    let mut not_skipped: Option<(&'static str, &'static str, String)> = None;
    if let Some((t, j)) = ender {
        if j + 1 < 3 {
            if let Some(why) = udp::mismatch(&c, &c.scripts[t][j]) {
                match why {
                    "not a datagram" => {} // recv_from error: not a datagram, a failed socket
                    "unparsable" | "not a response" => {
                        not_skipped = Some(("undecodable", CLASS_UNDECODABLE, format!("datagram {t}.{j} ({why}, from the queried address and port) ended the query with an error instead of being skipped")))
                    }
                    "letter case differs with case randomisation on" => {
                        not_skipped = Some(("case", CLASS_CASE, format!("datagram {t}.{j} (reply with right source and id whose question differs in letter case only, case randomisation on) ended the query with an error instead of being skipped")))
                    }
                    _ => not_skipped = Some(("other", "", format!("datagram {t}.{j} ({why}) ended the query with an error instead of being skipped"))),
                }
            }
        }
    }
    let out = format!(
        "{} c={} k={}",
        run.outcome,
        // (a request that does not encode fails before any socket is asked for: still one transmission)
        if run.consumed.is_empty() { "0".to_string() } else { run.consumed.iter().map(|x| x.to_string()).collect::<Vec<_>>().join(",") },
        not_skipped.as_ref().map(|x| x.0).unwrap_or("-")
    );
    let idx = rec.case(line.to_string(), out);
    if let Some((tok, class, what)) = &not_skipped {
        rec.stat(&format!("udp.not-skipped.{tok}"));
        rec.fail(idx, what.clone(), class);
    }
    rec.stat("op.udp");
    rec.stat(&format!("udp.outcome.{}", run.outcome.split(' ').next().unwrap()));
    rec.stat(&format!("udp.transmissions.{}", run.consumed.len()));
    rec.stat(&format!("udp.case_randomization.{}", b(c.case_rand)));
    rec.stat(&format!("udp.request-built-by.{}.questions-{}.case-rand-{}", match c.ctor { 'n' => "DnsRequest::new", 'o' => "new+with_original_query", 'm' => "From<Message>+options_mut", _ => "DnsRequest::from_query" }, c.qs.len().min(3), b(c.case_rand)));
    let total: usize = run.consumed.iter().sum();
    rec.stat(&format!("udp.consumed-total.{}", total.min(9)));
    // ---- oracle (script + implementation result only)
    if run.outcome == "hang" {
        rec.fail(idx, "query neither completed nor timed out", "");
    }
    if run.outcome == "ok ?" {
        rec.fail(idx, "query completed with a response that is none of the consumed datagrams", "");
    }
    if let Some((t, j)) = run.accepted {
        if j >= 3 {
            rec.fail(idx, format!("query completed by datagram {t}.{j}: the {}th to arrive on that transmission's socket (at most three may be examined)", j + 1), "");
        }
        let e = &c.scripts[t][j];
        if let Some(why) = udp::mismatch(&c, e) {
            rec.fail(idx, format!("accepted datagram {t}.{j}: {why}"), "");
        }
    }
    for (t, n) in run.consumed.iter().enumerate() {
        if *n > 3 {
            rec.fail(idx, format!("more than 3 datagrams examined in one transmission: transmission {t} took {n} from its socket"), "");
        }
    }
    // local side of each socket, as the builder options say
    for (t, bd) in run.bound.iter().enumerate() {
        let Some(bd) = bd else { continue };
        let ok = match run.variant {
            1 => *bd == udp::fixed_bind_addr(&c.server),
            2 => bd.port() == 0,
            3 => bd.port() == 0 || !udp::avoided_ports().contains(&bd.port()),
            _ => bd.port() >= 1024 || (bd.port() == 0 && run.binds[t] > 10),
        };
        if !ok || bd.is_ipv4() != c.server.is_ipv4() {
            rec.fail(idx, format!("transmission {t} bound its socket to {bd} (builder variant {})", run.variant), "");
        }
    }
    rec.stat(&format!("udp.builder-variant.{}", ["default", "with_bind_addr", "os_port_selection", "avoid_local_ports"][run.variant as usize]));
    if let Some(done) = run.bg_done {
        rec.stat("udp.entry.exchange()+DnsHandle::send");
        if !done {
            rec.fail(idx, "the DnsExchange background task did not end after every handle was dropped", "");
        }
    } else {
        rec.stat("udp.entry.build()+send_message");
    }
    for su in &c.setups {
        if *su != udp::Setup::default() {
            rec.stat(&format!("udp.setup.{:?}.{:?}", su.bind, su.send).replace(|ch: char| ch.is_ascii_digit() || ch == '(' || ch == ')', ""));
        }
    }
    if c.unencodable {
        rec.stat("udp.request-does-not-encode");
    }
    if c.signer {
        rec.stat(&format!("udp.with_signer.request-{}", if c.qs.iter().any(|q| q.qtype == 252 || q.qtype == 251) { "signed" } else { "not-signed(no AXFR/IXFR question)" }));
    }
    if !run.all_sent_to_server {
        rec.fail(idx, "a transmission went to an address other than the queried server", "");
    }
    // non-trivial: something forged was examined, or a reply was accepted after at least one other datagram
    let forged_examined = c.scripts.iter().zip(&run.consumed).any(|(sc, n)| sc.iter().take(*n).any(|e| udp::mismatch(&c, e).is_some()));
    if forged_examined || run.accepted.map(|(t, j)| t + j > 0).unwrap_or(false) {
        rec.nontrivial(idx);
    }
    for (sc, n) in c.scripts.iter().zip(&run.consumed) {
        for e in sc.iter().take(*n) {
            if let Ev::D { hdr: Some(h), .. } = e {
                rec.stat(&format!("udp.examined.header.TC={} opcode={} rcode={}", (h >> 9) & 1, (h >> 11) & 15, h & 15));
            }
            rec.stat(&format!("udp.examined.{}", udp::mismatch(&c, e).unwrap_or("matching").replace(' ', "-")));
        }
    }
}

// ---- generator

fn gen_label(r: &mut Rng) -> Vec<u8> {
    let n = r.range(1, 8) as usize;
    (0..n)
        .map(|_| match r.below(12) {
            0 => b'0' + r.below(10) as u8,
            1 => b'-',
            2 => r.byte(), // arbitrary octet
            3..=6 => b'A' + r.below(26) as u8,
            _ => b'a' + r.below(26) as u8,
        })
        .collect()
}

fn gen_q(r: &mut Rng) -> Q {
    let n = r.range(1, 4) as usize;
    Q {
        labels: (0..n).map(|_| gen_label(r)).collect(),
        qtype: *r.pick(&[1u16, 1, 1, 28, 15, 16, 2, 6, 255, 65, 12345, 252, 251]),
        qclass: *r.pick(&[1u16, 1, 1, 1, 3, 255, 4000]),
    }
}

fn flip_case(r: &mut Rng, q: &Q) -> Q {
    let mut q = q.clone();
    let mut flipped = false;
    for l in q.labels.iter_mut() {
        for c in l.iter_mut() {
            if c.is_ascii_alphabetic() && r.chance(1, 2) {
                *c ^= 0x20;
                flipped = true;
            }
        }
    }
    if !flipped {
        // make sure at least one letter differs if there is a letter at all
        'o: for l in q.labels.iter_mut() {
            for c in l.iter_mut() {
                if c.is_ascii_alphabetic() {
                    *c ^= 0x20;
                    break 'o;
                }
            }
        }
    }
    q
}

fn gen_ip(r: &mut Rng) -> IpAddr {
    match r.below(4) {
        0 => IpAddr::V6(Ipv6Addr::from(((r.next() as u128) << 64) | r.next() as u128)),
        1 => IpAddr::V6(Ipv4Addr::from(r.next() as u32).to_ipv6_mapped()),
        _ => IpAddr::V4(Ipv4Addr::from(r.next() as u32)),
    }
}

/// the other spelling of the same canonical address, if there is one
fn alias_ip(ip: IpAddr) -> Option<IpAddr> {
    match ip {
        IpAddr::V4(x) => Some(IpAddr::V6(x.to_ipv6_mapped())),
        IpAddr::V6(x) => x.to_ipv4_mapped().map(IpAddr::V4),
    }
}

fn near_ip(r: &mut Rng, ip: IpAddr) -> IpAddr {
    match ip {
        IpAddr::V4(x) => IpAddr::V4(Ipv4Addr::from(u32::from(x) ^ (1 << r.below(32)))),
        IpAddr::V6(x) => match r.below(3) {
            // IPv4-compatible (not mapped) form of a mapped address, or a flipped bit
            0 if x.to_ipv4_mapped().is_some() => IpAddr::V6(Ipv6Addr::from(u128::from(x) & 0xffff_ffff)),
            _ => IpAddr::V6(Ipv6Addr::from(u128::from(x) ^ (1u128 << r.below(128)))),
        },
    }
}

const KINDS: &[&str] = &[
    "genuine", "genuine", "genuine", "wrong-ip", "wrong-port", "alias-ip", "wrong-id", "wrong-name", "wrong-type",
    "wrong-class", "extra-question", "no-question", "one-of-two", "case-flip", "garbage", "truncated", "query-type",
    "io-err", "wrong-ip-garbage", "dup-question",
];

fn gen_event(r: &mut Rng, c: &UdpCase, kind: &str, delay: u64) -> Ev {
    let mut src = c.server;
    let mut id = c.id;
    let mut qs = c.qs.clone();
    let mut resp = true;
    let mut raw: Option<Vec<u8>> = None;
    match kind {
        "wrong-ip" => src.set_ip(if r.chance(1, 2) { near_ip(r, c.server.ip()) } else { gen_ip(r) }),
        "wrong-port" => src.set_port(if r.chance(1, 2) { c.server.port() ^ (1 << r.below(16)) } else { r.next() as u16 }),
        "alias-ip" => {
            if let Some(a) = alias_ip(c.server.ip()) {
                src.set_ip(a)
            }
        }
        "wrong-id" => id = if r.chance(1, 2) { c.id ^ (1 << r.below(16)) } else { r.next() as u16 },
        "wrong-name" => {
            if qs.is_empty() || r.chance(1, 3) {
                qs = vec![gen_q(r)];
            } else {
                let k = r.below(qs.len() as u64) as usize;
                match r.below(3) {
                    0 => qs[k].labels.insert(0, gen_label(r)),
                    1 => {
                        let l = r.below(qs[k].labels.len() as u64) as usize;
                        let p = r.below(qs[k].labels[l].len() as u64) as usize;
                        qs[k].labels[l][p] = qs[k].labels[l][p].wrapping_add(1 + r.below(5) as u8);
                    }
                    _ => {
                        if qs[k].labels.len() > 1 {
                            qs[k].labels.remove(0);
                        } else {
                            qs[k].labels.push(gen_label(r));
                        }
                    }
                }
            }
        }
        "wrong-type" => {
            if let Some(q) = qs.first_mut() {
                q.qtype = q.qtype.wrapping_add(1 + r.below(3) as u16)
            }
        }
        "wrong-class" => {
            if let Some(q) = qs.first_mut() {
                q.qclass = q.qclass.wrapping_add(1 + r.below(3) as u16)
            }
        }
        "extra-question" => {
            let e = gen_q(r);
            let at = r.below(qs.len() as u64 + 1) as usize;
            qs.insert(at, e);
        }
        "no-question" => qs.clear(),
        "one-of-two" => {
            if qs.len() > 1 {
                let k = r.below(qs.len() as u64) as usize;
                qs.remove(k);
            }
        }
        "dup-question" => {
            if let Some(q) = qs.first().cloned() {
                qs.push(if r.chance(1, 2) { flip_case(r, &q) } else { q });
            }
        }
        "case-flip" => {
            if !qs.is_empty() {
                let k = r.below(qs.len() as u64) as usize;
                qs[k] = flip_case(r, &qs[k]);
            }
        }
        "query-type" => resp = false,
        "garbage" | "wrong-ip-garbage" => {
            let n = r.below(40) as usize;
            let mut g = r.bytes(n);
            if g.len() >= 2 && r.chance(1, 2) {
                g[0] = (c.id >> 8) as u8;
                g[1] = c.id as u8;
            }
            raw = Some(g);
            if kind == "wrong-ip-garbage" {
                src.set_ip(near_ip(r, c.server.ip()));
            }
        }
        "truncated" => {
            let full = udp::encode_dgram(c.id, true, &c.qs, 0x7fff_0000 | r.below(65536) as u32);
            let cut = r.below(full.len() as u64) as usize;
            raw = Some(full[..cut].to_vec());
        }
        "io-err" => return Ev::E { delay },
        _ => {}
    }
    if let Some(bytes) = &raw {
        let (p, rr, i, q) = udp::abstract_bytes(bytes);
        return Ev::D { delay, src, parses: p, resp: rr, id: i, qs: q, raw, hdr: None };
    }
    // header bits of every descriptor-built datagram are varied: the loop must not look at them
    // (QR aside).  The descriptor is what the real parser makes of the bytes (an odd opcode may not parse).
    if r.chance(1, 2) {
        let opcode: u16 = *r.pick(&[0u16, 0, 0, 0, 1, 2, 4, 5, 3, 9]);
        let rcode: u16 = *r.pick(&[0u16, 0, 0, 1, 2, 3, 5, 9, 15]);
        let mut h = (opcode << 11) | rcode | (r.next() as u16 & 0x07b0);
        if r.chance(1, 2) {
            h |= 0x0200; // TC
        }
        if resp {
            h |= 0x8000;
        }
        let bytes = udp::encode_dgram_hdr(id, resp, &qs, 1, Some(h));
        let (p, rr, i, q) = udp::abstract_bytes(&bytes);
        if p {
            return Ev::D { delay, src, parses: true, resp: rr, id: i, qs: q, raw: None, hdr: Some(h) };
        }
        return Ev::D { delay, src, parses: false, resp: false, id: 0, qs: vec![], raw: None, hdr: Some(h) };
    }
    Ev::D { delay, src, parses: true, resp, id, qs, raw: None, hdr: None }
}

fn gen_udp(r: &mut Rng) -> UdpCase {
    let nq = match r.below(20) {
        0 => 0,
        1 | 2 | 3 => 2,
        4 => 3,
        _ => 1,
    };
    // every public way to obtain a DnsRequest (from_query takes exactly one question)
    let ctor = if nq == 1 { *r.pick(&['n', 'o', 'm', 'f', 'f']) } else { *r.pick(&['n', 'o', 'm']) };
    let interval = *r.pick(&[400u64, 1000, 2600]);
    let (retry_interval, floor) = match r.below(3) {
        0 => (interval, *r.pick(&[0u64, 100, interval])),
        1 => (*r.pick(&[0u64, 10, interval]), interval),
        _ => (interval, interval),
    };
    let mut c = UdpCase {
        timeout: *r.pick(&[2010u64, 5010, 810]),
        retry_interval,
        floor,
        max_retries: *r.pick(&[0u8, 1, 2, 3, 3, 3, 5]),
        server: SocketAddr::new(gen_ip(r), if r.chance(2, 3) { 53 } else { r.range(1, 65535) as u16 }),
        id: r.next() as u16,
        case_rand: r.chance(1, 2),
        ctor,
        via_exchange: r.chance(1, 4),
        unencodable: ctor != 'f' && r.chance(1, 40),
        signer: r.chance(1, 6),
        qs: (0..nq).map(|_| gen_q(r)).collect(),
        scripts: vec![],
        setups: vec![],
    };
    let tasks = (c.max_retries as u64).max(1);
    let n_scripts = r.below(tasks + 1).min(4) as usize + if r.chance(1, 2) { 1 } else { 0 };
    // absolute instants already used by another socket or by a timer: never reuse one
    let mut used: Vec<u64> = (0..=tasks).map(|i| i * interval).collect();
    used.push(c.timeout);
    for t in 0..n_scripts.min(tasks as usize) {
        let n = match r.below(10) {
            0 => 0,
            1..=3 => r.range(1, 2),
            4..=7 => r.range(2, 4),
            _ => r.range(3, 6),
        } as usize;
        let start = t as u64 * interval;
        let mut at = start;
        let mut sc = vec![];
        let mut mine: Vec<u64> = vec![];
        let hostile = r.chance(1, 3);
        // "k skipped-kind forgeries, then the genuine reply": k = 3 is the loop bound
        let prefix: Option<usize> = if r.chance(1, 3) { Some(r.below(5) as usize) } else { None };
        // "a run of 3-6 wrong-source datagrams, then the genuine reply": the budget of three counts them
        let src_run: Option<usize> = if prefix.is_none() && r.chance(1, 4) { Some(r.range(3, 6) as usize) } else { None };
        let prefix = prefix.or(src_run);
        let n = match prefix {
            Some(k) => k + 1 + r.below(2) as usize,
            None => n,
        };
        for j in 0..n {
            let mut d = match if src_run.is_some() { r.below(4) } else { r.below(6) } {
                0..=2 => 0,
                3 => r.range(1, 50),
                4 => r.range(1, interval),
                _ => r.range(1, 2 * interval),
            };
            while d > 0 && used.contains(&(at + d)) {
                d += 1;
            }
            at += d;
            mine.push(at);
            let kind = match prefix {
                Some(k) if j < k && src_run.is_some() => *r.pick(&["wrong-ip", "wrong-port", "wrong-port", "wrong-ip-garbage"]),
                Some(k) if j < k => *r.pick(&["wrong-ip", "wrong-port", "wrong-id", "wrong-name", "wrong-type", "extra-question", "wrong-ip-garbage"]),
                Some(k) if j == k => "genuine",
                _ => if hostile && r.chance(2, 3) { *r.pick(&KINDS[3..]) } else { *r.pick(KINDS) },
            };
            sc.push(gen_event(r, &c, kind, d));
        }
        used.extend(mine);
        c.scripts.push(sc);
        // socket set-up of this transmission: mostly fine
        c.setups.push(if r.chance(1, 8) {
            let n = *r.pick(&[1u32, 2, 5, 10, 11, 12, 13, 40]);
            match r.below(6) {
                0 | 1 => udp::Setup { bind: udp::Bind::InUse(n), send: udp::SendMode::Ok },
                2 => udp::Setup { bind: udp::Bind::Denied(n), send: udp::SendMode::Ok },
                3 => udp::Setup { bind: if r.chance(1, 2) { udp::Bind::Other } else { udp::Bind::Slow }, send: udp::SendMode::Ok },
                4 => udp::Setup { bind: udp::Bind::Ok, send: udp::SendMode::Err },
                _ => udp::Setup { bind: if r.chance(1, 3) { udp::Bind::InUse(3) } else { udp::Bind::Ok }, send: udp::SendMode::Short },
            }
        } else {
            udp::Setup::default()
        });
    }
    c
}

// ---- multiplexer generator (online: the next op is chosen looking at what exists so far)

fn mux_block(r: &mut Rng, ctx: &mut Ctx, rec: &mut Recorder, serial: usize) {
    let scenario = r.below(10);
    let timeout = *r.pick(&[1000u64, 1000, 300, 5000]);
    let (max_active, stalled) = match scenario {
        0 => (r.range(1, 3) as usize, false), // Busy
        1 => (r.range(34, 40) as usize, true), // stalled writer: the outbound buffer fills
        _ => (32, false),
    };
    let signer = r.chance(1, 6);
    exec(ctx, &format!("begin mux {timeout} {max_active} {}{} #{serial}", b(stalled), if signer { "s" } else { "" }), rec);
    let mut next_k = 0usize;
    let mut enc = r.fork();
    let mut send = |ctx: &mut Ctx, rec: &mut Recorder, next_k: &mut usize| {
        // now and then a request that does not encode: error stream, nothing registered
        exec(ctx, &format!("send {}{}{}", *next_k, if enc.chance(1, 25) { " e" } else { "" }, if enc.chance(1, 4) { " x" } else { "" }), rec);
        *next_k += 1;
    };
    match scenario {
        1 => {
            // stalled: sends, cancels and polls only
            let n = r.range(30, 45);
            for _ in 0..n {
                match r.below(6) {
                    0..=2 => send(ctx, rec, &mut next_k),
                    3 if next_k > 0 => exec(ctx, &format!("cancel {}", r.below(next_k as u64)), rec),
                    4 => exec(ctx, "poll", rec),
                    _ => {
                        if next_k > 0 {
                            exec(ctx, &format!("cancel {}", next_k - 1), rec);
                        }
                        exec(ctx, "poll", rec);
                        send(ctx, rec, &mut next_k);
                    }
                }
            }
            if next_k > 0 {
                exec(ctx, &format!("deliver r{} 1", r.below(next_k as u64)), rec);
            }
        }
        2 | 3 => {
            // k concurrent requests, responses in a random order, some twice, some never, strangers in between
            let k = r.range(2, 8) as usize;
            for _ in 0..k {
                send(ctx, rec, &mut next_k);
                if r.chance(1, 4) {
                    exec(ctx, "poll", rec);
                }
            }
            let mut order: Vec<usize> = (0..k).collect();
            for i in (1..k).rev() {
                order.swap(i, r.below(i as u64 + 1) as usize);
            }
            for &j in &order {
                match r.below(8) {
                    0 => {} // never answered
                    1 => exec(ctx, &format!("deliver r{j} 2"), rec),
                    2 => {
                        exec(ctx, "deliver u 1", rec);
                        exec(ctx, &format!("deliver r{j} 1"), rec);
                    }
                    3 => {
                        exec(ctx, &format!("deliver q{j} 1"), rec);
                        exec(ctx, &format!("deliver r{j} 1"), rec);
                    }
                    _ => exec(ctx, &format!("deliver r{j} 1"), rec),
                }
                if r.chance(1, 3) {
                    exec(ctx, "poll", rec);
                }
                if r.chance(1, 5) {
                    exec(ctx, &format!("recv {}", r.below(k as u64)), rec);
                }
            }
            exec(ctx, "poll", rec);
            if r.chance(1, 3) {
                exec(ctx, &format!("advance {}", timeout + 1), rec);
                exec(ctx, "poll", rec);
            }
            if r.chance(1, 4) {
                exec(ctx, if r.chance(1, 2) { "deliver c 1" } else { "deliver e 1" }, rec);
                exec(ctx, "poll", rec);
            }
        }
        4 => {
            // flood: the QoS bound
            let k = r.range(1, 3) as usize;
            for _ in 0..k {
                send(ctx, rec, &mut next_k);
            }
            let total = *r.pick(&[99u64, 100, 101, 150, 199, 200, 201, 250]);
            let mut left = total;
            while left > 0 {
                let n = r.range(1, left.min(120));
                let kind = match r.below(4) {
                    0 => "u".to_string(),
                    1 => "g".to_string(),
                    _ => format!("r{}", r.below(k as u64)),
                };
                exec(ctx, &format!("deliver {kind} {n}"), rec);
                left -= n;
            }
            for _ in 0..r.range(1, 4) {
                exec(ctx, "poll", rec);
                if r.chance(1, 2) {
                    exec(ctx, &format!("recv {}", r.below(k as u64)), rec);
                }
            }
        }
        _ => {
            let n = r.range(8, 40);
            let mut over = false; // the script has shut the multiplexer down or closed the stream
            for _ in 0..n {
                let have = next_k > 0;
                let any = |r: &mut Rng| r.below(next_k.max(1) as u64);
                match r.below(100) {
                    0..=24 if !over || r.chance(1, 8) => send(ctx, rec, &mut next_k),
                    25..=49 if have => {
                        let cnt = match r.below(12) {
                            0 => r.range(2, 4),
                            1 => r.range(8, 12), // overflow the caller's buffer
                            _ => 1,
                        };
                        exec(ctx, &format!("deliver r{} {cnt}", any(r)), rec)
                    }
                    50..=53 => exec(ctx, &format!("deliver u {}", r.range(1, 2)), rec),
                    54..=55 => exec(ctx, "deliver g 1", rec),
                    56..=58 if have => exec(ctx, &format!("deliver q{} 1", any(r)), rec),
                    59..=76 => exec(ctx, "poll", rec),
                    77..=88 if have => exec(ctx, &format!("recv {}", any(r)), rec),
                    89..=92 if have => exec(ctx, &format!("cancel {}", any(r)), rec),
                    93..=96 => {
                        let dt = *r.pick(&[timeout / 3, timeout / 2 + 1, timeout, 1]);
                        exec(ctx, &format!("advance {dt}"), rec)
                    }
                    97 => {
                        over = true;
                        exec(ctx, if r.chance(1, 2) { "deliver c 1" } else { "deliver e 1" }, rec)
                    }
                    98 => {
                        over = true;
                        exec(ctx, "shutdown", rec)
                    }
                    _ => exec(ctx, "poll", rec),
                }
            }
        }
    }
    exec(ctx, "end", rec);
}

/// every delivery sequence of length <= `len` over {r0, …, r(k-1), u} for k concurrent requests,
/// polled after each delivery (`each`) or once at the end
fn mux_enumerate(ctx: &mut Ctx, rec: &mut Recorder, k: usize, len: usize, serial: &mut usize) {
    let alphabet = k + 1;
    for l in 0..=len {
        let total = alphabet.pow(l as u32);
        for code in 0..total {
            for each in [false, true] {
                *serial += 1;
                exec(ctx, &format!("begin mux 1000 32 0 #e{serial}"), rec);
                for j in 0..k {
                    exec(ctx, &format!("send {j}"), rec);
                }
                let mut c = code;
                for _ in 0..l {
                    let x = c % alphabet;
                    c /= alphabet;
                    let line = if x == k { "deliver u 1".to_string() } else { format!("deliver r{x} 1") };
                    exec(ctx, &line, rec);
                    if each {
                        exec(ctx, "poll", rec);
                    }
                }
                exec(ctx, "poll", rec);
                exec(ctx, "end", rec);
            }
        }
    }
}

fn gen_xchg(r: &mut Rng) -> String {
    let k = r.range(1, 8) as usize;
    let flood = *r.pick(&[0usize, 0, 0, 1, 50, 99, 100, 101, 150, 200, 250]);
    let mut order: Vec<usize> = (0..k).collect();
    for i in (1..k).rev() {
        order.swap(i, r.below(i as u64 + 1) as usize);
    }
    let mut script: Vec<String> = vec![];
    for j in order {
        match r.below(8) {
            0 => {}
            1 => {
                script.push(format!("r{j}"));
                script.push(format!("r{j}"));
            }
            2 => {
                script.push("u".into());
                script.push(format!("r{j}"));
            }
            _ => script.push(format!("r{j}")),
        }
        if r.chance(1, 25) {
            script.push(if r.chance(1, 2) { "c".into() } else { "e".into() });
        }
    }
    let mut mods: Vec<String> = vec![];
    if r.chance(1, 4) {
        mods.push("clone".into());
    }
    if r.chance(1, 6) {
        mods.push(format!("dropcaller{}", r.below(k as u64)));
    }
    if r.chance(1, 8) {
        mods.push(if r.chance(1, 2) { "bgdrop0".into() } else { "bgdrop1".into() });
        if r.chance(1, 2) {
            mods.push("late".into());
        }
    }
    format!(
        "xchg {k} {flood} {} {}{}",
        b(r.chance(1, 2)),
        if script.is_empty() { "-".to_string() } else { script.join(",") },
        if mods.is_empty() { String::new() } else { format!(" {}", mods.join(",")) }
    )
}

/// Small-scope validation of the loop model.  For one single-question request built in each of the
/// four public ways x case randomisation on/off: every arrival sequence of length <= `len` over 11 fixed
/// event kinds on one transmission; runs of 3-5 wrong-source datagrams before the genuine reply; and for
/// requests with two and three questions (three ways to build them) every sequence of length <= 2 over
/// 8 kinds of question sections.
fn udp_enumerate(ctx: &mut Ctx, rec: &mut Recorder, len: usize) {
    let server: SocketAddr = "192.168.1.1:53".parse().unwrap();
    let q = Q { labels: vec![b"ExAmPlE".to_vec(), b"cOm".to_vec()], qtype: 1, qclass: 1 };
    let ql = Q { labels: vec![b"example".to_vec(), b"com".to_vec()], qtype: 1, qclass: 1 };
    let other = Q { labels: vec![b"evil".to_vec(), b"com".to_vec()], qtype: 1, qclass: 1 };
    let q2 = Q { labels: vec![b"SeConD".to_vec(), b"oRg".to_vec()], qtype: 28, qclass: 1 };
    let q2l = Q { labels: vec![b"second".to_vec(), b"org".to_vec()], qtype: 28, qclass: 1 };
    let q3 = Q { labels: vec![b"tHiRd".to_vec()], qtype: 16, qclass: 1 };
    let d = |src: SocketAddr, id: u16, resp: bool, qs: Vec<Q>| Ev::D { delay: 0, src, parses: true, resp, id, qs, raw: None, hdr: None };
    let mapped = SocketAddr::new(IpAddr::V6(Ipv4Addr::new(192, 168, 1, 1).to_ipv6_mapped()), 53);
    let wrong_ip: SocketAddr = "192.168.1.2:53".parse().unwrap();
    let wrong_port: SocketAddr = "192.168.1.1:54".parse().unwrap();
    let kinds: Vec<Ev> = vec![
        d(server, 4660, true, vec![q.clone()]),
        d(wrong_ip, 4660, true, vec![q.clone()]),
        d(wrong_port, 4660, true, vec![q.clone()]),
        d(mapped, 4660, true, vec![q.clone()]),
        d(server, 4661, true, vec![q.clone()]),
        d(server, 4660, true, vec![other.clone()]),
        d(server, 4660, true, vec![q.clone(), other.clone()]),
        d(server, 4660, true, vec![ql.clone()]),
        Ev::D { delay: 0, src: server, parses: false, resp: false, id: 0, qs: vec![], raw: Some(vec![0]), hdr: None },
        d(server, 4660, false, vec![q.clone()]),
        Ev::E { delay: 0 },
    ];
    let base = |case_rand: bool, ctor: char, qs: Vec<Q>, sc: Vec<Ev>| UdpCase {
        timeout: 5010,
        retry_interval: 1000,
        floor: 1000,
        max_retries: 1,
        server,
        id: 4660,
        case_rand,
        ctor,
        via_exchange: false,
        unencodable: false,
        signer: false,
        qs,
        scripts: vec![sc],
        setups: vec![],
    };
    // header bits: every foreign-question / case-flipped / no-question reply from the queried address with
    // the right id, with TC and other flag sets, rcodes and opcodes, ahead of the genuine reply
    {
        let qt = Q { labels: q.labels.clone(), qtype: 28, qclass: 1 };
        let qc = Q { labels: q.labels.clone(), qtype: 1, qclass: 3 };
        let sections: Vec<Vec<Q>> = vec![
            vec![other.clone()],
            vec![qt],
            vec![qc],
            vec![ql.clone()],
            vec![q.clone(), other.clone()],
            vec![],
            vec![q.clone()],
        ];
        // TC; AA|RA; AD|CD; NXDOMAIN; SERVFAIL|TC; opcode UPDATE; opcode NOTIFY|AA; TC|AA|RA|AD|CD|REFUSED; plain
        let flag_sets: [u16; 9] = [0x8380, 0x8580, 0x81b0, 0x8183, 0x8382, 0xa980, 0xa500, 0x87b5, 0x8180];
        for ctor in ['n', 'f'] {
            for case_rand in [false, true] {
                for sec in &sections {
                    for h in flag_sets {
                        for (wrong_id, wrong_src) in [(false, false), (true, false), (false, true)] {
                            let forged = Ev::D {
                                delay: 0,
                                src: if wrong_src { wrong_port } else { server },
                                parses: true,
                                resp: true,
                                id: if wrong_id { 4661 } else { 4660 },
                                qs: sec.clone(),
                                raw: None,
                                hdr: Some(h),
                            };
                            let genuine = Ev::D { delay: 1, src: server, parses: true, resp: true, id: 4660, qs: vec![q.clone()], raw: None, hdr: Some(h ^ 0x0200) };
                            exec(ctx, &udp::case_line(&base(case_rand, ctor, vec![q.clone()], vec![forged, genuine])), rec);
                        }
                    }
                }
            }
        }
    }
    // the other entry point (exchange() + DnsHandle::send): all sequences of length <= 2
    for ctor in ['n', 'f'] {
        for case_rand in [false, true] {
            for l in 0..=2usize {
                for code in 0..kinds.len().pow(l as u32) {
                    let mut c = code;
                    let mut sc = vec![];
                    for _ in 0..l {
                        sc.push(kinds[c % kinds.len()].clone());
                        c /= kinds.len();
                    }
                    let mut case = base(case_rand, ctor, vec![q.clone()], sc);
                    case.via_exchange = true;
                    exec(ctx, &udp::case_line(&case), rec);
                }
            }
        }
    }
    // socket set-up failures (bind retry budget of NextRandomUdpSocket, send errors, short sends), on the
    // first and on the second transmission, both entry points; and a request that does not encode
    {
        use udp::{Bind, SendMode, Setup};
        let mut sus = vec![];
        for n in [1u32, 10, 11, 12, 13, 100] {
            sus.push(Setup { bind: Bind::InUse(n), send: SendMode::Ok });
            sus.push(Setup { bind: Bind::Denied(n), send: SendMode::Ok });
        }
        sus.push(Setup { bind: Bind::Other, send: SendMode::Ok });
        sus.push(Setup { bind: Bind::Slow, send: SendMode::Ok });
        sus.push(Setup { bind: Bind::Ok, send: SendMode::Err });
        sus.push(Setup { bind: Bind::Ok, send: SendMode::Short });
        sus.push(Setup { bind: Bind::InUse(11), send: SendMode::Short });
        for su in sus {
            for via in [false, true] {
                let mut case = base(false, 'n', vec![q.clone()], vec![kinds[0].clone()]);
                case.via_exchange = via;
                case.setups = vec![su];
                exec(ctx, &udp::case_line(&case), rec);
                // on the retransmission, the first transmission hearing nothing / only a forgery
                let mut case = base(true, 'o', vec![q.clone()], vec![kinds[4].clone()]);
                case.max_retries = 3;
                case.via_exchange = via;
                case.scripts.push(vec![kinds[0].clone()]);
                case.scripts.push(vec![kinds[0].clone()]);
                case.setups = vec![Setup::default(), su, Setup::default()];
                exec(ctx, &udp::case_line(&case), rec);
            }
        }
        // a TSIG signer: an AXFR question is signed (the unsigned reply then fails verification), an A question is not
        let qx = Q { labels: q.labels.clone(), qtype: 252, qclass: 1 };
        for (asked, section) in [(q.clone(), q.clone()), (qx.clone(), qx.clone()), (qx.clone(), Q { labels: ql.labels.clone(), qtype: 252, qclass: 1 })] {
            for case_rand in [false, true] {
                for via in [false, true] {
                    for pre in [None, Some(kinds[4].clone()), Some(kinds[1].clone())] {
                        let mut sc: Vec<Ev> = pre.into_iter().collect();
                        sc.push(d(server, 4660, true, vec![section.clone()]));
                        sc.push(d(server, 4660, true, vec![asked.clone()]));
                        let mut case = base(case_rand, 'n', vec![asked.clone()], sc);
                        case.via_exchange = via;
                        case.signer = true;
                        exec(ctx, &udp::case_line(&case), rec);
                    }
                }
            }
        }
        for ctor in ['n', 'o', 'm'] {
            for via in [false, true] {
                let mut case = base(via, ctor, vec![q.clone()], vec![kinds[0].clone()]);
                case.via_exchange = via;
                case.unencodable = true;
                exec(ctx, &udp::case_line(&case), rec);
            }
        }
    }
    for ctor in ['n', 'o', 'm', 'f'] {
        for case_rand in [false, true] {
            for l in 0..=len {
                for code in 0..kinds.len().pow(l as u32) {
                    let mut c = code;
                    let mut sc = vec![];
                    for _ in 0..l {
                        sc.push(kinds[c % kinds.len()].clone());
                        c /= kinds.len();
                    }
                    exec(ctx, &udp::case_line(&base(case_rand, ctor, vec![q.clone()], sc)), rec);
                }
            }
            // the budget of three counts wrong-source datagrams: runs of 3..=5 of them, then the reply
            for l in 3..=5usize {
                for code in 0..(1usize << l) {
                    let mut sc: Vec<Ev> = (0..l).map(|i| d(if code >> i & 1 == 1 { wrong_port } else { wrong_ip }, 4660, true, vec![q.clone()])).collect();
                    sc.push(d(server, 4660, true, vec![q.clone()]));
                    exec(ctx, &udp::case_line(&base(case_rand, ctor, vec![q.clone()], sc)), rec);
                }
            }
        }
    }
    // several questions
    for asked in [vec![q.clone(), q2.clone()], vec![q.clone(), q2.clone(), q3.clone()]] {
        let sections: Vec<Vec<Q>> = vec![
            asked.clone(),
            vec![q.clone()],
            vec![q2.clone(), q.clone()],
            vec![q.clone(), q2l.clone()],
            vec![ql.clone()],
            vec![q2l.clone(), ql.clone()],
            vec![q.clone(), other.clone()],
            vec![],
        ];
        for ctor in ['n', 'o', 'm'] {
            for case_rand in [false, true] {
                for l in 1..=2usize {
                    for code in 0..sections.len().pow(l as u32) {
                        let mut c = code;
                        let mut sc = vec![];
                        for _ in 0..l {
                            sc.push(d(server, 4660, true, sections[c % sections.len()].clone()));
                            c /= sections.len();
                        }
                        exec(ctx, &udp::case_line(&base(case_rand, ctor, asked.clone(), sc)), rec);
                    }
                }
            }
        }
    }
}

pub fn run(o: &Opts, rec: &mut Recorder) {
    rec.rule = "UDP lines: requests obtained in each public way (DnsRequest::new, new+with_original_query, From<Message>+options_mut, from_query) with 0-3 questions; scripted arrival lists (genuine reply + forged datagrams of 17 kinds: wrong ip/port/id/name/type/class, extra/duplicate/missing question, case flip, garbage, truncation, QR=0, recv error, v4-mapped alias) per transmission, with delays, with and without case randomisation; a case is non-trivial when a non-matching datagram was examined or a reply was accepted after at least one other datagram; distinct by case line. Multiplexer blocks (begin…end): k concurrent requests on a scripted stream, responses in any order / duplicated / never / unknown id / undecodable / QR=0, cancels, timeouts in virtual time, close, shutdown, floods of 99-250 frames, stalled writer; `xchg` lines (no model side): k requests through the real DnsExchange + background task + multiplexer run by a wake-driven executor, responses permuted/duplicated/missing after floods of 0-250 foreign frames; a block is non-trivial when at least two requests were in flight together and a response reached a caller; distinct by block serial".into();
    let mut ctx = Ctx::default();
    for l in o.pre_lines.clone() {
        exec(&mut ctx, &l, rec);
    }
    ctx.mux = None;
    rec.corpus_cases = rec.cases.len();
    if o.replay_only {
        return;
    }
    // the constants of the models against the source this harness was built from
    exec(&mut ctx, "consts", rec);
    exec(&mut ctx, "udp-sender-contract", rec);
    let mut r = Rng::new(o.seed);
    udp_enumerate(&mut ctx, rec, if o.thorough() { 4 } else { 2 });
    let n = o.n(4000, 600_000);
    for _ in 0..n {
        let c = gen_udp(&mut r);
        exec(&mut ctx, &udp::case_line(&c), rec);
    }
    let mut serial = 0usize;
    if o.thorough() {
        mux_enumerate(&mut ctx, rec, 2, 6, &mut serial);
        mux_enumerate(&mut ctx, rec, 3, 5, &mut serial);
    } else {
        mux_enumerate(&mut ctx, rec, 3, 3, &mut serial);
    }
    for _ in 0..o.n(400, 40_000) {
        let l = gen_xchg(&mut r);
        exec(&mut ctx, &l, rec);
    }
    let nb = o.n(600, 100_000);
    for i in 0..nb {
        mux_block(&mut r, &mut ctx, rec, i);
    }
}
