//! C11 — every accepted request gets exactly one matching response from the right zone.
//!
//! Runs the private `ServerContext::handle_request` (hook `verif_handle_request`) on raw request
//! bytes against a real `Catalog` (in-memory zones wrapped in a call logger, scripted chained
//! handlers), with allow/deny network sets, over UDP and TCP, and counts / inspects what arrives on
//! the receiver paired with the `BufDnsStreamHandle`.
//!
//! Line protocol (see lean/HickoryVerif/Drv/C11.lean):
//!   begin <zones> <deny> <allow>
//!   req <u|t> <src> <hex> <body> <edns> <zl>   body/edns/zl are (re)computed here with the real code
//!   end
use std::cell::RefCell;
use std::collections::{BTreeMap, VecDeque};
use std::future::Future;
use std::io;
use std::net::{IpAddr, Ipv4Addr, Ipv6Addr, SocketAddr};
use std::task::Poll;
use std::sync::{Arc, Mutex};
use std::time::{Duration, Instant};

use futures_util::{FutureExt, StreamExt};
use hickory_net::runtime::iocompat::AsyncIoTokioAsStd;
use hickory_net::runtime::{DnsUdpSocket, RuntimeProvider, Spawn, Time, TokioTime};
use hickory_net::udp::UdpStream;
use hickory_net::xfer::Protocol;
use hickory_net::BufDnsStreamHandle;
use hickory_proto::op::{Edns, Header, Message, MessageRequest, MessageType, OpCode, Queries, Query, ResponseCode};
use hickory_proto::rr::rdata::{A, NS, SOA, TXT};
use hickory_proto::rr::{DNSClass, LowerName, Name, RData, Record, RecordType, TSigResponseContext};
use hickory_proto::serialize::binary::{BinDecodable, BinDecoder};
use hickory_server::dnssec::NxProofKind;
use hickory_server::server::{verif_handle_request, Request, RequestHandler, RequestInfo, ResponseHandler};
use hickory_server::store::in_memory::InMemoryZoneHandler;
use hickory_server::Server;
use tokio::io::{AsyncReadExt, AsyncWriteExt};
use hickory_server::zone_handler::{
    AuthLookup, AxfrPolicy, AxfrRecords, Catalog, LookupControlFlow, LookupError, LookupOptions, LookupRecords,
    Nsec3QueryInfo, ZoneHandler, ZoneTransfer, ZoneType,
};
use ipnet::IpNet;

use crate::common::*;

// ------------------------------------------------------------------ handlers

type Log = Arc<Mutex<Vec<String>>>;

/// the same `Catalog` instance serves every request of a block (survival is about *this* state)
struct Shared(Arc<Catalog>);

#[async_trait::async_trait]
impl RequestHandler for Shared {
    async fn handle_request<R: ResponseHandler, T: Time>(&self, request: &Request, response_handle: R) {
        self.0.handle_request::<R, T>(request, response_handle).await
    }
}

/// a real `InMemoryZoneHandler` that records which of its entry points the catalog called
struct Logged {
    inner: InMemoryZoneHandler,
    zi: usize,
    hi: usize,
    log: Log,
}

impl Logged {
    fn note(&self, k: &str) {
        self.log.lock().unwrap().push(format!("{k}{}.{}", self.zi, self.hi));
    }
}

#[async_trait::async_trait]
impl ZoneHandler for Logged {
    fn zone_type(&self) -> ZoneType {
        self.inner.zone_type()
    }
    fn axfr_policy(&self) -> AxfrPolicy {
        self.inner.axfr_policy()
    }
    fn can_validate_dnssec(&self) -> bool {
        self.inner.can_validate_dnssec()
    }
    async fn update(&self, update: &Request, now: u64) -> (Result<bool, ResponseCode>, Option<TSigResponseContext>) {
        self.note("u");
        self.inner.update(update, now).await
    }
    fn origin(&self) -> &LowerName {
        self.inner.origin()
    }
    async fn lookup(
        &self,
        name: &LowerName,
        rtype: RecordType,
        request_info: Option<&RequestInfo<'_>>,
        lookup_options: LookupOptions,
    ) -> LookupControlFlow<AuthLookup> {
        self.inner.lookup(name, rtype, request_info, lookup_options).await
    }
    async fn consult(
        &self,
        name: &LowerName,
        rtype: RecordType,
        request_info: Option<&RequestInfo<'_>>,
        lookup_options: LookupOptions,
        last_result: LookupControlFlow<AuthLookup>,
    ) -> (LookupControlFlow<AuthLookup>, Option<TSigResponseContext>) {
        self.note("c");
        self.inner.consult(name, rtype, request_info, lookup_options, last_result).await
    }
    async fn search(
        &self,
        request: &Request,
        lookup_options: LookupOptions,
    ) -> (LookupControlFlow<AuthLookup>, Option<TSigResponseContext>) {
        self.note("s");
        self.inner.search(request, lookup_options).await
    }
    async fn nsec_records(&self, name: &LowerName, lookup_options: LookupOptions) -> LookupControlFlow<AuthLookup> {
        self.inner.nsec_records(name, lookup_options).await
    }
    async fn nsec3_records(&self, info: Nsec3QueryInfo<'_>, lookup_options: LookupOptions) -> LookupControlFlow<AuthLookup> {
        self.inner.nsec3_records(info, lookup_options).await
    }
    async fn zone_transfer(
        &self,
        request: &Request,
        lookup_options: LookupOptions,
        now: u64,
    ) -> Option<(Result<ZoneTransfer, LookupError>, Option<TSigResponseContext>)> {
        self.note("x");
        self.inner.zone_transfer(request, lookup_options, now).await
    }
    fn nx_proof_kind(&self) -> Option<&NxProofKind> {
        self.inner.nx_proof_kind()
    }
    fn metrics_label(&self) -> &'static str {
        "verif-mem"
    }
}

#[derive(Clone, Copy, Debug, PartialEq)]
enum LRes {
    Ok,
    /// `Ok(records)` holding a record that cannot be encoded (a 300-octet character-string)
    Unenc,
    Err(u16),
}

#[derive(Clone, Copy, Debug, PartialEq)]
enum Flow {
    Skip,
    Cont(LRes),
    Brk(LRes),
}

fn lres(r: LRes) -> Result<AuthLookup, LookupError> {
    match r {
        LRes::Ok => Ok(AuthLookup::Empty),
        LRes::Unenc => {
            let n = name("unencodable.invalid.");
            let mut set = hickory_proto::rr::RecordSet::new(n.clone(), RecordType::TXT, 0);
            set.insert(Record::from_rdata(n, 60, RData::TXT(TXT::new(vec!["y".repeat(300)]))), 0);
            Ok(AuthLookup::answers(LookupRecords::new(LookupOptions::default(), Arc::new(set)), None))
        }
        LRes::Err(rc) => Err(LookupError::ResponseCode(<ResponseCode as From<u16>>::from(rc))),
    }
}

fn flow(f: Flow) -> LookupControlFlow<AuthLookup> {
    match f {
        Flow::Skip => LookupControlFlow::Skip,
        Flow::Cont(r) => LookupControlFlow::Continue(lres(r)),
        Flow::Brk(r) => LookupControlFlow::Break(lres(r)),
    }
}

/// a chained-handler test double (after tests/integration-tests chained_zone_handler_tests.rs)
struct Scripted {
    origin: LowerName,
    zt: ZoneType,
    search: Flow,
    consult: Option<Flow>,
    update: u16,
    xfer: Option<LRes>,
    zi: usize,
    hi: usize,
    log: Log,
}

impl Scripted {
    fn note(&self, k: &str) {
        self.log.lock().unwrap().push(format!("{k}{}.{}", self.zi, self.hi));
    }
}

#[async_trait::async_trait]
impl ZoneHandler for Scripted {
    fn zone_type(&self) -> ZoneType {
        self.zt
    }
    fn axfr_policy(&self) -> AxfrPolicy {
        AxfrPolicy::Deny
    }
    async fn update(&self, _update: &Request, _now: u64) -> (Result<bool, ResponseCode>, Option<TSigResponseContext>) {
        self.note("u");
        if self.update == 0 {
            (Ok(true), None)
        } else {
            (Err(<ResponseCode as From<u16>>::from(self.update)), None)
        }
    }
    fn origin(&self) -> &LowerName {
        &self.origin
    }
    async fn lookup(
        &self,
        _name: &LowerName,
        _rtype: RecordType,
        _request_info: Option<&RequestInfo<'_>>,
        _lookup_options: LookupOptions,
    ) -> LookupControlFlow<AuthLookup> {
        // only reached from `build_authoritative_response` (NS / SOA of the origin): "unexpected
        // skip", or "failed to lookup soa" / "ns_lookup errored" for every other handler
        if (self.zi + self.hi) % 2 == 0 {
            LookupControlFlow::Skip
        } else {
            LookupControlFlow::Continue(Err(LookupError::ResponseCode(ResponseCode::ServFail)))
        }
    }
    async fn consult(
        &self,
        _name: &LowerName,
        _rtype: RecordType,
        _request_info: Option<&RequestInfo<'_>>,
        _lookup_options: LookupOptions,
        last_result: LookupControlFlow<AuthLookup>,
    ) -> (LookupControlFlow<AuthLookup>, Option<TSigResponseContext>) {
        self.note("c");
        match self.consult {
            Some(f) => (flow(f), None),
            None => (last_result, None),
        }
    }
    async fn search(
        &self,
        _request: &Request,
        _lookup_options: LookupOptions,
    ) -> (LookupControlFlow<AuthLookup>, Option<TSigResponseContext>) {
        self.note("s");
        (flow(self.search), None)
    }
    async fn nsec_records(&self, _name: &LowerName, _lookup_options: LookupOptions) -> LookupControlFlow<AuthLookup> {
        LookupControlFlow::Continue(Ok(AuthLookup::Empty))
    }
    async fn nsec3_records(&self, _info: Nsec3QueryInfo<'_>, _lookup_options: LookupOptions) -> LookupControlFlow<AuthLookup> {
        LookupControlFlow::Continue(Ok(AuthLookup::Empty))
    }
    async fn zone_transfer(
        &self,
        _request: &Request,
        _lookup_options: LookupOptions,
        _now: u64,
    ) -> Option<(Result<ZoneTransfer, LookupError>, Option<TSigResponseContext>)> {
        self.note("x");
        match self.xfer {
            None => None,
            Some(LRes::Ok) | Some(LRes::Unenc) => Some((
                Ok(ZoneTransfer {
                    start_soa: LookupRecords::Empty,
                    records: AxfrRecords::new(false, vec![]),
                    end_soa: LookupRecords::Empty,
                }),
                None,
            )),
            Some(LRes::Err(rc)) => Some((Err(LookupError::ResponseCode(<ResponseCode as From<u16>>::from(rc))), None)),
        }
    }
    fn nx_proof_kind(&self) -> Option<&NxProofKind> {
        None
    }
    fn metrics_label(&self) -> &'static str {
        "verif-scripted"
    }
}

// ------------------------------------------------------------------ configuration

#[derive(Clone, Debug)]
enum HSpec {
    Mem { axfr: bool },
    Scr { zt: ZoneType, search: Flow, consult: Option<Flow>, update: u16, xfer: Option<LRes> },
}

#[derive(Clone, Debug)]
struct ZSpec {
    origin: Name,
    handlers: Vec<HSpec>,
    /// `Catalog::remove(origin)` instead of an upsert
    remove: bool,
}

struct Cfg {
    zones: Vec<ZSpec>,
    /// the entry is a configured zone (not removed, not replaced by a later entry)
    live: Vec<bool>,
    /// origins for which `Catalog::contains` disagrees with that
    contains_wrong: Vec<String>,
    deny: Vec<IpNet>,
    allow: Vec<IpNet>,
    catalog: Arc<Catalog>,
    /// the in-memory handlers, to ask them directly what their zone content yields
    mems: Vec<(usize, usize, Arc<Logged>)>,
    log: Log,
    /// survival probe: a known-good query and the response it got before any other request
    probe: Vec<u8>,
    baseline: Vec<Vec<u8>>,
    /// the real `Server` on loopback sockets (started at the first `U`/`T` request of the block)
    loop_srv: RefCell<Option<LoopSrv>>,
}

fn parse_lres(s: &str) -> Option<LRes> {
    match s {
        "o" => Some(LRes::Ok),
        "u" => Some(LRes::Unenc),
        _ => Some(LRes::Err(s.strip_prefix('e')?.parse().ok()?)),
    }
}

fn parse_flow(s: &str) -> Option<Flow> {
    if s == "S" {
        return Some(Flow::Skip);
    }
    let (k, r) = s.split_at(1);
    match k {
        "C" => Some(Flow::Cont(parse_lres(r)?)),
        "B" => Some(Flow::Brk(parse_lres(r)?)),
        _ => None,
    }
}

fn flow_tok(f: Flow) -> String {
    let r = |r: LRes| match r {
        LRes::Ok => "o".to_string(),
        LRes::Unenc => "u".to_string(),
        LRes::Err(c) => format!("e{c}"),
    };
    match f {
        Flow::Skip => "S".into(),
        Flow::Cont(x) => format!("C{}", r(x)),
        Flow::Brk(x) => format!("B{}", r(x)),
    }
}

fn parse_handler(s: &str) -> Option<HSpec> {
    let p: Vec<&str> = s.split('/').collect();
    match p.as_slice() {
        ["mem", ax] => Some(HSpec::Mem { axfr: *ax == "1" }),
        ["scr", zt, se, co, up, xf] => Some(HSpec::Scr {
            zt: match *zt {
                "p" => ZoneType::Primary,
                "s" => ZoneType::Secondary,
                "e" => ZoneType::External,
                _ => return None,
            },
            search: parse_flow(se)?,
            consult: if *co == "-" { None } else { Some(parse_flow(co)?) },
            update: up.parse().ok()?,
            xfer: if *xf == "n" { None } else { Some(parse_lres(xf)?) },
        }),
        _ => None,
    }
}

fn handler_tok(h: &HSpec) -> String {
    match h {
        HSpec::Mem { axfr } => format!("mem/{}", b(*axfr)),
        HSpec::Scr { zt, search, consult, update, xfer } => format!(
            "scr/{}/{}/{}/{}/{}",
            match zt {
                ZoneType::Primary => "p",
                ZoneType::Secondary => "s",
                ZoneType::External => "e",
            },
            flow_tok(*search),
            consult.map(flow_tok).unwrap_or("-".into()),
            update,
            match xfer {
                None => "n".to_string(),
                Some(LRes::Ok) | Some(LRes::Unenc) => "o".into(),
                Some(LRes::Err(c)) => format!("e{c}"),
            }
        ),
    }
}

fn parse_zones(s: &str) -> Option<Vec<ZSpec>> {
    if s == "-" {
        return Some(vec![]);
    }
    s.split('|')
        .map(|z| {
            let (n, hs) = z.split_once('=')?;
            let handlers = if hs == "-" { vec![] } else { hs.split(',').map(parse_handler).collect::<Option<_>>()? };
            match n.strip_prefix('-') {
                Some(n) => Some(ZSpec { origin: parse_name(n)?, handlers: vec![], remove: true }),
                None => Some(ZSpec { origin: parse_name(n)?, handlers, remove: false }),
            }
        })
        .collect()
}

fn zones_tok(z: &[ZSpec]) -> String {
    if z.is_empty() {
        return "-".into();
    }
    z.iter()
        .map(|z| {
            let hs = if z.handlers.is_empty() { "-".to_string() } else { z.handlers.iter().map(handler_tok).collect::<Vec<_>>().join(",") };
            format!("{}{}={}", if z.remove { "-" } else { "" }, name_tok(&z.origin), hs)
        })
        .collect::<Vec<_>>()
        .join("|")
}

fn parse_ip(s: &str) -> Option<IpAddr> {
    let (f, a) = s.split_once(':')?;
    match f {
        "4" => Some(IpAddr::V4(Ipv4Addr::from(a.parse::<u32>().ok()?))),
        "6" => Some(IpAddr::V6(Ipv6Addr::from(a.parse::<u128>().ok()?))),
        _ => None,
    }
}

fn ip_tok(ip: IpAddr) -> String {
    match ip {
        IpAddr::V4(a) => format!("4:{}", u32::from(a)),
        IpAddr::V6(a) => format!("6:{}", u128::from(a)),
    }
}

fn parse_nets(s: &str) -> Option<Vec<IpNet>> {
    if s == "-" {
        return Some(vec![]);
    }
    s.split(',')
        .map(|p| {
            let (ip, l) = p.split_once('/')?;
            IpNet::new(parse_ip(ip)?, l.parse().ok()?).ok()
        })
        .collect()
}

fn nets_tok(n: &[IpNet]) -> String {
    if n.is_empty() {
        return "-".into();
    }
    n.iter().map(|p| format!("{}/{}", ip_tok(p.addr()), p.prefix_len())).collect::<Vec<_>>().join(",")
}

fn mem_zone(origin: &Name, axfr: bool) -> InMemoryZoneHandler {
    let mut z = InMemoryZoneHandler::empty(
        origin.clone(),
        ZoneType::Primary,
        if axfr { AxfrPolicy::AllowAll } else { AxfrPolicy::Deny },
        None,
    );
    let mut abs = origin.clone();
    abs.set_fqdn(true);
    let sub = |l: &str| Name::from_ascii(l).ok().and_then(|n| n.append_domain(&abs).ok());
    let ns = sub("ns").unwrap_or_else(|| abs.clone());
    let soa = SOA::new(ns.clone(), abs.clone(), 1, 3600, 600, 86400, 60);
    z.upsert_mut(Record::from_rdata(abs.clone(), 3600, RData::SOA(soa)), 0);
    z.upsert_mut(Record::from_rdata(abs.clone(), 3600, RData::NS(NS(ns.clone()))), 0);
    z.upsert_mut(Record::from_rdata(abs.clone(), 60, RData::TXT(TXT::new(vec!["apex".to_string()]))), 0);
    if let Some(www) = sub("www") {
        z.upsert_mut(Record::from_rdata(www, 60, RData::A(A::new(192, 0, 2, 1))), 0);
    }
    if ns != abs {
        z.upsert_mut(Record::from_rdata(ns, 60, RData::A(A::new(192, 0, 2, 53))), 0);
    }
    // a zone called big.*: one RRset that does not fit any datagram (≈ 70 kB of TXT)
    if origin.iter().next().is_some_and(|l| l.eq_ignore_ascii_case(b"big")) {
        if let Some(h) = sub("huge") {
            for i in 0..280u32 {
                let txt = format!("{i:03}{}", "x".repeat(237));
                z.upsert_mut(Record::from_rdata(h.clone(), 60, RData::TXT(TXT::new(vec![txt]))), 0);
            }
        }
    }
    // a delegation point: names at and below it get a referral (AA clear)
    if let Some(d) = sub("deleg") {
        z.upsert_mut(Record::from_rdata(d, 3600, RData::NS(NS(name("ns.elsewhere.invalid.")))), 0);
    }
    z
}

fn build_cfg(zones: Vec<ZSpec>, deny: Vec<IpNet>, allow: Vec<IpNet>) -> Cfg {
    let log: Log = Arc::new(Mutex::new(vec![]));
    let mut catalog = Catalog::new();
    let mut mems = vec![];
    for (zi, z) in zones.iter().enumerate() {
        let mut hs: Vec<Arc<dyn ZoneHandler>> = vec![];
        for (hi, h) in z.handlers.iter().enumerate() {
            match h {
                HSpec::Mem { axfr } => {
                    let l = Arc::new(Logged { inner: mem_zone(&z.origin, *axfr), zi, hi, log: log.clone() });
                    mems.push((zi, hi, l.clone()));
                    hs.push(l)
                }
                HSpec::Scr { zt, search, consult, update, xfer } => hs.push(Arc::new(Scripted {
                    origin: LowerName::from(&z.origin),
                    zt: *zt,
                    search: *search,
                    consult: *consult,
                    update: *update,
                    xfer: *xfer,
                    zi,
                    hi,
                    log: log.clone(),
                })),
            }
        }
        if z.remove {
            catalog.remove(&LowerName::from(&z.origin));
        } else {
            catalog.upsert(LowerName::from(&z.origin), hs);
        }
    }
    // which entries are the configured zones: an upsert that no later entry for the same key
    // (same labels up to case, same fqdn flag) replaces or removes
    let same_key = |a: &Name, b_: &Name| a.is_fqdn() == b_.is_fqdn() && a.iter().map(lower).eq(b_.iter().map(lower));
    let live: Vec<bool> = (0..zones.len())
        .map(|i| !zones[i].remove && !zones[i + 1..].iter().any(|l| same_key(&l.origin, &zones[i].origin)))
        .collect();
    // `Catalog::contains` must say so
    let mut contains_wrong = vec![];
    for (i, z) in zones.iter().enumerate() {
        let last = (0..zones.len()).rev().find(|j| same_key(&zones[*j].origin, &z.origin)).unwrap_or(i);
        if catalog.contains(&LowerName::from(&z.origin)) != live[last] {
            contains_wrong.push(name_tok(&z.origin));
        }
    }
    // every other catalog identifies itself (RFC 5001): the OPT of its responses carries the NSID
    // when asked for — the rest of the response must not depend on it
    if zones.len() >= 2 && zones.len() % 2 == 0 {
        catalog.set_nsid(Some(hickory_proto::rr::rdata::opt::NSIDPayload::new(b"hk-verif".to_vec()).expect("nsid")));
        assert!(catalog.nsid().is_some());
    }
    // survival probe: www.<first absolute in-memory zone>, else a fixed name
    let probe_name = zones
        .iter()
        .enumerate()
        .filter(|(i, _)| live[*i])
        .map(|(_, z)| z)
        .find(|z| z.origin.is_fqdn() && matches!(z.handlers.first(), Some(HSpec::Mem { .. })))
        .and_then(|z| Name::from_ascii("www").ok()?.append_domain(&z.origin).ok())
        .unwrap_or_else(|| Name::from_ascii("alive.invalid.").unwrap());
    let mut m = Message::query();
    m.metadata.id = 0xA11E;
    m.metadata.recursion_desired = true;
    m.add_query(Query::new(probe_name, RecordType::A));
    let probe = m.to_vec().expect("probe encodes");
    Cfg { zones, live, contains_wrong, deny, allow, catalog: Arc::new(catalog), mems, log, probe, baseline: vec![], loop_srv: RefCell::new(None) }
}

// ------------------------------------------------------------------ running one message

static CURRENT: Mutex<Option<(Instant, String)>> = Mutex::new(None);

fn start_watchdog() {
    std::thread::spawn(|| loop {
        std::thread::sleep(Duration::from_millis(250));
        if let Some((t, line)) = CURRENT.lock().unwrap().as_ref() {
            if t.elapsed() > Duration::from_secs(30) {
                eprintln!("HANG: no result within 30 s for case: {line}");
                std::process::exit(3);
            }
        }
    });
}

struct Runner {
    rt: tokio::runtime::Runtime,
    cfg: Option<Cfg>,
}

/// feeds one raw message to the server context and returns everything it sent
fn serve(rt: &tokio::runtime::Runtime, cfg: &Cfg, deny: &[IpNet], allow: &[IpNet], bytes: &[u8], src: SocketAddr, proto: Protocol) -> Vec<Vec<u8>> {
    let catalog = cfg.catalog.clone();
    rt.block_on(async move {
        let (handle, mut rx) = BufDnsStreamHandle::new(src);
        verif_handle_request(Shared(catalog), deny, allow, bytes.to_vec(), src, proto, handle).await;
        let mut out = vec![];
        // the handle (and every clone made of it) is gone: drain whatever was queued
        while let Some(Some(m)) = rx.next().now_or_never() {
            out.push(m.into_parts().0);
        }
        out
    })
}

/// `Request::from_bytes` + `<Catalog as RequestHandler>::handle_request` with a `ResponseHandle`
/// (`None`: `from_bytes` failed)
fn serve_catalog(rt: &tokio::runtime::Runtime, cfg: &Cfg, bytes: &[u8], src: SocketAddr, proto: Protocol) -> Option<Vec<Vec<u8>>> {
    let catalog = cfg.catalog.clone();
    rt.block_on(async move {
        let request = Request::from_bytes(bytes.to_vec(), src, proto).ok()?;
        // accessors of the request as the handler sees it
        assert_eq!(request.as_slice(), bytes);
        assert_eq!(request.src(), src);
        let (handle, mut rx) = BufDnsStreamHandle::new(src);
        let rh = hickory_server::server::ResponseHandle::new(src, handle, proto);
        let echo = request.queries.as_bytes().to_vec();
        catalog.handle_request::<_, TokioTime>(&request, rh).await;
        let mut out = vec![];
        while let Some(Some(m)) = rx.next().now_or_never() {
            let m = m.into_parts().0;
            // the question section of whatever is sent is `Queries::as_bytes()`
            assert!(m.len() < 12 || u16::from_be_bytes([m[4], m[5]]) == 0 || m[12..].starts_with(&echo), "question section is not Queries::as_bytes()");
            out.push(m);
        }
        Some(out)
    })
}

/// the handler with a stream handle whose receiving end is gone: every send fails
fn serve_closed(rt: &tokio::runtime::Runtime, cfg: &Cfg, bytes: &[u8], src: SocketAddr) {
    let catalog = cfg.catalog.clone();
    let (deny, allow) = (cfg.deny.clone(), cfg.allow.clone());
    rt.block_on(async move {
        let (handle, rx) = BufDnsStreamHandle::new(src);
        drop(rx);
        verif_handle_request(Shared(catalog), &deny, &allow, bytes.to_vec(), src, Protocol::Udp, handle).await;
    })
}

/// what the real decoder says about the request (the model's parameters, and the oracle's facts)
struct Parsed {
    header: Option<Header>,
    /// `Queries::read` succeeded: the question bytes of the request and the parsed query
    question: Option<(Vec<u8>, Query)>,
    /// `MessageRequest::read_with_queries` succeeded (None: not reached)
    body: Option<bool>,
    edns_version: Option<u8>,
}

fn parse_request(bytes: &[u8]) -> Parsed {
    let mut p = Parsed { header: None, question: None, body: None, edns_version: None };
    let mut d = BinDecoder::new(bytes);
    let Ok(h) = Header::read(&mut d) else { return p };
    p.header = Some(h);
    let Ok(q) = Queries::read(&mut d, h.counts.queries as usize) else { return p };
    // the question bytes as they stand in the request (not `Queries::as_bytes()`)
    p.question = Some((bytes[12..d.index()].to_vec(), (*q).original().clone()));
    match MessageRequest::read_with_queries(&mut d, q, h) {
        Ok(m) => {
            p.body = Some(true);
            p.edns_version = m.edns.as_ref().map(Edns::version);
        }
        Err(_) => p.body = Some(false),
    }
    p
}

/// the response as read by a small lenient scanner written here (independent of hickory's decoder)
#[derive(Debug, Default)]
struct Resp {
    id: u16,
    qr: bool,
    op: u8,
    aa: bool,
    tc: bool,
    rd: bool,
    ra: bool,
    cd: bool,
    rc_low: u8,
    qd: u16,
    /// there is exactly one question (Some(false): none)
    echo: Option<bool>,
    /// the bytes of the question section
    qsec: Vec<u8>,
    opt: Option<(u8, u8)>,
    scan_ok: bool,
}

fn skip_name(b: &[u8], mut p: usize) -> Option<usize> {
    loop {
        let x = *b.get(p)?;
        if x == 0 {
            return Some(p + 1);
        } else if x >= 0xC0 {
            b.get(p + 1)?;
            return Some(p + 2);
        } else if x < 64 {
            p += 1 + x as usize;
        } else {
            return None;
        }
    }
}

fn scan_response(r: &[u8]) -> Option<Resp> {
    if r.len() < 12 {
        return None;
    }
    let u16at = |p: usize| -> Option<u16> { Some(u16::from_be_bytes([*r.get(p)?, *r.get(p + 1)?])) };
    let mut x = Resp {
        id: u16at(0)?,
        qr: r[2] & 0x80 != 0,
        op: (r[2] >> 3) & 0xF,
        aa: r[2] & 4 != 0,
        tc: r[2] & 2 != 0,
        rd: r[2] & 1 != 0,
        ra: r[3] & 0x80 != 0,
        cd: r[3] & 0x10 != 0,
        rc_low: r[3] & 0xF,
        qd: u16at(4)?,
        ..Default::default()
    };
    let mut p = 12;
    match x.qd {
        0 => x.echo = Some(false),
        1 => match skip_name(r, p) {
            Some(e) if e + 4 <= r.len() => {
                x.echo = Some(true);
                x.qsec = r[12..e + 4].to_vec();
                p = e + 4;
            }
            _ => return Some(x),
        },
        _ => return Some(x),
    }
    let n = u16at(6)? as usize + u16at(8)? as usize + u16at(10)? as usize;
    for _ in 0..n {
        let Some(e) = skip_name(r, p) else { return Some(x) };
        let (Some(t), Some(ttl_hi), Some(rdlen)) = (u16at(e), u16at(e + 4), u16at(e + 8)) else { return Some(x) };
        if t == 41 {
            x.opt = Some(((ttl_hi >> 8) as u8, (ttl_hi & 0xFF) as u8));
        }
        p = e + 10 + rdlen as usize;
        if p > r.len() {
            return Some(x);
        }
    }
    x.scan_ok = p == r.len();
    Some(x)
}


// ------------------------------------------------------------------ transport under the handler

/// marker sent behind every request on the loop transports: an unknown opcode is answered NOTIMP by
/// the gate alone (no zone handler is called), so its response delimits the request's responses
const MARK_ID: u16 = 0xA11F;

fn marker() -> Vec<u8> {
    let mut m = header(MARK_ID, 0x0F << 3, 0, 0, 0, 0, 0);
    m[2] &= 0x7F;
    m
}

/// a request answered by the gate alone (NOTIMP) that is not the marker
fn ping() -> Vec<u8> {
    let mut m = marker();
    m[1] ^= 0xFF;
    m
}

/// the real `Server` (handle_udp / handle_tcp, UdpStream, TcpStream) on loopback sockets
struct LoopSrv {
    server: Server<Shared>,
    udp_addr: SocketAddr,
    tcp_addr: SocketAddr,
    client: tokio::net::UdpSocket,
    conn: Option<tokio::net::TcpStream>,
}

async fn start_loop(cfg: &Cfg) -> io::Result<LoopSrv> {
    let mut server = Server::with_access(Shared(cfg.catalog.clone()), cfg.deny.iter().copied(), cfg.allow.iter().copied());
    let u = tokio::net::UdpSocket::bind("127.0.0.1:0").await?;
    let udp_addr = u.local_addr()?;
    server.register_socket(u);
    let l = tokio::net::TcpListener::bind("127.0.0.1:0").await?;
    let tcp_addr = l.local_addr()?;
    server.register_listener(l, Duration::from_secs(30), 32);
    let client = tokio::net::UdpSocket::bind("127.0.0.1:0").await?;
    Ok(LoopSrv { server, udp_addr, tcp_addr, client, conn: None })
}

/// one request through the real server loop; every datagram / frame that comes back before the
/// marker's response (plus a short grace period for stragglers) belongs to the request.
/// `Err(what)`: the marker was not answered (server stuck / connection closed).
fn serve_loop(rt: &tokio::runtime::Runtime, cfg: &Cfg, bytes: &[u8], tcp: bool) -> Result<Vec<Vec<u8>>, String> {
    rt.block_on(async {
        if cfg.loop_srv.borrow().is_none() {
            let srv = start_loop(cfg).await.map_err(|e| format!("cannot start the loopback server: {e}"))?;
            *cfg.loop_srv.borrow_mut() = Some(srv);
        }
        let mut guard = cfg.loop_srv.borrow_mut();
        let srv = guard.as_mut().unwrap();
        let mut out: Vec<Vec<u8>> = vec![];
        let mark = marker();
        let is_mark = |m: &[u8]| m.len() >= 2 && u16::from_be_bytes([m[0], m[1]]) == MARK_ID;
        let limit = Duration::from_secs(5);
        if !tcp {
            srv.client.send_to(bytes, srv.udp_addr).await.map_err(|e| format!("client send: {e}"))?;
            srv.client.send_to(&mark, srv.udp_addr).await.map_err(|e| format!("client send: {e}"))?;
            let mut buf = vec![0u8; 65536];
            let mut seen_mark = false;
            loop {
                let wait = if seen_mark { Duration::from_millis(4) } else { limit };
                match tokio::time::timeout(wait, srv.client.recv_from(&mut buf)).await {
                    Ok(Ok((n, _))) => {
                        if is_mark(&buf[..n]) {
                            seen_mark = true;
                        } else {
                            out.push(buf[..n].to_vec());
                        }
                    }
                    Ok(Err(e)) => return Err(format!("client recv: {e}")),
                    Err(_) if seen_mark => break,
                    Err(_) => return Err("the server did not answer the marker request within 5 s (it no longer serves)".into()),
                }
            }
        } else {
            if srv.conn.is_none() {
                srv.conn = Some(tokio::net::TcpStream::connect(srv.tcp_addr).await.map_err(|e| format!("connect: {e}"))?);
            }
            let c = srv.conn.as_mut().unwrap();
            let mut w = vec![];
            for m in [bytes, &mark[..]] {
                w.extend((m.len() as u16).to_be_bytes());
                w.extend(m);
            }
            let io = async {
                c.write_all(&w).await?;
                loop {
                    let mut l = [0u8; 2];
                    c.read_exact(&mut l).await?;
                    let mut m = vec![0u8; u16::from_be_bytes(l) as usize];
                    c.read_exact(&mut m).await?;
                    if is_mark(&m) {
                        return Ok::<(), io::Error>(());
                    }
                    out.push(m);
                }
            };
            match tokio::time::timeout(limit, io).await {
                Ok(Ok(())) => {}
                Ok(Err(e)) => {
                    srv.conn = None;
                    return Err(format!("the TCP connection ended before the marker was answered: {e}"));
                }
                Err(_) => {
                    srv.conn = None;
                    return Err("the server did not answer the marker request within 5 s (it no longer serves)".into());
                }
            }
        }
        Ok(out)
    })
}

// ---- the real `UdpStream` on a scripted socket -------------------------------------------------

#[derive(Clone, Copy, PartialEq, Debug)]
enum SendRes {
    Ok,
    Err,
    /// fails, and fails again for the same message (EMSGSIZE-like)
    Sticky,
    Wait,
}

enum RecvItem {
    D(SocketAddr, Vec<u8>),
    Pause,
    Err,
}

#[derive(Default)]
struct SockState {
    recv: VecDeque<RecvItem>,
    send: VecDeque<SendRes>,
    /// every `poll_send_to` that returned `Ready`: payload, target, succeeded
    attempts: Vec<(Vec<u8>, SocketAddr, bool)>,
    sticky: Vec<(Vec<u8>, SocketAddr)>,
    /// the socket asked to be polled again
    woke: bool,
    calls: usize,
}

struct ScriptSock(Arc<Mutex<SockState>>);

impl DnsUdpSocket for ScriptSock {
    type Time = TokioTime;
    fn poll_recv_from(&self, cx: &mut std::task::Context<'_>, buf: &mut [u8]) -> Poll<io::Result<(usize, SocketAddr)>> {
        let mut st = self.0.lock().unwrap();
        st.calls += 1;
        match st.recv.pop_front() {
            Some(RecvItem::D(src, d)) => {
                let n = d.len().min(buf.len());
                buf[..n].copy_from_slice(&d[..n]);
                Poll::Ready(Ok((n, src)))
            }
            Some(RecvItem::Pause) => {
                st.woke = true;
                cx.waker().wake_by_ref();
                Poll::Pending
            }
            Some(RecvItem::Err) => Poll::Ready(Err(io::Error::new(io::ErrorKind::ConnectionReset, "scripted receive error"))),
            None => Poll::Pending,
        }
    }
    fn poll_send_to(&self, cx: &mut std::task::Context<'_>, buf: &[u8], target: SocketAddr) -> Poll<io::Result<usize>> {
        let mut st = self.0.lock().unwrap();
        st.calls += 1;
        if st.sticky.iter().any(|(b_, t)| b_ == buf && *t == target) {
            st.attempts.push((buf.to_vec(), target, false));
            return Poll::Ready(Err(io::Error::new(io::ErrorKind::Other, "scripted EMSGSIZE")));
        }
        match st.send.pop_front().unwrap_or(SendRes::Ok) {
            SendRes::Ok => {
                st.attempts.push((buf.to_vec(), target, true));
                Poll::Ready(Ok(buf.len()))
            }
            SendRes::Err => {
                st.attempts.push((buf.to_vec(), target, false));
                Poll::Ready(Err(io::Error::new(io::ErrorKind::Other, "scripted send error")))
            }
            SendRes::Sticky => {
                st.attempts.push((buf.to_vec(), target, false));
                st.sticky.push((buf.to_vec(), target));
                Poll::Ready(Err(io::Error::new(io::ErrorKind::Other, "scripted EMSGSIZE")))
            }
            SendRes::Wait => {
                st.woke = true;
                cx.waker().wake_by_ref();
                Poll::Pending
            }
        }
    }
}

#[derive(Clone, Default)]
struct NoSpawn;
impl Spawn for NoSpawn {
    fn spawn_bg(&mut self, _future: impl Future<Output = ()> + Send + 'static) {}
}

#[derive(Clone)]
struct ScriptProv;

impl RuntimeProvider for ScriptProv {
    type Handle = NoSpawn;
    type Timer = TokioTime;
    type Udp = ScriptSock;
    type Tcp = AsyncIoTokioAsStd<tokio::net::TcpStream>;
    fn create_handle(&self) -> Self::Handle {
        NoSpawn
    }
    fn connect_tcp(&self, _server_addr: SocketAddr, _bind_addr: Option<SocketAddr>, _timeout: Option<Duration>) -> std::pin::Pin<Box<dyn Send + Future<Output = Result<Self::Tcp, io::Error>>>> {
        Box::pin(async { Err(io::Error::new(io::ErrorKind::Unsupported, "no tcp in this script")) })
    }
    fn bind_udp(&self, _local_addr: SocketAddr, _server_addr: SocketAddr) -> std::pin::Pin<Box<dyn Send + Future<Output = Result<Self::Udp, io::Error>>>> {
        Box::pin(async { Err(io::Error::new(io::ErrorKind::Unsupported, "scripted socket only")) })
    }
}

/// `handle_udp`'s loop (stream.next → spawn handle_raw_request with the stream's handle re-addressed
/// to the source; an `Err` item is logged and the loop goes on) around the real `UdpStream` on the
/// scripted socket.  Returns the socket's record and whether the loop had to be stopped as livelocked.
fn run_udp_script(rt: &tokio::runtime::Runtime, cfg: &Cfg, recv: Vec<RecvItem>, send: Vec<SendRes>) -> (Vec<(Vec<u8>, SocketAddr, bool)>, bool) {
    let items = recv.len() + send.len();
    let st = Arc::new(Mutex::new(SockState { recv: recv.into(), send: send.into(), ..Default::default() }));
    let st2 = st.clone();
    let catalog = cfg.catalog.clone();
    let (deny, allow) = (cfg.deny.clone(), cfg.allow.clone());
    let livelocked = rt.block_on(async move {
        let (mut stream, handle) = UdpStream::<ScriptProv>::with_bound(ScriptSock(st2.clone()), ([127, 255, 255, 254], 0).into());
        let mut tasks = tokio::task::JoinSet::new();
        let mut idle_polls = 0;
        let mut polls = 0usize;
        let budget = 40 * (items + 10);
        loop {
            polls += 1;
            if polls > budget {
                return true;
            }
            st2.lock().unwrap().woke = false;
            let calls_before = st2.lock().unwrap().calls;
            let r = std::future::poll_fn(|cx| Poll::Ready(stream.poll_next_unpin(cx))).await;
            match r {
                Poll::Ready(Some(Ok(message))) => {
                    idle_polls = 0;
                    let (bytes, src) = message.into_parts();
                    let h = handle.with_remote_addr(src);
                    let (c, d, a) = (catalog.clone(), deny.clone(), allow.clone());
                    tasks.spawn(async move { verif_handle_request(Shared(c), &d, &a, bytes, src, Protocol::Udp, h).await });
                }
                Poll::Ready(Some(Err(_))) => idle_polls = 0, // "error receiving message on udp_socket": continue
                Poll::Ready(None) => return false,
                Poll::Pending => {
                    // let the request handlers run, then look again
                    tokio::task::yield_now().await;
                    while tasks.try_join_next().is_some() {}
                    let s = st2.lock().unwrap();
                    let progressed = s.woke || s.calls > calls_before + 1;
                    drop(s);
                    if progressed {
                        idle_polls = 0;
                    } else {
                        idle_polls += 1;
                        if idle_polls >= 3 && tasks.is_empty() {
                            return false;
                        }
                    }
                }
            }
        }
    });
    let attempts = std::mem::take(&mut st.lock().unwrap().attempts);
    (attempts, livelocked)
}

// ------------------------------------------------------------------ the property's oracle (independent of the model)

/// Reference verdict on the sections behind the question: `Some(rule)` when the body breaks a rule
/// every request body must obey (so the server owes a FORMERR), `None` when this scanner has no
/// objection (it knows only the rules below — no RDATA grammar beyond A/AAAA lengths):
///   * every counted record is there in full (owner name, 10 fixed octets, RDLENGTH octets);
///   * owner names are label sequences ending in 0 or in a pointer that points strictly backwards;
///   * an empty RDATA (RDLENGTH 0) occurs only in UPDATE messages (RFC 2136 §2.4/2.5) — except OPT;
///   * OPT, SIG and TSIG records occur only in the additional section (RFC 6891 §6.1.1, RFC 2931,
///     RFC 8945 §5.1); at most one OPT; the OPT owner is the root; nothing follows a TSIG;
///   * an A RDATA is 4 octets, an AAAA RDATA 16.
fn ref_body_bad(m: &[u8], start: usize) -> Option<&'static str> {
    if m.len() < 12 {
        return None;
    }
    let opcode = (m[2] >> 3) & 0xF;
    let counts = [u16::from_be_bytes([m[6], m[7]]), u16::from_be_bytes([m[8], m[9]]), u16::from_be_bytes([m[10], m[11]])];
    let mut p = start;
    let mut opts = 0;
    let mut tsig_seen = false;
    for (sec, n) in counts.iter().enumerate() {
        for _ in 0..*n {
            // owner name
            let own = p;
            loop {
                let Some(&x) = m.get(p) else { return Some("truncated-name") };
                if x == 0 {
                    p += 1;
                    break;
                } else if x >= 0xC0 {
                    let Some(&y) = m.get(p + 1) else { return Some("truncated-name") };
                    let t = (((x & 0x3F) as usize) << 8) | y as usize;
                    if t >= own {
                        return Some("pointer-not-backwards");
                    }
                    p += 2;
                    break;
                } else if x < 64 {
                    p += 1 + x as usize;
                } else {
                    return Some("label-type");
                }
            }
            if p + 10 > m.len() {
                return Some("truncated-record");
            }
            let typ = u16::from_be_bytes([m[p], m[p + 1]]);
            let rdlen = u16::from_be_bytes([m[p + 8], m[p + 9]]) as usize;
            if p + 10 + rdlen > m.len() {
                return Some("rdlength-overrun");
            }
            if tsig_seen {
                return Some("record-after-tsig");
            }
            let meta = matches!(typ, 41 | 24 | 250);
            if rdlen == 0 && opcode != 5 && typ != 41 {
                return Some("empty-rdata-outside-update");
            }
            if meta && sec != 2 {
                return Some("meta-record-outside-additional");
            }
            if typ == 41 {
                opts += 1;
                if opts > 1 {
                    return Some("two-opt");
                }
                if m[own] != 0 && m[own] < 0xC0 {
                    return Some("opt-owner-not-root");
                }
            }
            if typ == 250 && rdlen > 0 {
                tsig_seen = true;
            }
            if rdlen != 0 && ((typ == 1 && rdlen != 4) || (typ == 28 && rdlen != 16)) {
                return Some("address-rdata-length");
            }
            p += 10 + rdlen;
        }
    }
    None
}

/// reference decoder for the question at offset 12: follows compression pointers (bounded), no
/// limits enforced — only used to compare what request and response *say*
fn decode_question(m: &[u8]) -> Option<(Vec<Vec<u8>>, u16, u16)> {
    let mut labels = vec![];
    let mut p = 12usize;
    let mut end: Option<usize> = None;
    let mut hops = 0;
    loop {
        let x = *m.get(p)?;
        if x == 0 {
            p += 1;
            break;
        } else if x >= 0xC0 {
            let t = (((x & 0x3F) as usize) << 8) | *m.get(p + 1)? as usize;
            if end.is_none() {
                end = Some(p + 2);
            }
            hops += 1;
            if hops > 64 {
                return None;
            }
            p = t;
        } else if x < 64 {
            labels.push(m.get(p + 1..p + 1 + x as usize)?.to_vec());
            p += 1 + x as usize;
        } else {
            return None;
        }
    }
    let e = end.unwrap_or(p);
    let t = u16::from_be_bytes([*m.get(e)?, *m.get(e + 1)?]);
    let c = u16::from_be_bytes([*m.get(e + 2)?, *m.get(e + 3)?]);
    Some((labels, t, c))
}

fn lower(l: &[u8]) -> Vec<u8> {
    l.iter().map(|c| c.to_ascii_lowercase()).collect()
}

/// `zone` (an absolute name) is `name` or an ancestor of it, ignoring ASCII case
fn encloses(zone: &Name, name: &Name) -> bool {
    if !zone.is_fqdn() {
        return false;
    }
    let z: Vec<Vec<u8>> = zone.iter().rev().map(lower).collect();
    let n: Vec<Vec<u8>> = name.iter().rev().map(lower).collect();
    z.len() <= n.len() && z.iter().zip(n.iter()).all(|(a, b)| a == b)
}

/// index of the configured zone with the longest origin enclosing `name` (the last upsert of an
/// origin is the configured one)
fn right_zone(zones: &[ZSpec], live: &[bool], name: &Name) -> Option<usize> {
    let mut best: Option<usize> = None;
    for (i, z) in zones.iter().enumerate() {
        if live[i] && encloses(&z.origin, name) {
            match best {
                Some(b) if zones[b].origin.num_labels() > z.origin.num_labels() => {}
                _ => best = Some(i),
            }
        }
    }
    best
}

/// the source is denied: longest matching deny prefix not beaten by a strictly longer matching
/// allow prefix; with no match at all only an allow-only list denies.  v4-mapped v6 counts as v4.
fn ref_denied(deny: &[IpNet], allow: &[IpNet], ip: IpAddr) -> bool {
    let ip = match ip {
        IpAddr::V6(v6) => match v6.to_ipv4_mapped() {
            Some(v4) => IpAddr::V4(v4),
            None => ip,
        },
        v4 => v4,
    };
    let same = |n: &&IpNet| n.addr().is_ipv4() == ip.is_ipv4();
    let best = |s: &[IpNet]| s.iter().filter(same).filter(|n| n.contains(&ip)).map(|n| n.prefix_len()).max();
    match (best(deny), best(allow)) {
        (Some(d), Some(a)) => a <= d,
        (Some(_), None) => true,
        (None, Some(_)) => false,
        (None, None) => deny.iter().filter(same).count() == 0 && allow.iter().filter(same).count() > 0,
    }
}

const FORMERR: u16 = 1;
const NOTIMP: u16 = 4;
const REFUSED: u16 = 5;
const BADVERS: u16 = 16;

impl Runner {
    fn exec(&mut self, line: &str, rec: &mut Recorder) {
        let t0 = Instant::now();
        self.exec_inner(line, rec);
        if std::env::var("C11_TIMING").is_ok() {
            let t: Vec<&str> = line.split_whitespace().collect();
            let k = format!("zz-time-us.{}.{}", t.first().unwrap_or(&""), if t.first() == Some(&"req") { t.get(1).unwrap_or(&"") } else { "" });
            rec.stat_n(&k, t0.elapsed().as_micros() as u64);
        }
    }

    fn exec_inner(&mut self, line: &str, rec: &mut Recorder) {
        let t: Vec<&str> = line.split_whitespace().collect();
        match t.as_slice() {
            ["begin", zones, deny, allow] => {
                let (Some(z), Some(d), Some(a)) = (parse_zones(zones), parse_nets(deny), parse_nets(allow)) else {
                    rec.stat("skipped.unparsable-case");
                    return;
                };
                let mut cfg = build_cfg(z, d, a);
                let src: SocketAddr = "127.0.0.1:5353".parse().unwrap();
                let probe = cfg.probe.clone();
                let base = catch(|| serve(&self.rt, &cfg, &[], &[], &probe, src, Protocol::Udp));
                cfg.log.lock().unwrap().clear();
                let idx = rec.case(line.to_string(), "ok".into());
                match base {
                    Ok(b) => {
                        let good = b.len() == 1 && b[0].len() >= 12 && b[0][..2] == probe[..2] && b[0][2] & 0x80 != 0;
                        if !good {
                            rec.fail(idx, format!("known-good probe query not answered by a fresh server: {} responses", b.len()), "");
                        }
                        cfg.baseline = b;
                    }
                    Err(p) => rec.fail(idx, format!("panic on the known-good probe query: {p}"), ""),
                }
                if !cfg.contains_wrong.is_empty() {
                    rec.fail(idx, format!("Catalog::contains disagrees with the upsert/remove history for {:?}", cfg.contains_wrong), "");
                }
                if cfg.zones.iter().any(|z| z.remove) {
                    rec.stat("cfg.with-removed-zone");
                }
                rec.stat(&format!("cfg.zones={}", cfg.zones.len().min(6)));
                rec.stat(&format!("cfg.acl.deny={} allow={}", b(!cfg.deny.is_empty()), b(!cfg.allow.is_empty())));
                if cfg.zones.iter().any(|z| z.handlers.len() > 1) {
                    rec.stat("cfg.chained");
                }
                self.cfg = Some(cfg);
            }
            ["end"] => {
                let idx = rec.case(line.to_string(), "ok".into());
                // a server that ran on loopback sockets during the block shuts down in good order
                if let Some(mut srv) = self.cfg.as_ref().and_then(|c| c.loop_srv.borrow_mut().take()) {
                    let r = self.rt.block_on(async { tokio::time::timeout(Duration::from_secs(5), srv.server.shutdown_gracefully()).await });
                    match r {
                        Ok(Ok(())) => rec.stat("loop.shutdown-ok"),
                        Ok(Err(e)) => rec.fail(idx, format!("the server loop ended with an error at shutdown: {e}"), ""),
                        Err(_) => rec.fail(idx, "the server did not shut down within 5 s", ""),
                    }
                }
                self.cfg = None;
            }
            ["tcp", stream] => {
                let (Some(cfg), Some(bytes)) = (self.cfg.as_ref(), unhex(stream)) else {
                    rec.stat("skipped.unparsable-case");
                    return;
                };
                Self::tcp_raw(&self.rt, cfg, line, &bytes, rec);
            }
            [kind @ ("req" | "cat"), proto, src, bytes, ..] => {
                let (Some(cfg), Some(ip), Some(bytes)) = (self.cfg.as_ref(), parse_ip(src), unhex(bytes)) else {
                    rec.stat("skipped.unparsable-case");
                    return;
                };
                let protocol = if matches!(*proto, "t" | "T") { Protocol::Tcp } else { Protocol::Udp };
                // `U` / `T`: through the real server loop on loopback — the source is 127.0.0.1
                let ip = if matches!(*proto, "U" | "T") { IpAddr::V4(Ipv4Addr::LOCALHOST) } else { ip };
                Self::request(&self.rt, cfg, kind, proto, ip, protocol, &bytes, rec);
            }
            ["udp", recv, send] => {
                let Some(cfg) = self.cfg.as_ref() else {
                    rec.stat("skipped.unparsable-case");
                    return;
                };
                Self::udp_script(&self.rt, cfg, line, recv, send, rec);
            }
            _ => rec.stat("skipped.unparsable-case"),
        }
    }

    /// `tcp <hex>`: a raw octet stream on a fresh TCP connection to the real server (several
    /// length-prefixed requests back to back, possibly a partial frame at the end), write side closed
    /// after the last octet; everything the server sends until it closes the connection is read.
    fn tcp_raw(rt: &tokio::runtime::Runtime, cfg: &Cfg, line: &str, stream: &[u8], rec: &mut Recorder) {
        *CURRENT.lock().unwrap() = Some((Instant::now(), line.to_string()));
        // the complete frames of the stream (a zero-length frame ends the connection: see there)
        let mut frames: Vec<&[u8]> = vec![];
        let mut p = 0;
        while p + 2 <= stream.len() {
            let l = u16::from_be_bytes([stream[p], stream[p + 1]]) as usize;
            if l == 0 || p + 2 + l > stream.len() {
                break;
            }
            frames.push(&stream[p + 2..p + 2 + l]);
            p += 2 + l;
        }
        // reference: what the handler produces for each of them, in order
        let src: SocketAddr = "127.0.0.1:4242".parse().unwrap();
        let mut want: Vec<Vec<u8>> = vec![];
        let mut fails: Vec<String> = vec![];
        for f in &frames {
            match catch(|| serve(rt, cfg, &cfg.deny, &cfg.allow, f, src, Protocol::Tcp)) {
                Ok(v) => want.extend(v),
                Err(p_) => fails.push(format!("panic while handling a request: {p_}")),
            }
        }
        cfg.log.lock().unwrap().clear();
        // make sure the server runs
        let _ = serve_loop(rt, cfg, &ping(), true);
        let got: Result<Vec<Vec<u8>>, String> = rt.block_on(async {
            let addr = cfg.loop_srv.borrow().as_ref().map(|s| s.tcp_addr).ok_or("no server")?;
            let io = async {
                let mut c = tokio::net::TcpStream::connect(addr).await?;
                c.write_all(stream).await?;
                c.shutdown().await?;
                // everything up to the end of the connection (a reset after data still counts)
                let mut all = vec![];
                let mut buf = vec![0u8; 65536];
                loop {
                    match c.read(&mut buf).await {
                        Ok(0) => break,
                        Ok(n) => all.extend(&buf[..n]),
                        Err(e) if e.kind() == io::ErrorKind::ConnectionReset => break,
                        Err(e) => return Err(e),
                    }
                }
                Ok::<Vec<u8>, io::Error>(all)
            };
            let all = match tokio::time::timeout(Duration::from_secs(5), io).await {
                Ok(Ok(a)) => a,
                Ok(Err(e)) => return Err(format!("client i/o: {e}")),
                Err(_) => return Err("the server neither answered nor closed the connection within 5 s".to_string()),
            };
            let mut out = vec![];
            let mut p = 0;
            while p + 2 <= all.len() {
                let l = u16::from_be_bytes([all[p], all[p + 1]]) as usize;
                if p + 2 + l > all.len() {
                    return Err("the server sent a partial frame".to_string());
                }
                out.push(all[p + 2..p + 2 + l].to_vec());
                p += 2 + l;
            }
            Ok(out)
        });
        if std::env::var("C11_TIMING").is_ok() {
            eprintln!("tcp-io {} us frames={} len={} tail={}", CURRENT.lock().unwrap().as_ref().map(|c| c.0.elapsed().as_micros()).unwrap_or(0), frames.len(), stream.len(), stream.len() - p);
        }
        cfg.log.lock().unwrap().clear();
        // and the server still serves the next connection
        match serve_loop(rt, cfg, &ping(), true) {
            Ok(v) if v.len() == 1 => {}
            Ok(v) => fails.push(format!("after the stream: {} responses to a request on a new connection", v.len())),
            Err(w) => fails.push(format!("after the stream: {w}")),
        }
        cfg.log.lock().unwrap().clear();
        *CURRENT.lock().unwrap() = None;
        rec.stat("tcp.streams");
        rec.stat_n("tcp.frames", frames.len() as u64);
        if p < stream.len() {
            rec.stat("tcp.partial-or-empty-tail");
        }
        match &got {
            Err(w) => fails.push(format!("transport: {w}")),
            Ok(v) if *v != want => fails.push(format!(
                "{} complete requests on one connection: the handler produces {} responses, {} came back (or other bytes / another order)",
                frames.len(),
                want.len(),
                v.len()
            )),
            _ => {}
        }
        rec.impl_only += 1;
        let idx = rec.case(line.to_string(), "~".into());
        if frames.len() > 1 {
            rec.nontrivial(idx);
        }
        for f in fails {
            rec.fail(idx, f, "");
        }
    }

    /// `udp <recv> <send>`: datagrams through the real `UdpStream` on a scripted socket
    fn udp_script(rt: &tokio::runtime::Runtime, cfg: &Cfg, line: &str, recv: &str, send: &str, rec: &mut Recorder) {
        let mut items = vec![];
        let mut dgrams: Vec<(SocketAddr, Vec<u8>)> = vec![];
        for it in recv.split(',') {
            let f: Vec<&str> = it.split('/').collect();
            match f.as_slice() {
                ["d", src, port, h] => {
                    let (Some(ip), Ok(port), Some(b_)) = (parse_ip(src), port.parse::<u16>(), unhex(h)) else {
                        rec.stat("skipped.unparsable-case");
                        return;
                    };
                    let a = SocketAddr::new(ip, port);
                    dgrams.push((a, b_.clone()));
                    items.push(RecvItem::D(a, b_));
                }
                ["p"] => items.push(RecvItem::Pause),
                ["x"] => items.push(RecvItem::Err),
                _ => {
                    rec.stat("skipped.unparsable-case");
                    return;
                }
            }
        }
        let script: Option<Vec<SendRes>> = if send == "-" {
            Some(vec![])
        } else {
            send.chars()
                .map(|c| match c {
                    'o' => Some(SendRes::Ok),
                    'e' => Some(SendRes::Err),
                    'E' => Some(SendRes::Sticky),
                    'w' => Some(SendRes::Wait),
                    _ => None,
                })
                .collect()
        };
        let Some(script) = script else {
            rec.stat("skipped.unparsable-case");
            return;
        };
        *CURRENT.lock().unwrap() = Some((Instant::now(), line.to_string()));
        cfg.log.lock().unwrap().clear();
        let n_fail = script.iter().filter(|x| matches!(x, SendRes::Err | SendRes::Sticky)).count();
        let n_wait = script.iter().filter(|x| matches!(x, SendRes::Wait)).count();
        let r = catch(|| run_udp_script(rt, cfg, items, script));
        cfg.log.lock().unwrap().clear();
        let probe_src: SocketAddr = "127.0.0.1:5353".parse().unwrap();
        let after = catch(|| serve(rt, cfg, &[], &[], &cfg.probe, probe_src, Protocol::Udp));
        cfg.log.lock().unwrap().clear();
        *CURRENT.lock().unwrap() = None;
        rec.stat("udp.scripts");
        rec.stat_n("udp.datagrams", dgrams.len() as u64);
        rec.stat_n("udp.scripted-send-failures", n_fail as u64);
        rec.stat_n("udp.scripted-send-pendings", n_wait as u64);
        let mut fails: Vec<String> = vec![];
        let out = match &r {
            Err(p) => {
                fails.push(format!("panic in the UDP stream / handler: {p}"));
                format!("panic {p}")
            }
            Ok((attempts, livelocked)) => {
                if *livelocked {
                    fails.push("livelock: the stream kept returning without making progress (a message that cannot be sent is retried forever; no further datagram is read)".into());
                }
                // oracle: a response is owed to every datagram that is not a response and not shorter
                // than a header; it is handed to the socket exactly once (whether that send succeeds
                // or not), addressed to the datagram's source, with QR set and the datagram's id
                let mut toks = vec![];
                for (src, d) in &dgrams {
                    let owed = d.len() >= 12 && d[2] & 0x80 == 0;
                    let mine: Vec<&(Vec<u8>, SocketAddr, bool)> = attempts.iter().filter(|(_, t, _)| t == src).collect();
                    if owed {
                        if mine.len() != 1 {
                            fails.push(format!("the response to the datagram from {src} was handed to the socket {} times (exactly once expected)", mine.len()));
                        }
                        for (p_, _, _) in &mine {
                            if p_.len() < 12 || p_[..2] != d[..2] || p_[2] & 0x80 == 0 {
                                fails.push(format!("what was sent to {src} is not a response with the request's id"));
                            }
                        }
                    } else if !mine.is_empty() {
                        fails.push(format!("{} datagram(s) sent to {src} in reply to a message that is itself a response or shorter than a header", mine.len()));
                    }
                    toks.push(match mine.as_slice() {
                        [] => "-".to_string(),
                        [(_, _, true)] => "a".to_string(),
                        [(_, _, false)] => "f".to_string(),
                        m => format!("!{}", m.len()),
                    });
                }
                format!("udp {}", toks.join(","))
            }
        };
        match &after {
            Err(p) => fails.push(format!("server did not survive: panic on the following known-good query: {p}")),
            Ok(a) if *a != cfg.baseline => fails.push("server did not survive: known-good query answered differently afterwards".into()),
            _ => {}
        }
        let idx = rec.case(line.to_string(), out);
        if n_fail > 0 {
            rec.nontrivial(idx);
        }
        for f in fails {
            rec.fail(idx, f, "");
        }
    }

    fn request(rt: &tokio::runtime::Runtime, cfg: &Cfg, kind: &str, proto: &str, ip: IpAddr, protocol: Protocol, bytes: &[u8], rec: &mut Recorder) {
        let src = SocketAddr::new(ip, 4242);
        // summary by the real decoder → canonical case line
        let parsed = catch(|| parse_request(bytes));
        let Ok(parsed) = parsed else {
            let idx = rec.case(format!("{kind} {proto} {} {} na - -", ip_tok(ip), hex(bytes)), "panic decoder".into());
            rec.fail(idx, "the request decoder panicked", "");
            return;
        };
        let body_tok = match parsed.body {
            None => "na",
            Some(true) => "ok",
            Some(false) => "bad",
        };
        let edns_tok = parsed.edns_version.map(|v| v.to_string()).unwrap_or("-".into());
        // what each in-memory zone's own lookup code yields for this question (C10's business)
        let zl: Vec<String> = match &parsed.question {
            Some((_, q)) if q.query_type != RecordType::AXFR => cfg
                .mems
                .iter()
                .map(|(zi, hi, m)| {
                    let name = LowerName::from(&q.name);
                    let r = catch(|| rt.block_on(m.inner.lookup(&name, q.query_type, None, LookupOptions::default())));
                    let res = |r: &Result<AuthLookup, LookupError>| match r {
                        // the NS RRset of a delegation point (owner is not the origin): a referral
                        Ok(l) if l.iter().next().is_some_and(|rr| rr.record_type() == RecordType::NS && LowerName::from(&rr.name) != *m.inner.origin()) => {
                            "r".to_string()
                        }
                        Ok(_) => "o".to_string(),
                        Err(LookupError::ResponseCode(rc)) => format!("e{}", u16::from(*rc)),
                        Err(_) => "e0".to_string(),
                    };
                    let f = match &r {
                        Ok(LookupControlFlow::Continue(x)) => format!("C{}", res(x)),
                        Ok(LookupControlFlow::Break(x)) => format!("B{}", res(x)),
                        Ok(LookupControlFlow::Skip) => "S".to_string(),
                        Err(_) => "Cz".to_string(),
                    };
                    format!("{zi}.{hi}:{f}")
                })
                .collect(),
            _ => vec![],
        };
        let zl_tok = if zl.is_empty() { "-".to_string() } else { zl.join(",") };
        let line = format!("{kind} {proto} {} {} {body_tok} {edns_tok} {zl_tok}", ip_tok(ip), hex(bytes));
        *CURRENT.lock().unwrap() = Some((Instant::now(), line.clone()));

        cfg.log.lock().unwrap().clear();
        let loop_mode = matches!(proto, "U" | "T");
        let mut transport_fails: Vec<String> = vec![];
        let mut unsendable = false;
        let entry_cat = kind == "cat";
        let closed = proto == "x";
        let mut from_bytes_ok = true;
        let got = if entry_cat {
            // the other public way in: Request::from_bytes + Catalog::handle_request, no gate
            catch(|| serve_catalog(rt, cfg, bytes, src, protocol)).map(|r| match r {
                Some(v) => v,
                None => {
                    from_bytes_ok = false;
                    vec![]
                }
            })
        } else if closed {
            // the response cannot be handed over (the receiving end of the stream handle is gone):
            // every `send_response` fails inside the handler
            catch(|| serve_closed(rt, cfg, bytes, src)).map(|_| vec![])
        } else if !loop_mode {
            catch(|| serve(rt, cfg, &cfg.deny, &cfg.allow, bytes, src, protocol))
        } else {
            // reference: what the handler produces for this request (hook, no transport) …
            let reference = catch(|| serve(rt, cfg, &cfg.deny, &cfg.allow, bytes, src, protocol));
            cfg.log.lock().unwrap().clear();
            // … and what comes back through Server::register_socket / register_listener
            let looped = catch(|| serve_loop(rt, cfg, bytes, proto == "T"));
            match (reference, looped) {
                (Ok(reference), Ok(Ok(v))) => {
                    // a response that does not fit an IPv4 datagram cannot be sent: its own send fails
                    unsendable = proto == "U" && reference.first().is_some_and(|r| r.len() > 65507);
                    if unsendable {
                        rec.stat("loop.unsendable-response");
                        if !v.is_empty() {
                            transport_fails.push(format!("{} response(s) arrived for a response of {} octets over UDP", v.len(), reference[0].len()));
                        }
                    } else if v != reference {
                        transport_fails.push(format!(
                            "through the server loop the request got {} response(s), the handler produced {} (or other bytes)",
                            v.len(),
                            reference.len()
                        ));
                    }
                    Ok(v)
                }
                (_, Ok(Err(_))) if proto == "T" && bytes.is_empty() => {
                    // a zero-length frame ends the connection (TcpStream reads 0 octets into an empty
                    // buffer and takes it for EOF): the sender loses its own connection, nobody else
                    // is affected — framing is C17's business
                    rec.stat("note.tcp-zero-length-frame-closes-the-connection");
                    Ok(vec![])
                }
                (_, Ok(Err(what))) => {
                    transport_fails.push(what);
                    Ok(vec![])
                }
                (Err(p), _) | (_, Err(p)) => Err(p),
            }
        };
        let log: Vec<String> = std::mem::take(&mut *cfg.log.lock().unwrap());
        // survival: the known-good probe must be answered exactly as before
        let probe_src: SocketAddr = "127.0.0.1:5353".parse().unwrap();
        let after = catch(|| serve(rt, cfg, &[], &[], &cfg.probe, probe_src, Protocol::Udp));
        cfg.log.lock().unwrap().clear();
        *CURRENT.lock().unwrap() = None;

        let (out, resp): (String, Option<Resp>) = match &got {
            Err(p) => (format!("panic {p}"), None),
            Ok(v) if v.is_empty() => ("drop".into(), None),
            Ok(v) if v.len() > 1 => (format!("multi {}", v.len()), None),
            Ok(v) => match scan_response(&v[0]) {
                None => ("reply-short".into(), None),
                Some(r) => {
                    let rc = (r.opt.map(|o| (o.0 as u16) << 4).unwrap_or(0)) | r.rc_low as u16;
                    let s = format!(
                        "reply qr={} rc={} id={} op={} rd={} cd={} aa={} ra={} q={} qb={} opt={} log={} body={}",
                        b(r.qr),
                        rc,
                        r.id,
                        r.op,
                        b(r.rd),
                        b(r.cd),
                        b(r.aa),
                        b(r.ra),
                        match r.echo {
                            Some(x) => b(x),
                            None => "?",
                        },
                        hex(&r.qsec),
                        // a truncated response may have lost the OPT it owes to an EDNS request (it is
                        // emitted last and skipped when the records filled the message): C03's business
                        if r.opt.is_none() && r.tc && parsed.edns_version.is_some() {
                            rec.stat("note.truncated-response-without-opt");
                            "1"
                        } else {
                            b(r.opt.is_some())
                        },
                        if log.is_empty() { "-".to_string() } else { log.join(",") },
                        // the real decoder's verdict on the rest of the message (the model decodes
                        // the request itself and prints its own)
                        match (parsed.body, parsed.edns_version) {
                            (None, _) => "na".to_string(),
                            (Some(false), _) => "bad".to_string(),
                            (Some(true), None) => "ok:-".to_string(),
                            (Some(true), Some(v)) => format!("ok:{v}"),
                        }
                    );
                    (s, Some(r))
                }
            },
        };
        // a handler result that cannot be encoded was involved: `MessageResponse::encode` falls back
        // to a bare SERVFAIL header — the model describes responses whose encoding succeeds
        let unenc = log.iter().any(|c| {
            let (k, rest) = c.split_at(1);
            rest.split_once('.')
                .and_then(|(z, h)| Some((z.parse::<usize>().ok()?, h.parse::<usize>().ok()?)))
                .is_some_and(|(z, h)| match cfg.zones[z].handlers.get(h) {
                    Some(HSpec::Scr { search, consult, .. }) => {
                        let un = |f: &Flow| matches!(f, Flow::Cont(LRes::Unenc) | Flow::Brk(LRes::Unenc));
                        (k == "s" && un(search)) || (k == "c" && consult.as_ref().is_some_and(un))
                    }
                    _ => false,
                })
        });
        if unenc {
            rec.stat("class.unencodable-handler-result");
        }
        let out = if entry_cat && !from_bytes_ok { "err".to_string() } else { out };
        // no model side: an unsendable response (the model has no transport), a closed stream handle,
        // an unencodable handler result
        let out = if unsendable || closed || unenc { rec.impl_only += 1; "~".to_string() } else { out };
        let idx = rec.case(line, out);

        // ---------------------------------------------------------------- oracle
        let n = got.as_ref().map(|v| v.len()).unwrap_or(0);
        let mut fails: Vec<(String, &str)> = vec![];
        if let Err(p) = &got {
            fails.push((format!("panic while handling the request: {p}"), ""));
        }
        for w in transport_fails {
            fails.push((format!("transport: {w}"), ""));
        }
        match &after {
            Err(p) => fails.push((format!("server did not survive: panic on the following known-good query: {p}"), "")),
            Ok(a) if *a != cfg.baseline => fails.push((format!("server did not survive: known-good query answered differently afterwards ({} responses)", a.len()), "")),
            _ => {}
        }
        let hdr_qr = bytes.len() >= 12 && bytes[2] & 0x80 != 0;
        let must_drop = bytes.len() < 12 || hdr_qr;
        rec.stat(&format!("proto.{proto}"));
        rec.stat(&format!("responses.{}", n.min(3)));
        if got.is_ok() && closed {
            rec.stat("class.closed-stream-handle");
        } else if got.is_ok() && entry_cat {
            // Request::from_bytes succeeds exactly when header, question and body decode — the same
            // three steps ServerContext::handle_request makes one by one
            let expect_ok = parsed.header.is_some() && parsed.question.is_some() && parsed.body == Some(true);
            if from_bytes_ok != expect_ok {
                fails.push((format!("Request::from_bytes {} but header/question/body decoding says {}", if from_bytes_ok { "succeeded" } else { "failed" }, expect_ok), ""));
            }
            rec.stat(if from_bytes_ok { "cat.from_bytes.ok" } else { "cat.from_bytes.err" });
            if n != from_bytes_ok as usize {
                fails.push((format!("{n} responses from Catalog::handle_request for one request"), ""));
            }
        } else if got.is_ok() {
            if must_drop {
                rec.stat(if bytes.len() < 12 { "class.short" } else { "class.qr=1" });
                if n != 0 {
                    fails.push((format!("{n} response(s) to a message that is itself a response or shorter than a header"), ""));
                }
            } else if n != 1 && !unsendable {
                fails.push((format!("{n} responses to one request (exactly one expected)"), ""));
            }
        }
        if let (false, Some(r), Ok(v)) = (must_drop && !entry_cat, resp.as_ref(), got.as_ref()) {
            let opcode = (bytes[2] >> 3) & 0xF;
            let id = u16::from_be_bytes([bytes[0], bytes[1]]);
            let rc = (r.opt.map(|o| (o.0 as u16) << 4).unwrap_or(0)) | r.rc_low as u16;
            rec.stat(&format!("opcode.{opcode}"));
            rec.stat(&format!("rcode.{rc}"));
            rec.nontrivial(idx);
            if !r.qr {
                fails.push(("response without QR".into(), ""));
            }
            if r.id != id {
                fails.push((format!("response id {} != request id {id}", r.id), ""));
            }
            if !r.scan_ok {
                fails.push(("response is not a well-formed sequence of sections".into(), ""));
            }
            // (through Catalog::handle_request directly every request has its question parsed)
            let known_op = matches!(opcode, 0 | 2 | 4 | 5) || entry_cat;
            // the table: which verdicts apply to this request
            let mut s: Vec<u16> = vec![];
            if !matches!(opcode, 0 | 5) {
                s.push(NOTIMP);
            }
            // "bodies that do not parse get FORMERR": judged by the real decoder AND by the reference
            // scanner below (rules a body must obey; independent of hickory's decoder)
            let ref_bad = parsed.question.as_ref().and_then(|(qb, _)| ref_body_bad(bytes, 12 + qb.len()));
            if let Some(why) = ref_bad {
                rec.stat(&format!("refbody.{why}"));
                if parsed.body == Some(true) {
                    rec.stat("note.reference-says-bad-decoder-says-ok");
                }
            }
            // (the catalog on its own: a message that is itself a response is a format error)
            let unparsable = parsed.question.is_none() || parsed.body == Some(false) || ref_bad.is_some() || (entry_cat && hdr_qr);
            if unparsable {
                s.push(FORMERR);
            }
            let denied = !entry_cat && ref_denied(&cfg.deny, &cfg.allow, ip);
            if denied {
                s.push(REFUSED);
            }
            if parsed.edns_version.is_some_and(|v| v > 0) {
                s.push(BADVERS);
            }
            let zone = parsed.question.as_ref().and_then(|(_, q)| right_zone(&cfg.zones, &cfg.live, &q.name));
            if opcode == 0 && parsed.question.is_some() && zone.is_none() {
                s.push(REFUSED);
            }
            rec.stat(&format!("acl.{}", if denied { "denied" } else { "allowed" }));
            if let Some(v) = parsed.edns_version {
                rec.stat(&format!("edns.v{}", if v > 1 { "2+".to_string() } else { v.to_string() }));
            }
            if !s.is_empty() {
                rec.stat(&format!("table.{}", s.iter().map(|c| c.to_string()).collect::<Vec<_>>().join("+")));
                if !s.contains(&rc) {
                    fails.push((format!("response code {rc}, but the request calls for one of {s:?}"), ""));
                }
                if denied && !log.is_empty() {
                    rec.stat("note.denied-source-reached-a-zone");
                }
            } else {
                rec.stat(if opcode == 0 { "table.query-served" } else { "table.update-served" });
                // answered from the zone with the longest origin enclosing the name
                for c in &log {
                    let z: Option<usize> = c[1..].split_once('.').and_then(|(z, _)| z.parse().ok());
                    if z != zone {
                        fails.push((format!("handler call {c} is not on the zone with the longest enclosing origin ({zone:?})"), ""));
                        break;
                    }
                }
                if opcode == 0 {
                    if let Some(z) = zone {
                        rec.stat(&format!("zone.depth={}", cfg.zones[z].origin.num_labels().min(5)));
                        if cfg.zones[z].handlers.len() > 1 {
                            rec.stat("zone.chained");
                        }
                        if log.is_empty() && !cfg.zones[z].handlers.is_empty() {
                            fails.push(("a served query reached no handler of its zone".into(), ""));
                        }
                    }
                }
            }
            // question: required once the server parsed it (known opcode, question decodes).
            // "Equal" is judged on the decoded question (labels octet for octet, type, class), read
            // from request and response by the small decoder below — echoing the request's bytes is
            // how the server achieves it, but the bytes must still *mean* the same in the response.
            if known_op {
                if let Some((qb, q)) = &parsed.question {
                    let compressed = qb[..qb.len() - 4] != wire_name(&labels_of(&q.name))[..];
                    if compressed {
                        rec.stat("question.compressed");
                    }
                    let want = decode_question(bytes);
                    let have = if r.qd == 1 { decode_question(&v[0]) } else { None };
                    if want.is_none() {
                        rec.stat("note.question-not-decodable-by-reference-decoder");
                    } else if have != want {
                        fails.push((
                            format!(
                                "the question of the response does not decode to the request's question{}",
                                if compressed { " (compressed question name in the request)" } else { "" }
                            ),
                            // the header-only SERVFAIL that `MessageResponse::encode` falls back to when a
                            // handler's records cannot be encoded
                            if unenc && r.qd == 0 && rc == 2 { "C11.EncodeFallbackDropsQuestion" } else { "" },
                        ));
                    }
                }
            }
            let _ = MessageType::Query;
        }
        for (w, c) in fails {
            rec.fail(idx, w, c);
        }
    }
}

// ------------------------------------------------------------------ generators

fn wire_name(labels: &[Vec<u8>]) -> Vec<u8> {
    let mut v = vec![];
    for l in labels {
        v.push(l.len() as u8);
        v.extend(l);
    }
    v.push(0);
    v
}

fn labels_of(n: &Name) -> Vec<Vec<u8>> {
    n.iter().map(|l| l.to_vec()).collect()
}

fn header(id: u16, b2: u8, b3: u8, qd: u16, an: u16, ns: u16, ar: u16) -> Vec<u8> {
    let mut v = vec![];
    v.extend(id.to_be_bytes());
    v.push(b2);
    v.push(b3);
    for c in [qd, an, ns, ar] {
        v.extend(c.to_be_bytes());
    }
    v
}

fn rr(name: &[u8], typ: u16, class: u16, ttl: u32, rdata: &[u8]) -> Vec<u8> {
    let mut v = name.to_vec();
    v.extend(typ.to_be_bytes());
    v.extend(class.to_be_bytes());
    v.extend(ttl.to_be_bytes());
    v.extend((rdata.len() as u16).to_be_bytes());
    v.extend(rdata);
    v
}

fn opt_rr(payload: u16, ext: u8, ver: u8, flags: u16, rdata: &[u8]) -> Vec<u8> {
    rr(&[0], 41, payload, ((ext as u32) << 24) | ((ver as u32) << 16) | flags as u32, rdata)
}

fn name(s: &str) -> Name {
    Name::from_ascii(s).unwrap()
}

const RCS: &[u16] = &[1, 2, 3, 4, 5, 9, 8, 10, 16, 23];

fn gen_lres(r: &mut Rng) -> LRes {
    if r.chance(1, 14) {
        LRes::Unenc
    } else if r.chance(1, 2) {
        LRes::Ok
    } else {
        LRes::Err(*r.pick(RCS))
    }
}

fn gen_flow(r: &mut Rng) -> Flow {
    match r.below(5) {
        0 => Flow::Skip,
        1 | 2 => Flow::Cont(gen_lres(r)),
        _ => Flow::Brk(gen_lres(r)),
    }
}

fn gen_scripted(r: &mut Rng) -> HSpec {
    HSpec::Scr {
        zt: *r.pick(&[ZoneType::Primary, ZoneType::Primary, ZoneType::Secondary, ZoneType::External]),
        search: gen_flow(r),
        consult: if r.chance(1, 2) { None } else { Some(gen_flow(r)) },
        update: *r.pick(&[0u16, 0, 1, 2, 5, 9, 10, 4]),
        xfer: match r.below(4) {
            0 => None,
            _ => Some(gen_lres(r)),
        },
    }
}

fn gen_handlers(r: &mut Rng) -> Vec<HSpec> {
    match r.below(10) {
        0..=4 => vec![HSpec::Mem { axfr: r.chance(1, 3) }],
        5 => vec![],
        6 => vec![gen_scripted(r)],
        _ => {
            // chained
            let k = r.range(2, 4);
            (0..k)
                .map(|_| if r.chance(1, 4) { HSpec::Mem { axfr: r.chance(1, 2) } } else { gen_scripted(r) })
                .collect()
        }
    }
}

fn zone_pool() -> Vec<Name> {
    let mut v: Vec<Name> = [
        ".", "com.", "example.com.", "sub.example.com.", "a.b.sub.example.com.", "example.org.", "org.", "EXAMPLE.net.",
        "xn--nxasmq6b.example.com.", "deep.er.and.deep.er.example.org.", "test.", "10.in-addr.arpa.", "ple.com.",
    ]
    .iter()
    .map(|s| name(s))
    .collect();
    // a relative origin (never matches), an origin with a binary label, a long one
    let mut rel = name("example.com");
    rel.set_fqdn(false);
    v.push(rel);
    v.push(Name::from_labels([&b"\x00\xffA."[..], &b"com"[..]]).unwrap());
    let mut long = Name::root();
    for _ in 0..60 {
        long = long.append_label(&b"abc"[..]).unwrap();
    }
    v.push(long);
    v
}

fn gen_zones(r: &mut Rng) -> Vec<ZSpec> {
    let pool = zone_pool();
    let k = match r.below(10) {
        0 => 0,
        1 => 1,
        _ => r.range(2, 7) as usize,
    };
    let mut z: Vec<ZSpec> = (0..k).map(|_| ZSpec { origin: r.pick(&pool).clone(), handlers: gen_handlers(r), remove: false }).collect();
    if r.chance(1, 8) && !z.is_empty() {
        // remove a configured origin again (written in another case), sometimes configure it anew
        let victim = r.pick(&z).origin.clone();
        let mut o = Name::from_ascii(victim.to_ascii().to_uppercase()).unwrap_or(victim.clone());
        o.set_fqdn(victim.is_fqdn());
        z.push(ZSpec { origin: o, handlers: vec![], remove: true });
        if r.chance(1, 3) {
            z.push(ZSpec { origin: victim, handlers: gen_handlers(r), remove: false });
        }
    }
    if r.chance(1, 6) && !z.is_empty() {
        // upsert the same origin again (different letter case): replaces the handlers
        let mut o = z[0].origin.to_ascii().to_uppercase();
        if !z[0].origin.is_fqdn() {
            o = z[0].origin.to_ascii();
        }
        if let Ok(n) = Name::from_ascii(&o) {
            let mut n = n;
            n.set_fqdn(z[0].origin.is_fqdn());
            z.push(ZSpec { origin: n, handlers: gen_handlers(r), remove: false });
        }
    }
    z
}

fn v4(a: u8, b_: u8, c: u8, d: u8) -> IpAddr {
    IpAddr::V4(Ipv4Addr::new(a, b_, c, d))
}

fn gen_net(r: &mut Rng) -> IpNet {
    let bases4: &[(IpAddr, u8)] = &[
        (v4(10, 0, 0, 0), 8),
        (v4(10, 1, 0, 0), 16),
        (v4(10, 1, 2, 0), 24),
        (v4(10, 1, 2, 3), 32),
        (v4(10, 1, 0, 3), 29),
        (v4(192, 168, 0, 0), 16),
        (v4(192, 168, 1, 0), 24),
        (v4(0, 0, 0, 0), 0),
        (v4(127, 0, 0, 0), 8),
        (v4(128, 0, 0, 0), 1),
        (v4(255, 255, 255, 255), 32),
    ];
    let bases6: &[(&str, u8)] = &[
        ("fd00::", 8),
        ("fd00::", 120),
        ("fd00::1", 128),
        ("2001:db8::", 32),
        ("2001:db8:1::", 48),
        ("::", 0),
        ("::ffff:10.0.0.0", 104),
        ("::ffff:0.0.0.0", 96),
        ("::10.0.0.0", 104),
        ("fe80::", 10),
    ];
    if r.chance(2, 3) {
        let (a, l) = *r.pick(bases4);
        let l = if r.chance(1, 6) { r.below(33) as u8 } else { l };
        IpNet::new(a, l).unwrap()
    } else {
        let (a, l) = *r.pick(bases6);
        let l = if r.chance(1, 6) { r.below(129) as u8 } else { l };
        IpNet::new(a.parse().unwrap(), l).unwrap()
    }
}

fn gen_acl(r: &mut Rng) -> (Vec<IpNet>, Vec<IpNet>) {
    let n = |r: &mut Rng, k: u64| -> Vec<IpNet> { (0..k).map(|_| gen_net(r)).collect() };
    match r.below(10) {
        0..=3 => (vec![], vec![]),
        4 => {
            let k = r.range(1, 3);
            (n(r, k), vec![])
        }
        5 => {
            let k = r.range(1, 3);
            (vec![], n(r, k))
        }
        6 => {
            // the same prefix in both lists
            let p = gen_net(r);
            (vec![p], vec![p])
        }
        _ => {
            let (kd, ka) = (r.range(1, 4), r.range(1, 4));
            (n(r, kd), n(r, ka))
        }
    }
}

fn gen_src(r: &mut Rng, deny: &[IpNet], allow: &[IpNet]) -> IpAddr {
    let all: Vec<&IpNet> = deny.iter().chain(allow.iter()).collect();
    let ip = if !all.is_empty() && r.chance(3, 5) {
        // inside / at the edges / just outside a configured prefix
        let p = **r.pick(&all);
        match p {
            IpNet::V4(p) => {
                let (lo, hi) = (u32::from(p.network()), u32::from(p.broadcast()));
                IpAddr::V4(Ipv4Addr::from(match r.below(5) {
                    0 => lo,
                    1 => hi,
                    2 => lo.wrapping_sub(1),
                    3 => hi.wrapping_add(1),
                    _ => lo + (r.next() as u32) % (hi - lo).max(1),
                }))
            }
            IpNet::V6(p) => {
                let (lo, hi) = (u128::from(p.network()), u128::from(p.broadcast()));
                IpAddr::V6(Ipv6Addr::from(match r.below(5) {
                    0 => lo,
                    1 => hi,
                    2 => lo.wrapping_sub(1),
                    3 => hi.wrapping_add(1),
                    _ => lo + ((r.next() as u128) << 64 | r.next() as u128) % (hi - lo).max(1),
                }))
            }
        }
    } else {
        match r.below(6) {
            0 => v4(127, 0, 0, 1),
            1 => v4(8, 8, 8, 8),
            2 => v4(10, 1, 2, 3),
            3 => "2001:db8::1".parse().unwrap(),
            4 => "fd00::1".parse().unwrap(),
            _ => IpAddr::V4(Ipv4Addr::from(r.next() as u32)),
        }
    };
    // a v4 source as seen on a dual-stack socket
    match ip {
        IpAddr::V4(a) if r.chance(1, 5) => IpAddr::V6(a.to_ipv6_mapped()),
        IpAddr::V4(a) if r.chance(1, 30) => IpAddr::V6(Ipv6Addr::from(u32::from(a) as u128)), // v4-compatible: stays v6
        x => x,
    }
}

fn flip_case(r: &mut Rng, l: &mut [u8]) {
    for c in l.iter_mut() {
        if c.is_ascii_alphabetic() && r.chance(1, 2) {
            *c ^= 0x20;
        }
    }
}

/// a query name placed relative to the configured zones
fn gen_qname(r: &mut Rng, zones: &[ZSpec]) -> Vec<Vec<u8>> {
    let pool = zone_pool();
    let base = if !zones.is_empty() && r.chance(5, 6) { r.pick(zones).origin.clone() } else { r.pick(&pool).clone() };
    let mut l = labels_of(&base);
    match r.below(10) {
        0 | 1 => {}
        2 | 3 => l.insert(0, b"www".to_vec()),
        4 => {
            l.insert(0, b"deleg".to_vec());
            if r.chance(1, 2) {
                l.insert(0, b"host".to_vec());
            }
        }
        5 => {
            for _ in 0..r.range(1, 3) {
                l.insert(0, r.pick(&[&b"a"[..], b"sub", b"x-y", b"*", b"ns", b"\x00", b"deep"]).to_vec());
            }
        }
        6 => {
            if !l.is_empty() {
                l.remove(0);
            }
        }
        7 => {
            // sibling: change the first label
            if !l.is_empty() {
                l[0].push(b'x');
                l[0].truncate(63);
            } else {
                l.push(b"nozone".to_vec());
            }
        }
        8 => {
            // same suffix characters but a different label boundary: "xexample.com"
            if !l.is_empty() {
                l[0].insert(0, b'x');
                l[0].truncate(63);
            }
        }
        _ => l = vec![b"unrelated".to_vec(), b"invalid".to_vec()],
    }
    if r.chance(1, 3) {
        for x in l.iter_mut() {
            flip_case(r, x);
        }
    }
    while l.iter().map(|x| x.len() + 1).sum::<usize>() + 1 > 255 {
        l.remove(0);
    }
    l
}

const QTYPES: &[u16] = &[1, 1, 1, 2, 6, 6, 16, 28, 255, 252, 252, 251, 41, 0, 65535, 5, 15, 47, 250, 249];
const QCLASSES: &[u16] = &[1, 1, 1, 1, 1, 3, 254, 255, 0, 2];

struct Built {
    bytes: Vec<u8>,
    /// offsets worth mutating
    qlen: usize,
}

fn gen_edns(r: &mut Rng) -> Option<Vec<u8>> {
    if r.chance(3, 5) {
        return None;
    }
    let ver = *r.pick(&[0u8, 0, 0, 1, 255, 2]);
    let payload = *r.pick(&[0u16, 512, 1232, 4096, 65535, 100]);
    let flags = *r.pick(&[0u16, 0x8000, 0x8000, 0xFFFF, 1]);
    let ext = *r.pick(&[0u8, 0, 0, 1, 255]);
    let rdata: Vec<u8> = match r.below(5) {
        0 => vec![0, 3, 0, 0],                         // NSID request
        1 => vec![0, 10, 0, 8, 1, 2, 3, 4, 5, 6, 7, 8], // cookie
        _ => vec![],
    };
    Some(opt_rr(payload, ext, ver, flags, &rdata))
}

/// a well-formed request of the given opcode
fn gen_valid(r: &mut Rng, zones: &[ZSpec], opcode: u8) -> Built {
    let id = r.next() as u16;
    let mut b2 = opcode << 3;
    if r.chance(1, 2) {
        b2 |= 1; // RD
    }
    if r.chance(1, 10) {
        b2 |= 4; // AA
    }
    if r.chance(1, 12) {
        b2 |= 2; // TC
    }
    let mut b3 = 0u8;
    if r.chance(1, 4) {
        b3 |= 0x10; // CD
    }
    if r.chance(1, 6) {
        b3 |= 0x20; // AD
    }
    if r.chance(1, 12) {
        b3 |= 0x40; // Z
    }
    if r.chance(1, 12) {
        b3 |= 0x80; // RA
    }
    if r.chance(1, 10) {
        b3 |= r.below(16) as u8; // an rcode in a request
    }
    let ql = gen_qname(r, zones);
    let qname = wire_name(&ql);
    let (qtype, qclass) = match opcode {
        5 => (if r.chance(5, 6) { 6 } else { *r.pick(QTYPES) }, *r.pick(QCLASSES)),
        4 => (6, 1),
        _ => (*r.pick(QTYPES), *r.pick(QCLASSES)),
    };
    let mut q = qname.clone();
    q.extend(qtype.to_be_bytes());
    q.extend(qclass.to_be_bytes());
    let qlen = q.len();
    let mut sections: Vec<Vec<Vec<u8>>> = vec![vec![], vec![], vec![]];
    if opcode == 5 {
        // RFC 2136: prerequisites / updates built from the repo's own record types
        let owner = {
            let mut l = ql.clone();
            l.insert(0, b"new".to_vec());
            while l.iter().map(|x| x.len() + 1).sum::<usize>() + 1 > 255 {
                l.remove(1);
            }
            wire_name(&l)
        };
        for _ in 0..r.below(3) {
            sections[0].push(match r.below(3) {
                0 => rr(&owner, 255, 255, 0, &[]), // name is in use
                1 => rr(&owner, 1, 254, 0, &[]),   // rrset does not exist
                _ => rr(&owner, 1, 1, 0, &[192, 0, 2, 7]),
            });
        }
        for _ in 0..r.below(4) {
            sections[1].push(match r.below(4) {
                0 => rr(&owner, 1, 1, 300, &[192, 0, 2, 9]),
                1 => rr(&owner, 255, 255, 0, &[]), // delete all rrsets
                2 => rr(&owner, 1, 254, 0, &[192, 0, 2, 9]),
                _ => {
                    // encoded by hickory itself
                    let rec = Record::from_rdata(name("built.example.com."), 60, RData::TXT(TXT::new(vec!["x".repeat(r.range(0, 40) as usize)])));
                    let mut m = Message::new(0, MessageType::Query, OpCode::Update);
                    m.add_answer(rec);
                    m.to_vec().map(|v| v[12..].to_vec()).unwrap_or_default()
                }
            });
        }
    } else if r.chance(1, 12) {
        // records in a query's answer/authority section are legal to decode
        sections[r.below(2) as usize].push(rr(&qname, 1, 1, 60, &[192, 0, 2, 1]));
    }
    if let Some(o) = gen_edns(r) {
        sections[2].push(o);
        if r.chance(1, 10) {
            sections[2].insert(0, rr(&qname, 16, 1, 0, &[3, b'a', b'b', b'c']));
        }
    }
    let counts: Vec<u16> = sections.iter().map(|s| s.len() as u16).collect();
    let mut bytes = header(id, b2, b3, 1, counts[0], counts[1], counts[2]);
    bytes.extend(q);
    for s in sections {
        for x in s {
            bytes.extend(x);
        }
    }
    Built { bytes, qlen }
}

fn set_u16(v: &mut [u8], at: usize, x: u16) {
    if v.len() >= at + 2 {
        v[at..at + 2].copy_from_slice(&x.to_be_bytes());
    }
}

/// one request byte string; `i` cycles through the kinds so that every kind is hit on every run
fn gen_request(r: &mut Rng, zones: &[ZSpec], i: usize) -> Vec<u8> {
    let op_for = |r: &mut Rng| -> u8 {
        match r.below(10) {
            0..=5 => 0,
            6 | 7 => 5,
            8 => 4,
            _ => r.below(16) as u8,
        }
    };
    let op = op_for(r);
    match i % 40 {
        0..=11 => gen_valid(r, zones, 0).bytes,
        12..=14 => gen_valid(r, zones, 5).bytes,
        15 => gen_valid(r, zones, 4).bytes,
        16 | 17 => gen_valid(r, zones, (i / 40 % 16) as u8).bytes, // every opcode value in turn
        18 => {
            // QR = 1
            let mut m = gen_valid(r, zones, op).bytes;
            m[2] |= 0x80;
            m
        }
        19 | 20 => {
            // truncated at every length in turn (below and beyond the header)
            let m = gen_valid(r, zones, op).bytes;
            let cut = if i % 40 == 19 { (i / 40) % 13 } else { 12 + (i / 40) % (m.len() - 11) };
            m[..cut.min(m.len())].to_vec()
        }
        21 | 22 => {
            // QDCOUNT edits
            let mut b_ = gen_valid(r, zones, op);
            let qd = *r.pick(&[0u16, 0, 2, 2, 65535, 256, 3]);
            set_u16(&mut b_.bytes, 4, qd);
            if qd == 2 && r.chance(1, 2) {
                // really carry two questions
                let q = b_.bytes[12..12 + b_.qlen].to_vec();
                let tail = b_.bytes.split_off(12 + b_.qlen);
                b_.bytes.extend(q);
                b_.bytes.extend(tail);
            }
            if qd == 0 && r.chance(1, 2) {
                b_.bytes.truncate(12);
            }
            b_.bytes
        }
        23 | 24 => {
            // other count edits
            let mut m = gen_valid(r, zones, op).bytes;
            let at = *r.pick(&[6usize, 8, 10]);
            let v = *r.pick(&[0u16, 1, 2, 65535, 300]);
            set_u16(&mut m, at, v);
            m
        }
        25..=27 => {
            // bit flips
            let mut m = gen_valid(r, zones, op).bytes;
            for _ in 0..r.range(1, 3) {
                let at = r.below(m.len() as u64) as usize;
                m[at] ^= 1 << r.below(8);
            }
            m
        }
        28 => {
            // byte edits inside the question
            let mut b_ = gen_valid(r, zones, op);
            let at = 12 + r.below(b_.qlen as u64) as usize;
            b_.bytes[at] = *r.pick(&[0u8, 0xC0, 0xC0, 0x40, 0x80, 63, 64, 0xFF, 1]);
            b_.bytes
        }
        29 | 30 => {
            // garbage tails (with and without a count that claims them)
            let mut m = gen_valid(r, zones, op).bytes;
            let k = r.range(1, 40) as usize;
            m.extend(r.bytes(k));
            if r.chance(1, 2) {
                let c = u16::from_be_bytes([m[10], m[11]]).wrapping_add(1);
                set_u16(&mut m, 10, c);
            }
            m
        }
        31 | 32 => {
            // random bytes, sometimes behind a plausible header
            let k = *r.pick(&[0usize, 1, 11, 12, 13, 17, 30, 64, 200]);
            let mut m = r.bytes(k);
            if r.chance(1, 2) && m.len() >= 12 {
                m[2] &= 0x7F;
                if r.chance(1, 2) {
                    m[2] &= 0x07;
                    set_u16(&mut m, 4, 1);
                }
            }
            m
        }
        33 | 34 => {
            // compressed question names: pointers into the header, to itself, forward
            let id = r.next() as u16;
            let b2 = (op << 3) | (r.below(2) as u8);
            let mut m = header(id, b2, if r.chance(1, 3) { 0x10 } else { 0 }, 1, 0, 0, 0);
            if r.chance(1, 2) {
                m.extend([3, b'w', b'w', b'w']);
            }
            let target = *r.pick(&[0u16, 1, 2, 3, 4, 5, 6, 8, 10, 11, 12, 13, 14, 100]);
            m.extend((0xC000u16 | target).to_be_bytes());
            m.extend([0, *r.pick(&[1u8, 6, 252]), 0, 1]);
            if r.chance(1, 3) {
                m.extend(opt_rr(1232, 0, *r.pick(&[0u8, 1]), 0, &[]));
                set_u16(&mut m, 10, 1);
            }
            m
        }
        35 => {
            // EDNS edge cases: two OPTs, OPT outside the additional section, OPT with an owner name
            let mut b_ = gen_valid(r, zones, op);
            b_.bytes.truncate(12 + b_.qlen);
            let ver = *r.pick(&[0u8, 1, 255]);
            let (an, ns, ar, tail): (u16, u16, u16, Vec<u8>) = match r.below(4) {
                0 => (0, 0, 2, [opt_rr(512, 0, ver, 0, &[]), opt_rr(4096, 0, 0, 0, &[])].concat()),
                1 => (1, 0, 0, opt_rr(512, 0, ver, 0, &[])),
                2 => (0, 0, 1, rr(&[1, b'x', 0], 41, 512, (ver as u32) << 16, &[])),
                _ => (0, 1, 1, [rr(&[0], 250, 255, 0, &[]), opt_rr(512, 0, ver, 0, &[])].concat()),
            };
            set_u16(&mut b_.bytes, 6, an);
            set_u16(&mut b_.bytes, 8, ns);
            set_u16(&mut b_.bytes, 10, ar);
            b_.bytes.extend(tail);
            b_.bytes
        }
        36 => {
            // label / name length limits in the question
            let id = r.next() as u16;
            let mut m = header(id, r.below(2) as u8, 0, 1, 0, 0, 0);
            match r.below(4) {
                0 => {
                    m.push(63);
                    m.extend(vec![b'a'; 63]);
                    m.extend([3, b'c', b'o', b'm', 0]);
                }
                1 => {
                    m.push(64);
                    m.extend(vec![b'a'; 64]);
                    m.push(0);
                }
                2 => {
                    for _ in 0..127 {
                        m.extend([1, b'a']);
                    }
                    m.push(0);
                }
                _ => {
                    for _ in 0..128 {
                        m.extend([1, b'a']);
                    }
                    m.push(0);
                }
            }
            m.extend([0, 1, 0, 1]);
            m
        }
        37 => {
            // a big TCP-sized message: valid request + many additional records
            let mut b_ = gen_valid(r, zones, 0);
            b_.bytes.truncate(12 + b_.qlen);
            let k = *r.pick(&[10u16, 50, 200]);
            for _ in 0..k {
                b_.bytes.extend(rr(&[0xC0, 12], 16, 1, 0, &[4, b'x', b'x', b'x', b'x']));
            }
            set_u16(&mut b_.bytes, 10, k);
            b_.bytes
        }
        38 => {
            // EDNS version sweep on an otherwise plain query / update / notify
            let op38 = *r.pick(&[0u8, 0, 5, 4, 2]);
            let mut b_ = gen_valid(r, zones, op38);
            b_.bytes.truncate(12 + b_.qlen);
            set_u16(&mut b_.bytes, 6, 0);
            set_u16(&mut b_.bytes, 8, 0);
            set_u16(&mut b_.bytes, 10, 1);
            b_.bytes.extend(opt_rr(*r.pick(&[512u16, 1232, 0]), 0, *r.pick(&[0u8, 1, 255, 7]), *r.pick(&[0u16, 0x8000]), &[]));
            b_.bytes
        }
        39 => {
            // a random member of the body family over a name related to the configured zones
            let mut b_ = gen_valid(r, zones, op);
            b_.bytes.truncate(12 + b_.qlen);
            let qname = b_.bytes[12..12 + b_.qlen - 4].to_vec();
            let shapes = body_shapes(&qname);
            let (_, recs) = r.pick(&shapes).clone();
            let sec = r.below(3) as usize;
            let mut counts = [0u16; 3];
            counts[sec] = recs.len() as u16;
            let mut body = recs.concat();
            if sec != 2 && r.chance(1, 3) {
                counts[2] += 1;
                body.extend(opt_rr(1232, 0, *r.pick(&[0u8, 0, 1]), 0, &[]));
            }
            set_u16(&mut b_.bytes, 6, counts[0]);
            set_u16(&mut b_.bytes, 8, counts[1]);
            set_u16(&mut b_.bytes, 10, counts[2]);
            b_.bytes.extend(body);
            b_.bytes
        }
        _ => gen_valid(r, zones, op).bytes,
    }
}

/// a well-formed TSIG record (owner `key.`, algorithm `hmac-sha256.`, 4-octet MAC)
fn tsig_rr() -> Vec<u8> {
    let mut d = wire_name(&[b"hmac-sha256".to_vec()]);
    d.extend([0, 0, 0x65, 0, 0, 0]); // time signed (48 bit)
    d.extend([1, 44]); // fudge
    d.extend([0, 4, 1, 2, 3, 4]); // MAC
    d.extend([0x12, 0x34]); // original id
    d.extend([0, 0]); // error
    d.extend([0, 0]); // other len
    rr(&wire_name(&[b"key".to_vec()]), 250, 255, 0, &d)
}

/// record shapes of the directed body family: (label, records to put into the chosen section)
fn body_shapes(qname: &[u8]) -> Vec<(&'static str, Vec<Vec<u8>>)> {
    let a = |rd: &[u8]| rr(qname, 1, 1, 60, rd);
    let mut v: Vec<(&'static str, Vec<Vec<u8>>)> = vec![
        ("valid-a", vec![a(&[192, 0, 2, 1])]),
        ("valid-txt", vec![rr(qname, 16, 1, 60, &[2, b'h', b'i'])]),
        ("valid-ns-compressed", vec![rr(&[0xC0, 12], 2, 1, 60, &[0xC0, 12])]),
        // RDLENGTH 0: only legal in UPDATE messages (RFC 2136), OPT excepted
        ("empty-a", vec![rr(qname, 1, 1, 0, &[])]),
        ("empty-ns", vec![rr(qname, 2, 1, 0, &[])]),
        ("empty-txt", vec![rr(qname, 16, 1, 0, &[])]),
        ("empty-unknown", vec![rr(qname, 65280, 1, 0, &[])]),
        ("empty-any-class-any", vec![rr(qname, 255, 255, 0, &[])]),
        ("empty-a-class-none", vec![rr(qname, 1, 254, 0, &[])]),
        ("empty-soa", vec![rr(qname, 6, 1, 0, &[])]),
        ("empty-after-valid", vec![a(&[192, 0, 2, 1]), rr(qname, 1, 1, 0, &[])]),
        ("empty-opt", vec![opt_rr(1232, 0, 0, 0, &[])]),
        ("empty-sig", vec![rr(qname, 24, 255, 0, &[])]),
        ("empty-tsig", vec![rr(qname, 250, 255, 0, &[])]),
        // RDLENGTH that does not fit the type / the message
        ("a-rdlen-5", vec![a(&[192, 0, 2, 1, 9])]),
        ("a-rdlen-3", vec![a(&[192, 0, 2])]),
        ("aaaa-rdlen-15", vec![rr(qname, 28, 1, 60, &[0; 15])]),
        ("mx-rdlen-1", vec![rr(qname, 15, 1, 60, &[0])]),
        ("soa-rdlen-4", vec![rr(qname, 6, 1, 60, &[0, 0, 0, 0])]),
        ("txt-inner-length-overruns", vec![rr(qname, 16, 1, 60, &[9, b'x'])]),
        ("rdlen-overruns-message", {
            let mut x = a(&[192, 0, 2, 1]);
            let n = x.len();
            x[n - 6..n - 4].copy_from_slice(&400u16.to_be_bytes());
            vec![x]
        }),
        // OPT / TSIG placement and counts
        ("opt-with-option", vec![opt_rr(4096, 0, 0, 0x8000, &[0, 10, 0, 8, 1, 2, 3, 4, 5, 6, 7, 8])]),
        ("two-opt", vec![opt_rr(1232, 0, 0, 0, &[]), opt_rr(512, 0, 0, 0, &[])]),
        ("opt-owner-not-root", vec![rr(&[1, b'x', 0], 41, 1232, 0, &[])]),
        ("opt-version-1", vec![opt_rr(1232, 0, 1, 0, &[])]),
        ("tsig-last", vec![a(&[192, 0, 2, 1]), tsig_rr()]),
        ("tsig-not-last", vec![tsig_rr(), a(&[192, 0, 2, 1])]),
        ("tsig-then-opt", vec![tsig_rr(), opt_rr(1232, 0, 0, 0, &[])]),
        ("two-tsig", vec![tsig_rr(), tsig_rr()]),
        ("tsig-garbage-rdata", vec![rr(qname, 250, 255, 0, &[1, 2, 3])]),
        ("sig-garbage-rdata", vec![rr(qname, 24, 255, 0, &[1, 2, 3])]),
        // class / ttl extremes
        ("class-0-ttl-max", vec![rr(qname, 1, 0, 0xFFFF_FFFF, &[192, 0, 2, 1])]),
        ("class-65535-ttl-negative", vec![rr(qname, 1, 65535, 0x8000_0000, &[192, 0, 2, 1])]),
        ("type-0", vec![rr(qname, 0, 1, 60, &[1])]),
        ("type-any-with-rdata", vec![rr(qname, 255, 1, 60, &[1])]),
        ("type-axfr-with-rdata", vec![rr(qname, 252, 1, 60, &[1])]),
        // owner names: pointers forward / to itself / into the header, bad label types
        ("owner-pointer-forward", vec![rr(&[0xC0, 0xFF], 1, 1, 60, &[192, 0, 2, 1])]),
        ("owner-pointer-into-header", vec![rr(&[0xC0, 4], 1, 1, 60, &[192, 0, 2, 1])]),
        ("owner-label-type-01", vec![rr(&[0x41, b'x', 0], 1, 1, 60, &[192, 0, 2, 1])]),
        ("rdata-name-pointer-forward", vec![rr(qname, 2, 1, 60, &[0xC0, 0xFF])]),
    ];
    // truncated records: cut inside the owner, the fixed part, the RDATA
    let full = a(&[192, 0, 2, 1]);
    for (label, cut) in [("cut-in-owner", 1usize), ("cut-in-fixed", qname.len() + 5), ("cut-in-rdata", full.len() - 2)] {
        v.push((label, vec![full[..cut.min(full.len() - 1)].to_vec()]));
    }
    v
}

/// section ∈ {answer, authority, additional} × opcode × record shape (× with/without a trailing OPT)
fn body_family() -> Vec<(String, Vec<u8>)> {
    let q = [wire_name(&labels_of(&name("www.example.com."))), vec![0, 1, 0, 1]].concat();
    let qname = &q[..q.len() - 4];
    let mut out = vec![];
    for op in [0u8, 5, 4, 2] {
        for sec in 0..3usize {
            for (label, recs) in body_shapes(qname) {
                for with_opt in [false, true] {
                    if with_opt && (sec == 2 || !matches!(label, "valid-a" | "empty-a" | "empty-unknown" | "a-rdlen-5" | "tsig-last")) {
                        continue;
                    }
                    let mut counts = [0u16; 3];
                    // a record cut short is still counted once
                    counts[sec] = recs.len() as u16;
                    let mut body: Vec<u8> = recs.concat();
                    if with_opt {
                        counts[2] += 1;
                        body.extend(opt_rr(1232, 0, 0, 0, &[]));
                    }
                    // for UPDATE the question is the zone (SOA)
                    let mut qq = q.clone();
                    if op == 5 || op == 4 {
                        let n = qq.len();
                        qq[n - 3] = 6;
                    }
                    let mut m = header(0xB0D1, (op << 3) | 1, 0, 1, counts[0], counts[1], counts[2]);
                    m.extend(&qq);
                    m.extend(body);
                    out.push((format!("op{op}.sec{sec}.{label}{}", if with_opt { "+opt" } else { "" }), m));
                }
            }
        }
    }
    out
}

fn hand_configs() -> Vec<(Vec<ZSpec>, Vec<IpNet>, Vec<IpNet>)> {
    let mem = |s: &str| ZSpec { origin: name(s), handlers: vec![HSpec::Mem { axfr: false }], remove: false };
    let net = |s: &str| s.parse::<IpNet>().unwrap();
    let scr = |zt, search, consult| HSpec::Scr { zt, search, consult, update: 0, xfer: None };
    use Flow::*;
    use ZoneType::*;
    vec![
        // nested + sibling + root zones, no ACL
        (vec![mem("."), mem("com."), mem("example.com."), mem("sub.example.com."), mem("example.org.")], vec![], vec![]),
        // no root: names outside are REFUSED; deny with a more specific allow
        (vec![mem("example.com."), mem("a.b.sub.example.com.")], vec![net("10.0.0.0/8")], vec![net("10.1.0.0/16")]),
        // allow-only list
        (vec![mem("example.com.")], vec![], vec![net("192.168.1.0/24"), net("fd00::/120")]),
        // the chained configurations of chained_zone_handler_tests.rs
        (
            vec![
                ZSpec { origin: name("continueok.test."), handlers: vec![scr(External, Cont(LRes::Ok), None), scr(External, Cont(LRes::Ok), None)], remove: false },
                ZSpec { origin: name("overwrite.test."), handlers: vec![scr(External, Cont(LRes::Ok), None), scr(External, Skip, Some(Cont(LRes::Err(3))))], remove: false },
                ZSpec { origin: name("breakok.test."), handlers: vec![scr(External, Brk(LRes::Ok), None), scr(External, Brk(LRes::Err(2)), Some(Brk(LRes::Err(2))))], remove: false },
                ZSpec { origin: name("skipprimary.test."), handlers: vec![scr(External, Skip, None), scr(External, Cont(LRes::Ok), None)], remove: false },
                ZSpec { origin: name("skipboth.test."), handlers: vec![scr(Primary, Skip, None), scr(Primary, Skip, None)], remove: false },
                ZSpec { origin: name("primaryerr.test."), handlers: vec![scr(Primary, Cont(LRes::Err(3)), None), scr(Primary, Skip, Some(Cont(LRes::Ok)))], remove: false },
                ZSpec { origin: name("breakerr.test."), handlers: vec![scr(Primary, Brk(LRes::Err(3)), None), scr(Primary, Skip, Some(Cont(LRes::Ok)))], remove: false },
                ZSpec { origin: name("consultskip.test."), handlers: vec![scr(Primary, Cont(LRes::Ok), None), scr(Primary, Skip, Some(Skip))], remove: false },
                ZSpec { origin: name("memfirst.test."), handlers: vec![HSpec::Mem { axfr: true }, scr(Primary, Skip, None)], remove: false },
            ],
            vec![],
            vec![],
        ),
        // same prefix denied and allowed; v4-mapped sources
        (vec![mem(".")], vec![net("10.0.0.0/8"), net("fd00::/8")], vec![net("10.0.0.0/8"), net("fd00::1/128")]),
        // empty catalog
        (vec![], vec![], vec![]),
    ]
}

/// a `udp` line: 2–7 datagrams from distinct sources (interleaved clients), pauses between bursts,
/// a script of send results
fn gen_udp_script(r: &mut Rng, zones: &[ZSpec], deny: &[IpNet], allow: &[IpNet], i: &mut usize) -> String {
    let k = r.range(2, 7) as usize;
    let mut items = vec![];
    for j in 0..k {
        let mut bytes = gen_request(r, zones, *i);
        *i += 1;
        if bytes.len() > 1500 {
            bytes.truncate(1500);
        }
        let src = gen_src(r, deny, allow);
        items.push(format!("d/{}/{}/{}", ip_tok(src), 4000 + j, hex(&bytes)));
        match r.below(6) {
            0 | 1 => items.push("p".into()),
            2 if r.chance(1, 3) => items.push("x".into()),
            _ => {}
        }
    }
    let n = r.below(k as u64 + 4) as usize;
    let script: String = (0..n).map(|_| *r.pick(&['o', 'o', 'o', 'e', 'e', 'E', 'w', 'w'])).collect();
    format!("udp {} {}", items.join(","), if script.is_empty() { "-".to_string() } else { script })
}

/// hand-built transport block: a zone with an RRset that fits no datagram, the real server loop,
/// and send-failure scripts on the real `UdpStream`
fn transport_block(run: &mut Runner, rec: &mut Recorder) {
    let zones = vec![
        ZSpec { origin: name("big.test."), handlers: vec![HSpec::Mem { axfr: true }], remove: false },
        ZSpec { origin: name("example.com."), handlers: vec![HSpec::Mem { axfr: false }], remove: false },
    ];
    run.exec(&format!("begin {} - -", zones_tok(&zones)), rec);
    let q = |n: &str, t: u16, edns: Option<u16>, id: u16| -> Vec<u8> {
        let mut m = header(id, 1, 0, 1, 0, 0, if edns.is_some() { 1 } else { 0 });
        m.extend(wire_name(&labels_of(&name(n))));
        m.extend(t.to_be_bytes());
        m.extend([0, 1]);
        if let Some(p) = edns {
            m.extend(opt_rr(p, 0, 0, 0, &[]));
        }
        m
    };
    let l = |proto: &str, m: &[u8]| format!("req {proto} 4:2130706433 {} ? ? ?", hex(m));
    // the same requests through the hook (u/t) and through the real loop (U/T)
    for proto in ["u", "U", "t", "T"] {
        run.exec(&l(proto, &q("www.example.com.", 1, None, 0x0101)), rec);
        // ≈ 70 kB RRset: 512 / 4096 octets → truncated; 65535 over UDP → does not fit an IPv4
        // datagram (the send fails, the response is dropped); over TCP it fits the 64 kB frame
        run.exec(&l(proto, &q("huge.big.test.", 16, None, 0x0102)), rec);
        run.exec(&l(proto, &q("huge.big.test.", 16, Some(4096), 0x0103)), rec);
        run.exec(&l(proto, &q("huge.big.test.", 16, Some(65535), 0x0104)), rec);
        run.exec(&l(proto, &q("huge.big.test.", 16, Some(65507), 0x0105)), rec);
        // … and the server still answers the next client
        run.exec(&l(proto, &q("www.example.com.", 1, Some(1232), 0x0106)), rec);
        run.exec(&l(proto, &q("big.test.", 252, None, 0x0107)), rec);
        run.exec(&l(proto, &[0x12, 0x34, 0x01]), rec);
        run.exec(&l(proto, &[]), rec);
        let mut resp = q("www.example.com.", 1, None, 0x0108);
        resp[2] |= 0x80;
        run.exec(&l(proto, &resp), rec);
    }
    // the real UdpStream on a scripted socket: three clients, the middle response cannot be sent
    let d = |ip: &str, port: u16, m: &[u8]| format!("d/{}/{port}/{}", ip_tok(ip.parse().unwrap()), hex(m));
    let (a, b_, c) = (q("www.example.com.", 1, None, 1), q("example.com.", 6, Some(1232), 2), q("nozone.invalid.", 1, None, 3));
    for send in ["-", "oeo", "oEo", "E", "EEE", "wowewo", "wwwEwwo", "eee", "ow"] {
        run.exec(&format!("udp {},{},{} {send}", d("192.0.2.1", 4001, &a), d("192.0.2.2", 4002, &b_), d("2001:db8::3", 4003, &c)), rec);
        run.exec(&format!("udp {},p,{},x,{},p {send}", d("192.0.2.1", 4001, &a), d("192.0.2.2", 4002, &b_), d("2001:db8::3", 4003, &c)), rec);
    }
    // datagrams that are owed nothing, between ones that are
    let mut resp = a.clone();
    resp[2] |= 0x80;
    run.exec(&format!("udp {},{},{},{} Eo", d("192.0.2.1", 4001, &a), d("192.0.2.9", 4009, &resp), d("192.0.2.8", 4008, &[1, 2, 3]), d("192.0.2.2", 4002, &b_)), rec);
    run.exec("end", rec);
}

pub fn run(o: &Opts, rec: &mut Recorder) {
    rec.rule = "raw request byte strings (valid queries/updates/notifies of every opcode, EDNS versions, QR=1, truncations at every length, count edits, bit flips, garbage tails, compressed questions, random bytes) × catalogs (nested/sibling/root/relative-origin zones, in-memory and scripted chained handlers) × allow/deny sets × UDP/TCP; a case is non-trivial when the server sent a response; distinct by case line (configuration lines excluded)".into();
    start_watchdog();
    let rt = tokio::runtime::Builder::new_current_thread().enable_all().build().expect("runtime");
    let mut run = Runner { rt, cfg: None };
    for l in o.pre_lines.clone() {
        run.exec(&l, rec);
    }
    if run.cfg.is_some() {
        run.exec("end", rec);
    }
    rec.corpus_cases = rec.cases.len();
    if o.replay_only {
        return;
    }
    let mut r = Rng::new(o.seed);
    // small-scope enumeration of the two flag octets of the header (QR, opcode, AA, TC, RD | RA, Z,
    // AD, CD, rcode) over a fixed question: quick = every value of each octet, thorough = all 65536
    {
        let zones = vec![ZSpec { origin: name("example.com."), handlers: vec![HSpec::Mem { axfr: false }], remove: false }];
        run.exec(&format!("begin {} - -", zones_tok(&zones)), rec);
        let q: Vec<u8> = [wire_name(&labels_of(&name("www.example.com."))), vec![0, 6, 0, 1]].concat();
        let mut one = |b2: u8, b3: u8, run: &mut Runner, rec: &mut Recorder| {
            let mut m = header(0xBEEF, b2, b3, 1, 0, 0, 0);
            m.extend(&q);
            run.exec(&format!("req u 4:134744072 {} ? ? ?", hex(&m)), rec);
        };
        if o.thorough() {
            for v in 0..=0xFFFFu16 {
                one((v >> 8) as u8, v as u8, &mut run, rec);
            }
        } else {
            for v in 0..=0xFFu8 {
                one(v, r.byte(), &mut run, rec);
                one(r.byte() & 0x7F, v, &mut run, rec);
            }
        }
        run.exec("end", rec);
    }
    // directed body family: section × opcode × record shape, against one in-memory zone
    {
        let zones = vec![ZSpec { origin: name("example.com."), handlers: vec![HSpec::Mem { axfr: false }], remove: false }];
        run.exec(&format!("begin {} - -", zones_tok(&zones)), rec);
        for (label, m) in body_family() {
            rec.stat(&format!("bodyfam.{}", label.split('.').nth(2).unwrap_or("")));
            run.exec(&format!("req u 4:134744072 {} ? ? ?", hex(&m)), rec);
        }
        run.exec("end", rec);
    }
    transport_block(&mut run, rec);
    let blocks = o.n(500, 15000);
    let per_block = 30;
    let hand = hand_configs();
    let mut i = 0usize;
    for bi in 0..blocks {
        let (zones, deny, allow) = if bi < hand.len() {
            hand[bi].clone()
        } else {
            let z = gen_zones(&mut r);
            let (d, a) = gen_acl(&mut r);
            (z, d, a)
        };
        run.exec(&format!("begin {} {} {}", zones_tok(&zones), nets_tok(&deny), nets_tok(&allow)), rec);
        // one block in four also runs through the transports under the handler
        let transports = if o.thorough() { bi % 16 == 1 } else { bi % 4 == 1 };
        for _ in 0..per_block {
            let bytes = gen_request(&mut r, &zones, i);
            i += 1;
            let src = gen_src(&mut r, &deny, &allow);
            let mut proto = if r.chance(1, 3) { "t" } else { "u" };
            if transports && r.chance(1, 5) && bytes.len() < 60000 && !(bytes.len() >= 2 && bytes[..2] == MARK_ID.to_be_bytes()) {
                // through Server::register_socket / register_listener on loopback
                proto = if proto == "t" && r.chance(1, 2) { "T" } else { "U" };
            }
            let mut kind = "req";
            if matches!(proto, "u" | "t") {
                match r.below(40) {
                    // Request::from_bytes + Catalog::handle_request without the gate in front
                    0..=3 => kind = "cat",
                    // a stream handle whose receiver is gone
                    4 => proto = "x",
                    _ => {}
                }
            }
            run.exec(&format!("{kind} {proto} {} {} ? ? ?", ip_tok(src), hex(&bytes)), rec);
            if transports && r.chance(1, 6) {
                let l = gen_udp_script(&mut r, &zones, &deny, &allow, &mut i);
                run.exec(&l, rec);
            }
            if transports && r.chance(1, 30) {
                // several requests back to back on one TCP connection, sometimes a partial frame last
                let mut st = vec![];
                for _ in 0..r.range(1, 4) {
                    let mut m = gen_request(&mut r, &zones, i);
                    i += 1;
                    m.truncate(3000);
                    if m.len() >= 2 && m[..2] == MARK_ID.to_be_bytes() {
                        m[0] ^= 1;
                    }
                    st.extend((m.len() as u16).to_be_bytes());
                    st.extend(m);
                }
                match r.below(4) {
                    0 => st.extend([0, 40, 1, 2, 3]),
                    1 => st.push(0),
                    _ => {}
                }
                run.exec(&format!("tcp {}", hex(&st)), rec);
            }
        }
        run.exec("end", rec);
    }
    let _ = BTreeMap::<u8, u8>::new();
    let _ = DNSClass::IN;
}
