//! C04 — names: identity, order, limits.  Runs `hickory_proto::rr::Name` operations.
use std::cmp::Ordering;
use std::collections::hash_map::DefaultHasher;
use std::hash::{Hash, Hasher};

use hickory_proto::rr::domain::Label;
use hickory_proto::rr::{LowerName, Name, RecordType, RrKey};
use hickory_proto::serialize::binary::{BinDecodable, BinDecoder, BinEncodable, BinEncoder, NameEncoding};

use crate::common::*;

fn ord(o: Ordering) -> &'static str {
    match o {
        Ordering::Less => "lt",
        Ordering::Equal => "eq",
        Ordering::Greater => "gt",
    }
}

fn h<T: Hash>(n: &T) -> u64 {
    let mut s = DefaultHasher::new();
    n.hash(&mut s);
    s.finish()
}

fn lower(l: &[u8]) -> Vec<u8> {
    l.iter().map(|b| if (b'A'..=b'Z').contains(b) { b + 32 } else { *b }).collect()
}

/// independent reference: RFC 4034 §6.1 sort key
fn key(n: &Name) -> (bool, Vec<Vec<u8>>) {
    (n.is_fqdn(), n.iter().rev().map(lower).collect())
}

fn wire_len(n: &Name) -> usize {
    n.iter().map(|l| l.len() + 1).sum::<usize>() + 1
}

/// the property's bound: ≤ 255 octets on the wire, every label 1..=63
fn bounded(n: &Name) -> bool {
    wire_len(n) <= 255 && n.iter().all(|l| !l.is_empty() && l.len() <= 63)
}

fn host_style(n: &Name) -> bool {
    n.iter().all(|l| {
        let f = l[0];
        (f.is_ascii_alphanumeric() || f == b'_' || f == b'*' || f == b'.')
            && l[1..].iter().all(|c| c.is_ascii_alphanumeric() || *c == b'-' || *c == b'_' || *c == b'.')
            && (f != b'*' || l.len() == 1 || true)
    })
}

/// a caller-supplied `LabelCmp` for `Label::cmp_with_f`: plain octet order (what `CaseSensitive` is)
struct OctetOrder;
impl hickory_proto::rr::domain::LabelCmp for OctetOrder {
    fn cmp_u8(l: u8, r: u8) -> Ordering {
        l.cmp(&r)
    }
}

/// an item shaped like a record: a (compressible) owner name followed by `pad` opaque octets
struct NamePad {
    name: Name,
    pad: usize,
}

impl BinEncodable for NamePad {
    fn emit(&self, encoder: &mut BinEncoder<'_>) -> Result<(), hickory_proto::ProtoError> {
        self.name.emit(encoder)?;
        encoder.emit_slice(&vec![0xEEu8; self.pad])
    }
}

pub fn exec(line: &str, rec: &mut Recorder) {
    let t: Vec<&str> = line.split_whitespace().collect();
    let r = catch(|| exec_inner(&t));
    match r {
        Ok(Some((out, fails, nontrivial))) => {
            if out == "~" {
                rec.impl_only += 1;
            }
            let idx = rec.case(line.to_string(), out);
            rec.stat(&format!("op.{}", t[0]));
            if nontrivial {
                rec.nontrivial(idx);
            }
            for f in fails {
                rec.fail(idx, f, "");
            }
        }
        Ok(None) => rec.stat("skipped.unparsable-case"),
        Err(p) => {
            let idx = rec.case(line.to_string(), format!("panic {p}"));
            rec.fail(idx, format!("panic: {p}"), "");
        }
    }
}

type Out = Option<(String, Vec<String>, bool)>;

fn exec_inner(t: &[&str]) -> Out {
    let mut fails = vec![];
    let mut nontrivial = true;
    let out = match t {
        ["cmp", a, b] | ["cmpcase", a, b] | ["eq", a, b] | ["eqcase", a, b] | ["hasheq", a, b] | ["zone_of", a, b] => {
            let (a, b) = (parse_name(a)?, parse_name(b)?);
            // order / identity laws, independent of the model
            let c = a.cmp(&b);
            if c != b.cmp(&a).reverse() {
                fails.push("cmp(a,b) != reverse(cmp(b,a))".into());
            }
            if (c == Ordering::Equal) != (a == b) {
                fails.push("cmp == Equal disagrees with ==".into());
            }
            let same = key(&a) == key(&b);
            if (a == b) != same {
                fails.push("== is not 'equal up to ASCII case and nothing else'".into());
            }
            if a == b && h(&a) != h(&b) {
                fails.push("equal names hash differently".into());
            }
            if c != key(&a).cmp(&key(&b)) {
                fails.push("cmp differs from RFC 4034 canonical order".into());
            }
            nontrivial = a.num_labels() > 0 && b.num_labels() > 0;
            match t[0] {
                "cmp" => ord(c).to_string(),
                "cmpcase" => ord(a.cmp_case(&b)).to_string(),
                "eq" => b_(a == b),
                "eqcase" => b_(a.eq_case(&b)),
                "hasheq" => b_(h(&a) == h(&b)),
                _ => b_(a.zone_of(&b)),
            }
        }
        ["lcmp", a, b] | ["leq", a, b] | ["lhasheq", a, b] | ["lzone_of", a, b] => {
            // the key form of names (zone map / catalog): LowerName must carry Name's identity and order
            let (a, b) = (parse_name(a)?, parse_name(b)?);
            let (la, lb) = (LowerName::new(&a), LowerName::from(b.clone()));
            if la.cmp(&lb) != a.cmp(&b) {
                fails.push("LowerName order differs from Name order".into());
            }
            if (la == lb) != (a == b) {
                fails.push("LowerName identity differs from Name identity".into());
            }
            if la == lb && h(&la) != h(&lb) {
                fails.push("equal LowerNames hash differently".into());
            }
            if (la.cmp(&lb) == Ordering::Equal) != (la == lb) {
                fails.push("LowerName cmp == Equal disagrees with ==".into());
            }
            if la.zone_of(&lb) != a.zone_of(&b) {
                fails.push("LowerName::zone_of differs from Name::zone_of".into());
            }
            if LowerName::from(Name::from(la.clone())) != la || !Name::from(&la).eq_case(&a.to_lowercase()) {
                fails.push("LowerName <-> Name conversion changed the name".into());
            }
            if la.is_fqdn() != a.is_fqdn() || la.is_root() != a.is_root() || la.num_labels() != a.num_labels()
                || la.len() != a.len() || la.is_wildcard() != a.is_wildcard() || la.is_empty() != a.is_empty()
            {
                fails.push("LowerName accessor differs from Name accessor".into());
            }
            if la.to_string() != a.to_lowercase().to_string() {
                fails.push("LowerName Display differs from the lower-cased Name".into());
            }
            nontrivial = a.num_labels() > 0 && b.num_labels() > 0;
            match t[0] {
                "lcmp" => ord(la.cmp(&lb)).to_string(),
                "leq" => b_(la == lb),
                "lhasheq" => b_(h(&la) == h(&lb)),
                _ => b_(la.zone_of(&lb)),
            }
        }
        ["lbase_name", a] => {
            let a = parse_name(a)?;
            let r = LowerName::new(&a).base_name();
            if !Name::from(&r).eq_case(&a.to_lowercase().base_name()) {
                fails.push("LowerName::base_name differs from Name::base_name".into());
            }
            format!("ok {}", name_tok(&Name::from(r)))
        }
        ["linto_wildcard", a] => {
            let a = parse_name(a)?;
            let r = LowerName::new(&a).into_wildcard();
            format!("ok {}", name_tok(&Name::from(r)))
        }
        ["lread", buf, pos] => {
            let buf = unhex(buf)?;
            let pos: usize = pos.parse().ok()?;
            if pos > buf.len() || pos > 0xFFFF {
                return None;
            }
            let d0 = BinDecoder::new(&buf);
            let mut d = d0.clone(pos as u16);
            let r = LowerName::read(&mut d);
            let mut d2 = d0.clone(pos as u16);
            let rn = Name::read(&mut d2);
            match (&r, &rn) {
                (Ok(l), Ok(n)) => {
                    if *l != LowerName::new(n) || d.index() != d2.index() {
                        fails.push("LowerName::read differs from lower-cased Name::read".into());
                    }
                }
                (Err(_), Err(_)) => {}
                _ => fails.push("LowerName::read and Name::read disagree on success".into()),
            }
            nontrivial = r.is_ok();
            match &r {
                Ok(n) => format!("ok {} {}", name_tok(&Name::from(n)), d.index()),
                Err(_) => "err".into(),
            }
        }
        ["rrkey_cmp", a, ta, b, tb] => {
            let (a, b) = (parse_name(a)?, parse_name(b)?);
            let (ta, tb): (u16, u16) = (ta.parse().ok()?, tb.parse().ok()?);
            let ka = RrKey::new(LowerName::new(&a), RecordType::from(ta));
            let kb = RrKey::new(LowerName::new(&b), RecordType::from(tb));
            let c = ka.cmp(&kb);
            if c != kb.cmp(&ka).reverse() {
                fails.push("RrKey cmp(a,b) != reverse(cmp(b,a))".into());
            }
            if (c == Ordering::Equal) != (ka == kb) || (ka == kb) != (a == b && ta == tb) {
                fails.push("RrKey identity is not (name up to ASCII case, type)".into());
            }
            if ka == kb && h(&ka) != h(&kb) {
                fails.push("equal RrKeys hash differently".into());
            }
            if a != b && c != a.cmp(&b) {
                fails.push("RrKey order is not name-major".into());
            }
            ord(c).to_string()
        }
        ["eq_ignore_root", a, b] | ["eq_ignore_root_case", a, b] | ["zone_of_case", a, b] => {
            let (a, b) = (parse_name(a)?, parse_name(b)?);
            if a == b && !a.eq_ignore_root(&b) {
                fails.push("== names differ under eq_ignore_root".into());
            }
            if a.eq_ignore_root_case(&b) && !a.eq_ignore_root(&b) {
                fails.push("eq_ignore_root_case without eq_ignore_root".into());
            }
            if a.zone_of_case(&b) && !a.zone_of(&b) {
                fails.push("zone_of_case without zone_of".into());
            }
            nontrivial = a.num_labels() > 0 && b.num_labels() > 0;
            match t[0] {
                "eq_ignore_root" => b_(a.eq_ignore_root(&b)),
                "eq_ignore_root_case" => b_(a.eq_ignore_root_case(&b)),
                _ => b_(a.zone_of_case(&b)),
            }
        }
        ["lbl_cmp", l, r] | ["lbl_cmpcase", l, r] | ["lbl_eq", l, r] | ["lbl_hasheq", l, r] => {
            let (l, r) = (unhex(l)?, unhex(r)?);
            let (ll, lr) = (Label::from_raw_bytes(&l).ok()?, Label::from_raw_bytes(&r).ok()?);
            let c = ll.cmp(&lr);
            if c != lr.cmp(&ll).reverse() {
                fails.push("Label cmp(a,b) != reverse(cmp(b,a))".into());
            }
            if (c == Ordering::Equal) != (ll == lr) || (ll == lr) != (lower(&l) == lower(&r)) {
                fails.push("Label identity is not 'equal up to ASCII case'".into());
            }
            if ll == lr && h(&ll) != h(&lr) {
                fails.push("equal Labels hash differently".into());
            }
            if c != lower(&l).cmp(&lower(&r)) {
                fails.push("Label order is not the order of the lower-cased octet strings".into());
            }
            let (na, nb) = (Name::root().append_label(&l[..]).ok()?, Name::root().append_label(&r[..]).ok()?);
            if na.cmp(&nb) != c {
                fails.push("one-label names order differently from their labels".into());
            }
            if ll.to_lowercase() != ll || ll.to_lowercase().as_bytes() != &lower(&l)[..] {
                fails.push("Label::to_lowercase".into());
            }
            match t[0] {
                "lbl_cmp" => ord(c).to_string(),
                "lbl_cmpcase" => ord(ll.cmp_with_f::<OctetOrder>(&lr)).to_string(),
                "lbl_eq" => b_(ll == lr),
                _ => b_(h(&ll) == h(&lr)),
            }
        }
        ["randomize", a] => {
            // implementation-only: case randomisation (0x20) must keep identity, hash and length
            let a = parse_name(a)?;
            let mut r = a.clone();
            r.randomize_label_case();
            if r != a || h(&r) != h(&a) || r.len() != a.len() || r.is_fqdn() != a.is_fqdn() {
                fails.push(format!("randomize_label_case changed the name: {}", name_tok(&r)));
            }
            if r.to_lowercase().cmp_case(&a.to_lowercase()) != Ordering::Equal {
                fails.push("randomize_label_case changed octets other than letter case".into());
            }
            nontrivial = a.num_labels() > 0;
            "~".to_string()
        }
        ["textrt", a, origin] => {
            // implementation-only: the other text entry points (FromStr = from_str_relaxed, from_utf8,
            // Name::parse with an origin, Display/to_utf8) on host-style names.  These go through IDNA
            // (UTS 46), which lower-cases as a documented side effect ("When making names IDNA compatible,
            // there is a side-effect of lowercasing the name"), so the name must come back equal as a
            // Name (==, i.e. up to ASCII case) with the same fqdn flag; exact letter case is demanded only
            // of from_ascii (op to_ascii)
            let a = parse_name(a)?;
            let origin = parse_name(origin)?;
            nontrivial = host_style(&a) && a.num_labels() > 0;
            if host_style(&a) {
                let s = a.to_ascii();
                match s.parse::<Name>() {
                    Ok(back) => {
                        if back != a || back.is_fqdn() != a.is_fqdn() {
                            fails.push(format!("to_ascii -> FromStr changed the name: {s:?} -> {}", name_tok(&back)));
                        }
                    }
                    Err(e) => fails.push(format!("host-style name does not re-parse with FromStr: {s:?}: {e}")),
                }
                let u = a.to_utf8();
                if u != a.to_string() {
                    fails.push("to_utf8 differs from Display".into());
                }
                match u.parse::<Name>() {
                    Ok(back) => {
                        if back != a || back.is_fqdn() != a.is_fqdn() {
                            fails.push(format!("to_utf8 -> FromStr changed the name: {u:?} -> {}", name_tok(&back)));
                        }
                    }
                    Err(e) => fails.push(format!("host-style name does not re-parse from to_utf8: {u:?}: {e}")),
                }
                if origin.is_fqdn() {
                    let r = Name::parse(&s, Some(&origin));
                    check_b(&mut fails, &r);
                    let want = if a.is_fqdn() { Ok(a.clone()) } else { a.clone().append_domain(&origin) };
                    match (&r, &want) {
                        (Ok(got), Ok(w)) => {
                            if got != w || !got.is_fqdn() {
                                fails.push(format!("Name::parse with an origin: got {} want {}", name_tok(got), name_tok(w)));
                            }
                        }
                        (Err(_), Err(_)) => {}
                        (Ok(got), Err(_)) => fails.push(format!("Name::parse with an origin accepted an over-long name: {}", name_tok(got))),
                        (Err(e), Ok(w)) => {
                            // Name::parse goes through the IDNA label check, which refuses some host-style
                            // labels that from_ascii takes (known C20 finding name-label-not-ldh): only a
                            // letters-digits-hyphen name must parse
                            let ldh = a.iter().all(|l| l.iter().all(|c| c.is_ascii_alphanumeric() || (*c == b'-')) && l[0] != b'-' && l[l.len() - 1] != b'-');
                            if ldh {
                                fails.push(format!("Name::parse with an origin refused {s:?} (want {}): {e}", name_tok(w)));
                            }
                        }
                    }
                }
            }
            "~".to_string()
        }
        ["from_ip", ip] => {
            // implementation-only: reverse-lookup names
            let ip: std::net::IpAddr = ip.parse().ok()?;
            let n = Name::from(ip);
            if !bounded(&n) || !n.is_fqdn() {
                fails.push("Name::from(IpAddr) is not a bounded fqdn".into());
            }
            match n.parse_arpa_name() {
                Ok(net) => {
                    if net.addr() != ip || net.prefix_len() != if ip.is_ipv4() { 32 } else { 128 } {
                        fails.push(format!("parse_arpa_name(Name::from({ip})) = {net}"));
                    }
                }
                Err(e) => fails.push(format!("parse_arpa_name(Name::from({ip})): {e}")),
            }
            "~".to_string()
        }
        ["triple", a, b, c] => {
            // implementation-only: transitivity on a triple
            let (a, b, c) = (parse_name(a)?, parse_name(b)?, parse_name(c)?);
            let mut v = [a, b, c];
            v.sort();
            if v[0].cmp(&v[2]) == Ordering::Greater {
                fails.push("sort of a triple is not ordered (transitivity)".into());
            }
            if v[0].cmp(&v[1]) == Ordering::Greater || v[1].cmp(&v[2]) == Ordering::Greater {
                fails.push("sorted triple out of order".into());
            }
            "~".to_string()
        }
        ["append_label", a, l] => {
            let (a, l) = (parse_name(a)?, unhex(l)?);
            let r = a.append_label(&l[..]);
            check_b(&mut fails, &r);
            res_tok(&r, name_tok)
        }
        ["prepend_label", a, l] => {
            let (a, l) = (parse_name(a)?, unhex(l)?);
            let r = a.prepend_label(&l[..]);
            check_b(&mut fails, &r);
            res_tok(&r, name_tok)
        }
        ["append_name", a, b] => {
            let (a, b) = (parse_name(a)?, parse_name(b)?);
            let r = a.append_name(&b);
            check_b(&mut fails, &r);
            res_tok(&r, name_tok)
        }
        ["append_domain", a, b] => {
            let (a, b) = (parse_name(a)?, parse_name(b)?);
            let r = a.append_domain(&b);
            check_b(&mut fails, &r);
            res_tok(&r, name_tok)
        }
        ["from_labels", ls] => {
            let ls = parse_labels(ls)?;
            let r = Name::from_labels(ls.iter().map(|l| &l[..]));
            check_b(&mut fails, &r);
            res_tok(&r, name_tok)
        }
        ["trim_to", a, k] => {
            let a = parse_name(a)?;
            let r: Result<Name, ()> = Ok(a.trim_to(k.parse().ok()?));
            check_b(&mut fails, &r);
            res_tok(&r, name_tok)
        }
        ["base_name", a] => {
            let a = parse_name(a)?;
            let r: Result<Name, ()> = Ok(a.base_name());
            check_b(&mut fails, &r);
            res_tok(&r, name_tok)
        }
        ["into_wildcard", a] => {
            let a = parse_name(a)?;
            let r: Result<Name, ()> = Ok(a.into_wildcard());
            check_b(&mut fails, &r);
            res_tok(&r, name_tok)
        }
        ["to_lowercase", a] => {
            let a = parse_name(a)?;
            let r: Result<Name, ()> = Ok(a.to_lowercase());
            check_b(&mut fails, &r);
            res_tok(&r, name_tok)
        }
        ["num_labels", a] => parse_name(a)?.num_labels().to_string(),
        ["len", a] => parse_name(a)?.len().to_string(),
        ["is_wildcard", a] => b_(parse_name(a)?.is_wildcard()),
        ["emit", a] => {
            let a = parse_name(a)?;
            let mut buf = Vec::new();
            let r = {
                let mut enc = BinEncoder::new(&mut buf);
                let mut enc = enc.with_name_encoding(NameEncoding::Uncompressed);
                a.emit(&mut enc)
            };
            let r = r.map(|_| buf);
            // wire round trip (uncompressed), including letter case
            if let Ok(bytes) = &r {
                let mut d = BinDecoder::new(bytes);
                match Name::read(&mut d) {
                    Ok(back) => {
                        let mut want = a.clone();
                        want.set_fqdn(true);
                        if !back.eq_case(&want) || back.is_fqdn() != want.is_fqdn() || d.index() != bytes.len() {
                            fails.push(format!("wire round trip changed the name: {}", name_tok(&back)));
                        }
                    }
                    Err(e) => fails.push(format!("emitted name does not decode: {e}")),
                }
            } else {
                fails.push("a valid Name failed to emit".into());
            }
            res_tok(&r, |v| hex(v))
        }
        ["emitc", pre, a] => {
            // compressed emit at an arbitrary offset after earlier names `pre` (impl-only oracle):
            // names separated by ',' are emitted first, then `a`; everything must decode back.
            let a = parse_name(a)?;
            let pres: Vec<Name> = if *pre == "-" { vec![] } else { pre.split(',').map(parse_name).collect::<Option<_>>()? };
            let mut buf = Vec::new();
            let mut offs = vec![];
            let r = {
                let mut enc = BinEncoder::new(&mut buf);
                let mut r = Ok(());
                for p in pres.iter().chain(std::iter::once(&a)) {
                    offs.push(enc.len());
                    r = p.emit(&mut enc);
                    if r.is_err() {
                        break;
                    }
                }
                r
            };
            if r.is_ok() {
                for (p, off) in pres.iter().chain(std::iter::once(&a)).zip(offs) {
                    let d0 = BinDecoder::new(&buf);
                    let mut d = d0.clone(off as u16);
                    match Name::read(&mut d) {
                        Ok(back) => {
                            let mut want = p.clone();
                            want.set_fqdn(true);
                            if !back.eq_case(&want) {
                                fails.push(format!(
                                    "compressed wire round trip changed {} into {} (offset {off})",
                                    name_tok(&want),
                                    name_tok(&back)
                                ));
                            }
                        }
                        Err(e) => fails.push(format!("compressed name at {off} does not decode: {e}")),
                    }
                }
            } else {
                fails.push("valid names failed to emit (compressed)".into());
            }
            nontrivial = !pres.is_empty();
            "~".to_string()
        }
        ["emitlim", limit, sections] => {
            // size-limited compressed encoding (impl-only oracle): sections separated by '/', items
            // `name:pad` separated by ','; every section is written with one `emit_iter` call under
            // the limit (an item that does not fit is rolled back and ends its section, as in
            // emit_message_parts), later sections go on; every item that was written must decode
            // back to its own name, also when a later item reuses the name of a dropped one.
            let limit: usize = limit.parse().ok()?;
            let secs: Vec<Vec<NamePad>> = sections
                .split('/')
                .map(|sec| {
                    if sec == "-" {
                        return Some(vec![]);
                    }
                    sec.split(',')
                        .map(|it| {
                            let (n, p) = it.rsplit_once('=')?;
                            Some(NamePad { name: parse_name(n)?, pad: p.parse().ok()? })
                        })
                        .collect::<Option<Vec<_>>>()
                })
                .collect::<Option<_>>()?;
            let mut buf = Vec::new();
            let mut written: Vec<&NamePad> = vec![];
            let mut dropped = 0usize;
            {
                let mut enc = BinEncoder::new(&mut buf);
                enc.set_max_size(limit.min(u16::MAX as usize) as u16);
                for sec in &secs {
                    match enc.emit_iter(sec.iter()) {
                        Ok(k) => written.extend(sec.iter().take(k)),
                        Err(e) => match e {
                            hickory_proto::ProtoError::NotAllRecordsWritten { count, .. } => {
                                written.extend(sec.iter().take(count));
                                dropped += 1;
                            }
                            other => fails.push(format!("size-limited emit failed with {other}")),
                        },
                    }
                    if enc.len() > limit {
                        fails.push(format!("encoder holds {} octets under the limit {limit}", enc.len()));
                    }
                }
            }
            let d0 = BinDecoder::new(&buf);
            let mut off = 0usize;
            for it in &written {
                let mut d = d0.clone(off as u16);
                match Name::read(&mut d) {
                    Ok(back) => {
                        let mut want = it.name.clone();
                        want.set_fqdn(true);
                        if !back.eq_case(&want) {
                            fails.push(format!(
                                "size-limited wire round trip changed {} into {} (offset {off})",
                                name_tok(&want),
                                name_tok(&back)
                            ));
                            break;
                        }
                        off = d.index() + it.pad;
                    }
                    Err(e) => {
                        fails.push(format!("name at {off} does not decode after a size-limited emit: {e}"));
                        break;
                    }
                }
            }
            if fails.is_empty() && off != buf.len() {
                fails.push(format!("size-limited emit left {} octets, the written items account for {off}", buf.len()));
            }
            nontrivial = dropped > 0 && !written.is_empty();
            "~".to_string()
        }
        ["read", buf, pos] => {
            let buf = unhex(buf)?;
            let pos: usize = pos.parse().ok()?;
            if pos > buf.len() || pos > 0xFFFF {
                return None;
            }
            let d0 = BinDecoder::new(&buf);
            let mut d = d0.clone(pos as u16);
            let r = Name::read(&mut d);
            check_b(&mut fails, &r);
            nontrivial = r.is_ok();
            match &r {
                Ok(n) => format!("ok {} {}", name_tok(n), d.index()),
                Err(_) => "err".into(),
            }
        }
        ["to_ascii", a] => {
            let a = parse_name(a)?;
            let s = a.to_ascii();
            if host_style(&a) {
                match Name::from_ascii(&s) {
                    Ok(back) => {
                        if !back.eq_case(&a) || back.is_fqdn() != a.is_fqdn() {
                            fails.push(format!("text round trip changed the name: {s:?} -> {}", name_tok(&back)));
                        }
                    }
                    Err(e) => fails.push(format!("host-style name does not re-parse: {s:?}: {e}")),
                }
            }
            nontrivial = host_style(&a) && a.num_labels() > 0;
            hex(s.as_bytes())
        }
        ["from_ascii", s] => {
            let bytes = unhex(s)?;
            let s = String::from_utf8(bytes).ok()?;
            let r = Name::from_ascii(&s);
            check_b(&mut fails, &r);
            if !s.is_ascii() && r.is_ok() {
                fails.push("non-ASCII text accepted by from_ascii (model assumes it is rejected)".into());
            }
            nontrivial = r.is_ok();
            res_tok(&r, name_tok)
        }
        _ => return None,
    };
    Some((out, fails, nontrivial))
}

fn b_(x: bool) -> String {
    b(x).to_string()
}

fn check_b<E>(fails: &mut Vec<String>, r: &Result<Name, E>) {
    if let Ok(n) = r {
        if !bounded(n) {
            fails.push(format!("constructor produced an over-long name/label: {}", name_tok(n)));
        }
    }
}

// ---------------------------------------------------------------- generators

const ALPHA: &[u8] = b"aAbBzZ";

fn gen_label(r: &mut Rng, small: bool) -> Vec<u8> {
    let len = if small {
        r.range(1, 3) as usize
    } else {
        match r.below(10) {
            0 => 63,
            1 => r.range(60, 63) as usize,
            2 => 1,
            _ => r.range(1, 12) as usize,
        }
    };
    (0..len)
        .map(|_| {
            if small {
                *r.pick(ALPHA)
            } else {
                match r.below(12) {
                    0 => r.byte(),
                    1 => *r.pick(&[b'.', b'\\', 0u8, 0x80, 0xff, b'*', b'-', b'_', b' ', b'"', b'@', b'[', b'`', b'{']),
                    2 => r.range(b'A' as u64, b'Z' as u64) as u8,
                    3 => r.range(b'0' as u64, b'9' as u64) as u8,
                    _ => r.range(b'a' as u64, b'z' as u64) as u8,
                }
            }
        })
        .collect()
}

fn gen_host_label(r: &mut Rng) -> Vec<u8> {
    let len = r.range(1, 10) as usize;
    (0..len)
        .map(|i| {
            let first = b"abcXYZ019_";
            let rest = b"abcXYZ019_-.";
            if i == 0 { *r.pick(first) } else { *r.pick(rest) }
        })
        .collect()
}

pub fn gen_name(r: &mut Rng, small: bool) -> Name {
    let mut n = Name::root();
    let target = if small {
        r.below(4) as usize
    } else {
        match r.below(10) {
            0 => 127,
            1 => r.range(5, 40) as usize,
            _ => r.below(6) as usize,
        }
    };
    for _ in 0..target {
        let l = if !small && target > 60 { vec![*r.pick(ALPHA)] } else { gen_label(r, small) };
        match n.clone().append_label(&l[..]) {
            Ok(m) => n = m,
            Err(_) => break,
        }
    }
    if r.chance(1, 5) {
        n.set_fqdn(false);
    }
    n
}

fn gen_host_name(r: &mut Rng) -> Name {
    let mut n = Name::root();
    let k = r.below(5);
    for i in 0..k {
        let l = if i == 0 && r.chance(1, 4) { b"*".to_vec() } else { gen_host_label(r) };
        if let Ok(m) = n.clone().append_label(&l[..]) {
            n = m
        }
    }
    if r.chance(1, 3) {
        n.set_fqdn(false);
    }
    n
}

/// a host-style name near the 255-octet wire limit with many literal dots (each written `\.` in
/// presentation format), so that the TEXT is longer than 255 characters although the name is legal
fn gen_host_name_long(r: &mut Rng) -> Name {
    let mut n = Name::root();
    let want = r.range(180, 255) as usize; // wire length aimed at
    let mut wire = 1usize;
    let dots = r.range(1, 3); // 1 in `dots` octets is a dot (1 = every non-first octet)
    while wire + 2 <= want {
        let max = (want - wire - 1).min(63);
        let len = if r.chance(2, 3) { max } else { r.range(1, max as u64) as usize };
        let l: Vec<u8> = (0..len)
            .map(|i| {
                if i > 0 && r.below(dots) == 0 { b'.' } else { *r.pick(b"abcXYZ019_") }
            })
            .collect();
        match n.clone().append_label(&l[..]) {
            Ok(m) => n = m,
            Err(_) => break,
        }
        wire += 1 + len;
    }
    if r.chance(1, 3) {
        n.set_fqdn(false);
    }
    n
}

/// a name related to `a`: case change, fqdn flip, label boundary shift, prefix/suffix edits
fn relative_of(r: &mut Rng, a: &Name) -> Name {
    let mut labels: Vec<Vec<u8>> = a.iter().map(|l| l.to_vec()).collect();
    let mut fqdn = a.is_fqdn();
    match r.below(8) {
        0 => {
            for l in labels.iter_mut() {
                for c in l.iter_mut() {
                    if r.chance(1, 2) {
                        if c.is_ascii_lowercase() { *c -= 32 } else if c.is_ascii_uppercase() { *c += 32 }
                    }
                }
            }
        }
        1 => fqdn = !fqdn,
        2 => {
            // move a label boundary: ab.c -> a.bc
            if labels.len() >= 2 {
                let i = r.below(labels.len() as u64 - 1) as usize;
                if labels[i].len() > 1 && labels[i + 1].len() < 63 {
                    let c = labels[i].pop().unwrap();
                    labels[i + 1].insert(0, c);
                }
            }
        }
        3 => {
            if !labels.is_empty() {
                let i = r.below(labels.len() as u64) as usize;
                let j = r.below(labels[i].len() as u64) as usize;
                labels[i][j] = labels[i][j].wrapping_add(*r.pick(&[1u8, 32, 224, 255, 128]));
            }
        }
        4 => {
            if !labels.is_empty() {
                labels.remove(0);
            }
        }
        5 => labels.insert(0, gen_label(r, true)),
        6 => {
            if !labels.is_empty() {
                let i = r.below(labels.len() as u64) as usize;
                if labels[i].len() < 63 {
                    labels[i].push(*r.pick(&[0u8, b'a', b'A', 0xff]));
                }
            }
        }
        _ => {}
    }
    let mut n = match Name::from_labels(labels.iter().map(|l| &l[..])) {
        Ok(n) => n,
        Err(_) => a.clone(),
    };
    n.set_fqdn(fqdn);
    n
}


/// a name whose wire length (labels + length octets + root octet) is exactly `w` (w >= 1)
fn name_of_wire_len(r: &mut Rng, w: usize) -> Name {
    let mut n = Name::root();
    let mut left = w.saturating_sub(1);
    while left >= 2 {
        let max = (left - 1).min(63);
        // avoid leaving a remainder of exactly 1 (a label needs 2 octets)
        let mut l = if r.chance(1, 2) { max } else { r.range(1, max as u64) as usize };
        if left - 1 - l == 1 {
            if l > 1 { l -= 1 } else { l = left - 1; }
        }
        let label: Vec<u8> = (0..l).map(|_| *r.pick(ALPHA)).collect();
        n = n.append_label(&label[..]).expect("fits");
        left -= 1 + l;
    }
    n
}

/// near-limit operands for the combinators: combined wire length in 253..=258
fn limit_case(r: &mut Rng) -> String {
    let total = r.range(253, 258) as usize; // wire length of the would-be result
    match r.below(5) {
        0 | 1 => {
            // a ++ b : wire(a) + wire(b) - 1 = total
            let wa = r.range(1, total as u64 - 1) as usize;
            let wb = total + 1 - wa;
            let mut a = name_of_wire_len(r, wa.min(255));
            let mut b = name_of_wire_len(r, wb.min(255));
            if r.chance(1, 2) { a.set_fqdn(false) }
            if r.chance(1, 4) { b.set_fqdn(false) }
            let op = if r.chance(1, 2) { "append_name" } else { "append_domain" };
            format!("{op} {} {}", name_tok(&a), name_tok(&b))
        }
        2 => {
            let l = r.range(1, 63) as usize;
            let a = name_of_wire_len(r, (total - 1 - l).min(255));
            let label: Vec<u8> = (0..l).map(|_| *r.pick(ALPHA)).collect();
            format!("append_label {} {}", name_tok(&a), hex(&label))
        }
        3 => {
            let l = r.range(1, 63) as usize;
            let a = name_of_wire_len(r, (total - 1 - l).min(255));
            let label: Vec<u8> = (0..l).map(|_| *r.pick(ALPHA)).collect();
            format!("prepend_label {} {}", name_tok(&a), hex(&label))
        }
        _ => {
            let a = name_of_wire_len(r, total.min(255));
            let mut ls: Vec<Vec<u8>> = a.iter().map(|l| l.to_vec()).collect();
            if total > 255 { ls.push(vec![b'x'; total - 255]); }
            format!("from_labels {}", labels_tok(&ls))
        }
    }
}

/// sections of name:pad items under a limit that cuts inside one of them; later items reuse the
/// names (and suffixes) of earlier ones, in particular of the item that was dropped
fn limit_sections(r: &mut Rng) -> String {
    let base = gen_name(r, true);
    let mut pool: Vec<Name> = vec![];
    for _ in 0..r.range(2, 5) {
        let mut n = relative_of(r, &base);
        n.set_fqdn(true);
        if n.iter().count() == 0 {
            n = Name::from_labels(vec![&b"x"[..], &b"example"[..]]).unwrap();
        }
        pool.push(n);
    }
    let nsec = r.range(2, 4) as usize;
    let mut secs: Vec<Vec<(Name, usize)>> = vec![];
    let mut total = 0usize;
    let mut ends = vec![];
    for _ in 0..nsec {
        let mut sec = vec![];
        for _ in 0..r.below(4) {
            let n = r.pick(&pool).clone();
            let pad = match r.below(5) {
                0 => 0,
                1 => r.range(200, 700) as usize,
                _ => r.range(1, 20) as usize,
            };
            total += wire_len(&n) + pad;
            ends.push(total);
            sec.push((n, pad));
        }
        secs.push(sec);
    }
    // the limit: usually inside an item (uncompressed position as an estimate), sometimes generous
    let limit = match r.below(6) {
        0 => total + 10,
        1 => r.below(total as u64 + 2) as usize,
        _ if !ends.is_empty() => {
            let e = *r.pick(&ends);
            e.saturating_sub(r.below(40) as usize)
        }
        _ => 12,
    };
    let txt: Vec<String> = secs
        .iter()
        .map(|s| {
            if s.is_empty() {
                "-".to_string()
            } else {
                s.iter().map(|(n, p)| format!("{}={p}", name_tok(n))).collect::<Vec<_>>().join(",")
            }
        })
        .collect();
    format!("emitlim {limit} {}", txt.join("/"))
}

fn gen_wire(r: &mut Rng) -> (Vec<u8>, usize) {
    // a buffer with a few names, pointers (valid / forward / self / chains), random tail
    let k0 = r.below(14) as usize;
    let mut buf: Vec<u8> = r.bytes(k0);
    let mut starts = vec![];
    for _ in 0..r.range(1, 4) {
        starts.push(buf.len());
        let nl = r.below(4);
        for _ in 0..nl {
            let sm = r.chance(2, 3);
            let l = gen_label(r, sm);
            buf.push(l.len() as u8);
            buf.extend(l);
        }
        match r.below(6) {
            0 | 1 => buf.push(0),
            2 | 3 => {
                // pointer to an earlier start, to itself, or forward
                let tgt = match r.below(5) {
                    0 => buf.len(),
                    1 => buf.len() + 2,
                    _ => *r.pick(&starts),
                };
                buf.push(0xC0 | ((tgt >> 8) as u8 & 0x3F));
                buf.push(tgt as u8);
            }
            4 => buf.push(*r.pick(&[0x40u8, 0x80, 0xBF, 0x7F, 64, 65])),
            _ => {}
        }
    }
    if r.chance(1, 4) {
        let k = r.below(3) as usize;
        buf.extend(r.bytes(k));
    }
    if r.chance(1, 6) && !buf.is_empty() {
        let i = r.below(buf.len() as u64) as usize;
        buf[i] = r.byte();
    }
    let pos = if r.chance(3, 4) { *r.pick(&starts) } else { r.below(buf.len() as u64 + 1) as usize };
    let pos = pos.min(buf.len());
    (buf, pos)
}

fn long_chain() -> Vec<String> {
    // adversarial corpus built programmatically: maximal pointer chain, self pointer, 255/256 names
    let mut v = vec![];
    // chain of pointers each pointing 2 bytes back, ending at a root label at 0
    let mut buf = vec![0u8];
    for i in 0..200usize {
        let tgt = if i == 0 { 0 } else { 1 + 2 * (i - 1) };
        buf.push(0xC0 | (tgt >> 8) as u8);
        buf.push(tgt as u8);
    }
    v.push(format!("read {} {}", hex(&buf), buf.len() - 2));
    v.push("read c000 0".into());
    v.push("read 00c001 1".into());
    v.push("read 0161c000 0".into());
    // 127 one-byte labels = 255 octets: maximal legal name
    let mut m = vec![];
    for _ in 0..127 {
        m.extend([1u8, b'a']);
    }
    m.push(0);
    v.push(format!("read {} 0", hex(&m)));
    // 128 labels: too long
    let mut m2 = vec![1u8, b'a'];
    m2.extend(&m);
    v.push(format!("read {} 0", hex(&m2)));
    // label of 63 / 64
    let mut l63 = vec![63u8];
    l63.extend(vec![b'x'; 63]);
    l63.push(0);
    v.push(format!("read {} 0", hex(&l63)));
    let mut l64 = vec![64u8];
    l64.extend(vec![b'x'; 64]);
    l64.push(0);
    v.push(format!("read {} 0", hex(&l64)));
    // pointer into the middle of a label, then name continues
    v.push("read 03616263000162c002 5".into());
    // long name via pointer concatenation exceeding 255
    let mut big = vec![];
    for _ in 0..100 {
        big.extend([1u8, b'b']);
    }
    big.push(0);
    let start2 = big.len();
    for _ in 0..60 {
        big.extend([1u8, b'c']);
    }
    big.extend([0xC0, 0x00]);
    v.push(format!("read {} {}", hex(&big), start2));
    v
}

pub fn run(o: &Opts, rec: &mut Recorder) {
    rec.rule = "names/pairs/triples/wire buffers/texts from a seeded structured generator (0-127 labels, arbitrary octets, mixed case, near-limit lengths, related pairs differing only in case / fqdn / label boundary); a case is non-trivial when both names have labels (comparisons), the decode succeeded (read/from_ascii), or the name is host-style and non-empty (text); distinct by case line".into();
    for l in o.pre_lines.clone() {
        exec(&l, rec);
    }
    rec.corpus_cases = rec.cases.len();
    if o.replay_only {
        return;
    }
    for l in long_chain() {
        exec(&l, rec);
    }
    let mut r = Rng::new(o.seed);
    let n = o.n(6000, 1_000_000);
    for i in 0..n {
        let small = r.chance(1, 2);
        let a = gen_name(&mut r, small);
        let bb = if r.chance(2, 3) { relative_of(&mut r, &a) } else { gen_name(&mut r, small) };
        if i % 10 == 9 {
            let line = limit_case(&mut r);
            exec(&line, rec);
            continue;
        }
        if i % 10 == 4 {
            // the key forms (LowerName, RrKey, Label), identity variants, the other text entry points
            let line = match r.below(18) {
                0 | 1 => format!("lcmp {} {}", name_tok(&a), name_tok(&bb)),
                2 => format!("leq {} {}", name_tok(&a), name_tok(&bb)),
                3 => format!("lhasheq {} {}", name_tok(&a), name_tok(&bb)),
                4 => format!("lzone_of {} {}", name_tok(&bb), name_tok(&a)),
                5 => format!("lbase_name {}", name_tok(&a)),
                6 => format!("linto_wildcard {}", name_tok(&a)),
                7 => {
                    let (buf, pos) = gen_wire(&mut r);
                    format!("lread {} {}", hex(&buf), pos)
                }
                8 | 9 => {
                    let ts = [1u16, 2, 5, 6, 28, 46, 47, 255, 256, 65280, 65535, 0];
                    let (ta, tb) = if r.chance(1, 2) { let t = *r.pick(&ts); (t, t) } else { (*r.pick(&ts), *r.pick(&ts)) };
                    format!("rrkey_cmp {} {ta} {} {tb}", name_tok(&a), name_tok(&bb))
                }
                10 => format!("eq_ignore_root {} {}", name_tok(&a), name_tok(&bb)),
                11 => format!("eq_ignore_root_case {} {}", name_tok(&a), name_tok(&bb)),
                12 => format!("zone_of_case {} {}", name_tok(&bb), name_tok(&a)),
                13 | 14 => {
                    // two labels: unrelated, or related by case / a trailing octet / a NUL
                    let l = gen_label(&mut r, small);
                    let mut m = if r.chance(1, 3) { gen_label(&mut r, small) } else { l.clone() };
                    match r.below(5) {
                        0 => m = m.iter().map(|c| c.to_ascii_uppercase()).collect(),
                        1 => if m.len() < 63 { m.push(*r.pick(&[0u8, b'a', 0xff])) },
                        2 => { if m.len() > 1 { m.pop(); } }
                        3 => { let i = r.below(m.len() as u64) as usize; m[i] ^= 0x20; }
                        _ => {}
                    }
                    let op = *r.pick(&["lbl_cmp", "lbl_cmpcase", "lbl_eq", "lbl_hasheq"]);
                    format!("{op} {} {}", hex(&l), hex(&m))
                }
                15 => format!("randomize {}", name_tok(&a)),
                16 => {
                    let hn = if r.chance(1, 4) { gen_host_name_long(&mut r) } else { gen_host_name(&mut r) };
                    let mut origin = gen_host_name(&mut r);
                    origin.set_fqdn(true);
                    format!("textrt {} {}", name_tok(&hn), name_tok(&origin))
                }
                _ => {
                    let ip = if r.chance(1, 2) {
                        std::net::IpAddr::from([r.byte(), r.byte(), r.byte(), r.byte()])
                    } else {
                        let b = r.bytes(16);
                        let mut x = [0u8; 16];
                        x.copy_from_slice(&b);
                        std::net::IpAddr::from(x)
                    };
                    format!("from_ip {ip}")
                }
            };
            exec(&line, rec);
            continue;
        }
        let line = match i % 24 {
            0 | 1 | 2 => format!("cmp {} {}", name_tok(&a), name_tok(&bb)),
            3 => format!("cmpcase {} {}", name_tok(&a), name_tok(&bb)),
            4 | 5 => format!("eq {} {}", name_tok(&a), name_tok(&bb)),
            6 => format!("eqcase {} {}", name_tok(&a), name_tok(&bb)),
            7 => format!("hasheq {} {}", name_tok(&a), name_tok(&bb)),
            8 => format!("zone_of {} {}", name_tok(&bb), name_tok(&a)),
            9 => {
                let c = relative_of(&mut r, &bb);
                format!("triple {} {} {}", name_tok(&a), name_tok(&bb), name_tok(&c))
            }
            10 => {
                let bad = *r.pick(&[0usize, 64, 65, 100]);
                let l = if r.chance(1, 5) { r.bytes(bad) } else { gen_label(&mut r, false) };
                format!("append_label {} {}", name_tok(&a), hex(&l))
            }
            11 => {
                let bad = *r.pick(&[0usize, 64, 65, 100]);
                let l = if r.chance(1, 5) { r.bytes(bad) } else { gen_label(&mut r, false) };
                format!("prepend_label {} {}", name_tok(&a), hex(&l))
            }
            12 => format!("append_name {} {}", name_tok(&a), name_tok(&bb)),
            13 => format!("append_domain {} {}", name_tok(&a), name_tok(&bb)),
            14 => {
                let mut ls: Vec<Vec<u8>> = a.iter().map(|l| l.to_vec()).collect();
                if r.chance(1, 3) {
                    ls.extend(bb.iter().map(|l| l.to_vec()));
                }
                if r.chance(1, 8) {
                    let bad = *r.pick(&[0usize, 64, 70]);
                    ls.push(r.bytes(bad));
                }
                format!("from_labels {}", labels_tok(&ls))
            }
            15 => format!("trim_to {} {}", name_tok(&a), r.below(a.iter().count() as u64 + 3)),
            16 => format!("base_name {}", name_tok(&a)),
            17 => format!("into_wildcard {}", name_tok(&a)),
            18 => match r.below(4) {
                0 => format!("to_lowercase {}", name_tok(&a)),
                1 => format!("num_labels {}", name_tok(&a.clone().into_wildcard())),
                2 => format!("len {}", name_tok(&a)),
                _ => format!("is_wildcard {}", name_tok(&a)),
            },
            19 => format!("emit {}", name_tok(&a)),
            20 | 21 => {
                if r.chance(1, 4) {
                    limit_sections(&mut r)
                } else if r.chance(1, 3) {
                    // compressed emit at an offset after related names (implementation-only oracle)
                    let k = r.range(1, 4);
                    let mut pres = vec![];
                    for _ in 0..k {
                        pres.push(name_tok(&relative_of(&mut r, &a)));
                    }
                    format!("emitc {} {}", pres.join(","), name_tok(&bb))
                } else {
                    let (buf, pos) = gen_wire(&mut r);
                    format!("read {} {}", hex(&buf), pos)
                }
            }
            22 => {
                let hn = match r.below(6) {
                    0 | 1 | 2 => gen_host_name(&mut r),
                    3 => gen_host_name_long(&mut r),
                    _ => a.clone(),
                };
                format!("to_ascii {}", name_tok(&hn))
            }
            _ => {
                // text: formatted names, mutated
                let hn = match r.below(6) {
                    0 | 1 => gen_host_name(&mut r),
                    2 => gen_host_name_long(&mut r),
                    _ => a.clone(),
                };
                let mut s = hn.to_ascii().into_bytes();
                rec.stat(if s.len() > 255 { "from_ascii.text_len > 255" } else if s.len() > 200 { "from_ascii.text_len 201..255" } else { "from_ascii.text_len <= 200" });
                if r.chance(1, 2) && !s.is_empty() {
                    let i = r.below(s.len() as u64) as usize;
                    match r.below(4) {
                        0 => s[i] = *r.pick(&[b'\\', b'.', b' ', b'8', b'0', b'3', 0x7f, 0x01, b'*', b'-']),
                        1 => s.insert(i, *r.pick(&[b'\\', b'.', b'1', b'7', b'9'])),
                        2 => {
                            s.remove(i);
                        }
                        _ => s.truncate(i),
                    }
                }
                if !s.is_ascii() {
                    s.retain(|c| c.is_ascii());
                }
                format!("from_ascii {}", hex(&s))
            }
        };
        exec(&line, rec);
    }
}
