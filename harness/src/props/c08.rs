//! C08 — NSEC denial of existence is sound and complete.
//!
//! Case line (see `lean/HickoryVerif/Drv/C08.lean`):
//!
//!   vn <qname> <qtype> <soa|-> <rcode> <answers|-> <nsecs|->
//!
//! Implementation: the real `hickory_net::dnssec::verif_hooks::verify_nsec` on real
//! `Query` / `Record` / `NSEC` values.  Oracle (independent of the Lean model): a semantic
//! check — search for a zone view `Z` that is consistent with every given NSEC record (RFC 4034
//! §4, RFC 4035 §5.4, RFC 6840 §4.1) and in which the response's claim is false.  If the
//! implementation answers `Secure` while such a `Z` exists the records do not entail the claim:
//! failure.  The candidate `Z`s are built explicitly and both `consistent_with` and `claim` are
//! then evaluated on them by definition, so a reported failure always comes with a witness zone.
use std::collections::{BTreeMap, BTreeSet, HashSet};

use hickory_net::dnssec::verif_hooks;
use hickory_proto::dnssec::rdata::{DNSSECRData, NSEC, RRSIG, SigInput};
use hickory_proto::dnssec::{Algorithm, Proof};
use hickory_proto::op::{Query, ResponseCode};
use hickory_proto::rr::rdata::A;
use hickory_proto::rr::{Name, RData, Record, RecordType, SerialNumber};

use crate::common::*;

mod e2e;

const T_A: u16 = 1;
const T_NS: u16 = 2;
const T_CNAME: u16 = 5;
const T_SOA: u16 = 6;
const T_TXT: u16 = 16;
const T_DS: u16 = 43;
const T_RRSIG: u16 = 46;
const T_NSEC: u16 = 47;

// ------------------------------------------------------------------------------------------
// case representation
// ------------------------------------------------------------------------------------------

#[derive(Clone, Debug)]
pub struct Ans {
    pub name: Name,
    pub secure: bool,
    pub rrsig_labels: Option<u8>,
}

#[derive(Clone, Debug)]
pub struct NsecRec {
    pub owner: Name,
    pub next: Name,
    pub types: Vec<u16>,
}

#[derive(Clone, Debug)]
pub struct Case {
    pub q: Name,
    pub qtype: u16,
    pub soa: Option<Name>,
    pub rcode: u16,
    pub answers: Vec<Ans>,
    pub nsecs: Vec<NsecRec>,
}

impl Case {
    pub fn line(&self) -> String {
        let ans = if self.answers.is_empty() {
            "-".to_string()
        } else {
            self.answers
                .iter()
                .map(|a| {
                    format!(
                        "{}/{}/{}",
                        name_tok(&a.name),
                        b(a.secure),
                        a.rrsig_labels.map(|l| l.to_string()).unwrap_or_else(|| "-".into())
                    )
                })
                .collect::<Vec<_>>()
                .join(",")
        };
        let nsecs = if self.nsecs.is_empty() {
            "-".to_string()
        } else {
            self.nsecs
                .iter()
                .map(|n| {
                    let ts = if n.types.is_empty() {
                        "-".to_string()
                    } else {
                        n.types.iter().map(|t| t.to_string()).collect::<Vec<_>>().join("+")
                    };
                    format!("{}/{}/{}", name_tok(&n.owner), name_tok(&n.next), ts)
                })
                .collect::<Vec<_>>()
                .join(",")
        };
        format!(
            "vn {} {} {} {} {} {}",
            name_tok(&self.q),
            self.qtype,
            self.soa.as_ref().map(name_tok).unwrap_or_else(|| "-".into()),
            self.rcode,
            ans,
            nsecs
        )
    }

    pub fn parse(t: &[&str]) -> Option<Case> {
        let [op, q, qt, soa, rc, ans, nsecs] = t else { return None };
        if *op != "vn" {
            return None;
        }
        let q = parse_name(q)?;
        let qtype: u16 = qt.parse().ok()?;
        let soa = if *soa == "-" { None } else { Some(parse_name(soa)?) };
        let rcode: u16 = rc.parse().ok()?;
        let mut answers = vec![];
        if *ans != "-" {
            for a in ans.split(',') {
                let f: Vec<&str> = a.split('/').collect();
                let [n, s, l] = f[..] else { return None };
                answers.push(Ans {
                    name: parse_name(n)?,
                    secure: match s {
                        "1" => true,
                        "0" => false,
                        _ => return None,
                    },
                    rrsig_labels: if l == "-" { None } else { Some(l.parse().ok()?) },
                });
            }
        }
        let mut recs = vec![];
        if *nsecs != "-" {
            for a in nsecs.split(',') {
                let f: Vec<&str> = a.split('/').collect();
                let [o, n, ts] = f[..] else { return None };
                let types = if ts == "-" {
                    vec![]
                } else {
                    ts.split('+').map(|x| x.parse::<u16>().ok()).collect::<Option<Vec<_>>>()?
                };
                recs.push(NsecRec { owner: parse_name(o)?, next: parse_name(n)?, types });
            }
        }
        Some(Case { q, qtype, soa, rcode, answers, nsecs: recs })
    }
}

fn proof_str(p: Proof) -> &'static str {
    match p {
        Proof::Secure => "secure",
        Proof::Insecure => "insecure",
        Proof::Bogus => "bogus",
        Proof::Indeterminate => "indeterminate",
    }
}

/// Runs the real `verify_nsec` on real values built from the case.
pub fn run_impl(c: &Case) -> Proof {
    let query = Query::new(c.q.clone(), RecordType::from(c.qtype));
    let answers: Vec<Record> = c
        .answers
        .iter()
        .map(|a| {
            let data = match a.rrsig_labels {
                Some(l) => RData::DNSSEC(DNSSECRData::RRSIG(RRSIG::from_sig(
                    SigInput {
                        type_covered: RecordType::from(c.qtype),
                        algorithm: Algorithm::ED25519,
                        num_labels: l,
                        original_ttl: 300,
                        sig_expiration: SerialNumber::new(2_000_000_000),
                        sig_inception: SerialNumber::new(1_000_000_000),
                        key_tag: 1,
                        signer_name: c.soa.clone().unwrap_or_else(Name::root),
                    },
                    vec![0u8; 4],
                ))),
                None => RData::A(A::new(192, 0, 2, 1)),
            };
            let mut r = Record::from_rdata(a.name.clone(), 300, data);
            r.proof = if a.secure { Proof::Secure } else { Proof::Indeterminate };
            r
        })
        .collect();
    let nsec_data: Vec<NSEC> = c
        .nsecs
        .iter()
        .map(|n| NSEC::new(n.next.clone(), n.types.iter().map(|t| RecordType::from(*t))))
        .collect();
    let nsecs: Vec<(&Name, &NSEC)> = c.nsecs.iter().zip(nsec_data.iter()).map(|(n, d)| (&n.owner, d)).collect();
    verif_hooks::verify_nsec(&query, c.soa.as_ref(), <ResponseCode as From<u16>>::from(c.rcode), &answers, &nsecs)
}

// ------------------------------------------------------------------------------------------
// the semantic oracle (RFC 4034 §6.1 keys, zone views, ConsistentWith, Claim)
// ------------------------------------------------------------------------------------------

pub type Key = Vec<Vec<u8>>;

fn lower(l: &[u8]) -> Vec<u8> {
    l.iter().map(|c| if c.is_ascii_uppercase() { c + 32 } else { *c }).collect()
}

/// RFC 4034 §6.1 sort key: labels from the most significant one, lower-cased.
pub fn key(n: &Name) -> Key {
    n.iter().rev().map(lower).collect()
}

fn is_prefix(p: &[Vec<u8>], k: &[Vec<u8>]) -> bool {
    k.len() >= p.len() && k[..p.len()] == p[..]
}

fn star(k: &[Vec<u8>]) -> Key {
    let mut w = k.to_vec();
    w.push(b"*".to_vec());
    w
}

/// A zone view: the names that own data (with their type sets) in the name space under `apex`.
/// A name *exists* if it or a descendant owns data (empty non-terminals exist, RFC 4592 §2.2.2).
#[derive(Clone, Debug)]
pub struct ZoneView {
    pub apex: Key,
    pub data: BTreeMap<Key, BTreeSet<u16>>,
}

impl ZoneView {
    fn exists(&self, k: &[Vec<u8>]) -> bool {
        self.data.keys().any(|m| is_prefix(k, m))
    }
    fn has(&self, k: &[Vec<u8>], t: u16) -> bool {
        self.data.get(k).is_some_and(|s| s.contains(&t))
    }
    /// longest proper ancestor of `k` that exists
    fn closest_encloser(&self, k: &[Vec<u8>]) -> Option<Key> {
        (0..k.len()).rev().map(|i| k[..i].to_vec()).find(|p| self.exists(p))
    }
}

/// RFC 6840 §4.1 "ancestor delegation" NSEC: NS bit set, SOA bit clear.
fn is_delegation_nsec(types: &[u16]) -> bool {
    types.contains(&T_NS) && !types.contains(&T_SOA)
}

/// One NSEC `(o, next, T)` is a link of `Z`'s canonical chain.
fn link_of(n: &NsecRec, z: &ZoneView) -> bool {
    let (ko, kn) = (key(&n.owner), key(&n.next));
    if !n.owner.is_fqdn() || !n.next.is_fqdn() {
        return false;
    }
    if !is_prefix(&z.apex, &ko) || !is_prefix(&z.apex, &kn) {
        return false;
    }
    let Some(have) = z.data.get(&ko) else { return false };
    // the NSEC RRset and its RRSIG exist at the owner whatever the bitmap says (RFC 4035 §5.4:
    // "a validator MUST ignore the settings of the NSEC and RRSIG bits")
    if !have.contains(&T_NSEC) || !have.contains(&T_RRSIG) {
        return false;
    }
    let deleg = is_delegation_nsec(&n.types);
    if deleg {
        // only the DS bit (and the presence of the delegation itself) is authoritative
        // (a name that owns NS does not own a CNAME, on either side of the cut)
        if !have.contains(&T_NS) || have.contains(&T_DS) != n.types.contains(&T_DS) || have.contains(&T_CNAME) {
            return false;
        }
    } else {
        let strip = |s: &mut BTreeSet<u16>| {
            s.remove(&T_RRSIG);
            s.remove(&T_NSEC);
        };
        let mut a: BTreeSet<u16> = n.types.iter().copied().collect();
        let mut bb = have.clone();
        strip(&mut a);
        strip(&mut bb);
        if a != bb {
            return false;
        }
    }
    let wrap = kn == z.apex;
    if !wrap && !(ko < kn && z.data.contains_key(&kn)) {
        return false;
    }
    // nothing that owns data strictly between owner and next (names under an ancestor-side
    // delegation NSEC's owner belong to the child zone: the record says nothing about them)
    z.data.keys().all(|m| {
        let inside = is_prefix(&z.apex, m) && *m > ko && (wrap || *m < kn);
        !inside || (deleg && is_prefix(&ko, m))
    })
}

pub fn consistent_with(nsecs: &[NsecRec], z: &ZoneView) -> bool {
    nsecs.iter().all(|n| link_of(n, z))
}

/// RFC 4034 §3.1.3 label count of a name: the root and a leading `*` are not counted.
fn rfc_labels(k: &[Vec<u8>]) -> usize {
    if k.last().is_some_and(|l| l == b"*") { k.len() - 1 } else { k.len() }
}

/// The response's claim, evaluated in `z`.
pub fn claim(c: &Case, z: &ZoneView) -> bool {
    let kq = key(&c.q);
    match (c.rcode, c.answers.is_empty()) {
        // NXDOMAIN: the name does not exist (not even as an empty non-terminal) and no wildcard matches
        (3, _) => !z.exists(&kq) && z.closest_encloser(&kq).is_none_or(|ce| !z.exists(&star(&ce))),
        // NODATA: type and CNAME absent at the name, and if the name is absent also at the matching wildcard
        // (RFC 6840 §4.3: a CNAME at the name / at the wildcard would have been the answer)
        (0, true) => {
            !z.has(&kq, c.qtype)
                && !z.has(&kq, T_CNAME)
                && (z.exists(&kq)
                    || z.closest_encloser(&kq).is_none_or(|ce| !z.has(&star(&ce), c.qtype) && !z.has(&star(&ce), T_CNAME)))
        }
        // wildcard-expanded answer: for every authenticated wildcard RRSIG at the query name, the
        // name does not exist and nothing exists between it and the wildcard's parent
        (0, false) => c.answers.iter().all(|a| {
            let Some(l) = a.rrsig_labels else { return true };
            let l = l as usize;
            if !a.secure || key(&a.name) != kq || l >= rfc_labels(&kq) {
                return true;
            }
            (l + 1..=kq.len()).all(|j| !z.exists(&kq[..j]))
        }),
        _ => false,
    }
}

/// Search for a zone view consistent with the NSECs in which the claim is false.
/// `Some(Some(z))`: found; `Some(None)`: the NSEC set is consistent but entails the claim;
/// `None`: no zone view at all is consistent with the NSEC set (soundness is vacuous).
pub fn falsifier(c: &Case) -> Option<Option<ZoneView>> {
    let kq = key(&c.q);
    let keys: Vec<(Key, Key)> = c.nsecs.iter().map(|n| (key(&n.owner), key(&n.next))).collect();
    // the apex: the SOA owner when present; otherwise the target of a wrapping link, otherwise the
    // longest common ancestor of all names of the records
    let apex: Key = if let Some(s) = &c.soa {
        key(s)
    } else if let Some((_, kn)) = keys.iter().find(|(ko, kn)| kn <= ko) {
        kn.clone()
    } else {
        let mut all = keys.iter().flat_map(|(a, bb)| [a, bb]);
        let mut p: Key = all.next().cloned().unwrap_or_default();
        for k in all {
            let n = p.iter().zip(k.iter()).take_while(|(x, y)| x == y).count();
            p.truncate(n);
        }
        p
    };
    // base: what every consistent zone view contains
    let mut base = ZoneView { apex: apex.clone(), data: BTreeMap::new() };
    for (n, (ko, kn)) in c.nsecs.iter().zip(keys.iter()) {
        let mut ts: BTreeSet<u16> = n.types.iter().copied().chain([T_RRSIG, T_NSEC]).collect();
        if is_delegation_nsec(&n.types) {
            // free: anything but DS (authoritative) and CNAME (excluded by NS) may exist on the child side
            ts.remove(&T_CNAME);
            if c.qtype != T_DS && c.qtype != T_CNAME {
                ts.insert(c.qtype);
            }
        }
        base.data.entry(ko.clone()).or_insert(ts);
        let _ = kn;
    }
    for (_, kn) in keys.iter() {
        if *kn != apex {
            base.data.entry(kn.clone()).or_insert_with(|| [c.qtype, T_CNAME].into_iter().collect());
        }
    }
    if !consistent_with(&c.nsecs, &base) {
        return None;
    }
    if !claim(c, &base) {
        return Some(Some(base));
    }
    // relevant names: the query name, its ancestors, and the wildcard at each ancestor
    let mut rel: Vec<Key> = vec![];
    for i in 0..=kq.len() {
        rel.push(kq[..i].to_vec());
        if i < kq.len() {
            rel.push(star(&kq[..i]));
        }
    }
    rel.retain(|k| !base.data.contains_key(k));
    rel.sort();
    rel.dedup();
    let with = |add: &[&Key]| -> ZoneView {
        let mut z = base.clone();
        for k in add {
            z.data.insert((*k).clone(), [c.qtype, T_CNAME].into_iter().collect());
        }
        z
    };
    for i in 0..rel.len() {
        let z = with(&[&rel[i]]);
        if consistent_with(&c.nsecs, &z) && !claim(c, &z) {
            return Some(Some(z));
        }
    }
    for i in 0..rel.len() {
        for j in i + 1..rel.len() {
            let z = with(&[&rel[i], &rel[j]]);
            if consistent_with(&c.nsecs, &z) && !claim(c, &z) {
                return Some(Some(z));
            }
        }
    }
    Some(None)
}

fn key_str(k: &[Vec<u8>]) -> String {
    let mut s = String::new();
    for l in k.iter().rev() {
        s.push_str(&String::from_utf8_lossy(l));
        s.push('.');
    }
    if s.is_empty() { ".".into() } else { s }
}

fn zone_str(z: &ZoneView) -> String {
    z.data
        .iter()
        .map(|(k, ts)| format!("{} {:?}", key_str(k), ts.iter().collect::<Vec<_>>()))
        .collect::<Vec<_>>()
        .join("; ")
}

// ------------------------------------------------------------------------------------------
// finding classes
// ------------------------------------------------------------------------------------------

/// Class of a known soundness deviation, computed from the case alone.  The nine classes found
/// when this check was built (C08-F1a … C08-F6) were all repaired in /repo; none is open, so every
/// soundness failure is an ordinary violation.
pub fn classify(_c: &Case) -> &'static str {
    ""
}

// ------------------------------------------------------------------------------------------
// exec
// ------------------------------------------------------------------------------------------

/// RFC 4035 §5.4 / RFC 6840 §4.1, §4.3 rule for a NODATA proof by an NSEC owned by the name the
/// type is asked at (the query name, or the matching wildcard): the type is absent, CNAME is absent
/// (it would have been the answer), the type is not NSEC/RRSIG (they exist at every NSEC owner), and
/// a parent-side delegation record (NS without SOA) speaks for DS only.
fn bitmap_denies(qtype: u16, bitmap: &[u16]) -> bool {
    !bitmap.contains(&qtype)
        && !bitmap.contains(&T_CNAME)
        && qtype != T_NSEC
        && qtype != T_RRSIG
        && (!is_delegation_nsec(bitmap) || qtype == T_DS)
}

/// Expected verdict, by construction, of the "an NSEC matches QNAME" branch — for any case that
/// reaches it (absolute names, supported rcode, SOA owner above the query name or absent, some
/// record owned by the query name; the first such record decides).  Independent of the Lean model.
fn expected_matching_nsec(c: &Case) -> Option<bool> {
    if c.rcode != 0 && c.rcode != 3 {
        return None;
    }
    if !c.q.is_fqdn() || c.nsecs.iter().any(|n| !n.owner.is_fqdn() || !n.next.is_fqdn()) {
        return None;
    }
    let kq = key(&c.q);
    if let Some(s) = &c.soa {
        if !s.is_fqdn() || !is_prefix(&key(s), &kq) {
            return None;
        }
    }
    let r = c.nsecs.iter().find(|n| key(&n.owner) == kq)?;
    Some(c.rcode == 0 && c.answers.is_empty() && bitmap_denies(c.qtype, &r.types))
}

pub fn exec(line: &str, rec: &mut Recorder) {
    exec_expect(line, None, rec)
}

/// `expect`: the verdict the generator knows by construction (directed families), if any
pub fn exec_expect(line: &str, expect: Option<bool>, rec: &mut Recorder) {
    let t: Vec<&str> = line.split_whitespace().collect();
    if t.first() == Some(&"e2e") {
        e2e::exec(&t, line, rec);
        return;
    }
    if t.first() == Some(&"h1") {
        e2e::exec_h1(&t, line, rec);
        return;
    }
    if t.first() == Some(&"tam") {
        e2e::exec_tamper(&t, line, rec);
        return;
    }
    let Some(c) = Case::parse(&t) else {
        rec.stat("skipped.unparsable-case");
        return;
    };
    match catch(|| run_impl(&c)) {
        Ok(p) => {
            let idx = rec.case(line.to_string(), proof_str(p).to_string());
            let mode = match (c.rcode, c.answers.is_empty()) {
                (3, true) => "nxdomain",
                (0, true) => "nodata",
                (0, false) => "answer",
                (3, false) => "nxdomain+answers",
                _ => "other-rcode",
            };
            rec.stat(&format!("mode.{mode}"));
            rec.stat(&format!("verdict.{}.{}", mode, proof_str(p)));
            rec.stat(&format!("nsecs.{}", c.nsecs.len().min(6)));
            rec.stat(if c.soa.is_some() { "soa.present" } else { "soa.absent" });
            let f = falsifier(&c);
            match &f {
                None => rec.stat("oracle.nsec-set-inconsistent"),
                Some(None) => rec.stat("oracle.claim-entailed"),
                Some(Some(_)) => rec.stat("oracle.claim-not-entailed"),
            }
            if f.is_some() && !c.nsecs.is_empty() {
                rec.nontrivial(idx);
            }
            let cls = classify(&c);
            // verdicts known by construction: the matching-NSEC branch (every case that reaches it)
            // and the directed families
            let by_rule = expected_matching_nsec(&c);
            if by_rule.is_some() {
                rec.stat("branch.matching-nsec");
            }
            for (what, e) in [("matching-NSEC rule (RFC 4035 5.4, RFC 6840 4.1/4.3)", by_rule), ("directed family", expect)] {
                if let Some(e) = e {
                    if (p == Proof::Secure) != e {
                        rec.fail(
                            idx,
                            format!(
                                "verify_nsec answered {} where {} is expected by construction ({what}; {mode}, qtype {})",
                                proof_str(p),
                                if e { "Secure" } else { "Bogus" },
                                c.qtype
                            ),
                            "",
                        );
                    }
                }
            }
            if p == Proof::Secure {
                if let Some(Some(z)) = f {
                    rec.stat(&format!("unsound.{}", if cls.is_empty() { "unclassified" } else { cls }));
                    // every unclassified failure is recorded; of a known class the first 50
                    let seen = *rec.stats.get(&format!("unsound.{}", if cls.is_empty() { "unclassified" } else { cls })).unwrap_or(&0);
                    if cls.is_empty() || seen <= 50 {
                        rec.fail(
                            idx,
                            format!(
                                "verify_nsec answered Secure ({mode}) but the NSEC records do not entail the claim: \
                                 the zone view {{ {} }} is consistent with every record and falsifies it",
                                zone_str(&z)
                            ),
                            cls,
                        );
                    }
                }
            } else if p != Proof::Bogus {
                rec.fail(idx, format!("verify_nsec returned {}", proof_str(p)), "");
            }
        }
        Err(p) => {
            let idx = rec.case(line.to_string(), format!("panic {p}"));
            rec.fail(idx, format!("panic: {p}"), "");
        }
    }
}

// ------------------------------------------------------------------------------------------
// generators
// ------------------------------------------------------------------------------------------

#[allow(dead_code)]
fn nm(labels: &[&[u8]], apex: &Name) -> Name {
    // labels given most-significant first, relative to apex
    let mut n = apex.clone();
    for l in labels {
        n = n.prepend_label(*l).expect("label");
    }
    n
}

/// all names below `apex` with 0..=depth labels from `alphabet`, most significant label first
fn universe(alphabet: &[&[u8]], depth: usize) -> Vec<Vec<Vec<u8>>> {
    let mut out: Vec<Vec<Vec<u8>>> = vec![vec![]];
    let mut frontier: Vec<Vec<Vec<u8>>> = vec![vec![]];
    for _ in 0..depth {
        let mut next = vec![];
        for p in &frontier {
            for l in alphabet {
                let mut x = p.clone();
                x.push(l.to_vec());
                next.push(x);
            }
        }
        out.extend(next.iter().cloned());
        frontier = next;
    }
    out
}

fn rel_name(rel: &[Vec<u8>], apex: &Name) -> Name {
    let ls: Vec<&[u8]> = rel.iter().map(|l| &l[..]).collect();
    nm(&ls, apex)
}

/// The NSEC chain a signer produces for the zone `apex` + `data` (name → types, relative names):
/// authoritative names in canonical order, names below a delegation left out.
fn chain(apex: &Name, apex_types: &[u16], data: &[(Vec<Vec<u8>>, Vec<u16>)]) -> Vec<NsecRec> {
    let mut names: Vec<(Name, Vec<u16>)> = vec![(apex.clone(), apex_types.to_vec())];
    for (rel, ts) in data {
        let below_cut = data.iter().any(|(d, dts)| {
            dts.contains(&T_NS) && d.len() < rel.len() && rel[..d.len()] == d[..]
        });
        if !below_cut {
            names.push((rel_name(rel, apex), ts.clone()));
        }
    }
    names.sort_by(|a, bb| a.0.cmp(&bb.0));
    names.dedup_by(|a, bb| a.0 == bb.0);
    let k = names.len();
    (0..k)
        .map(|i| {
            let mut ts = names[i].1.clone();
            ts.push(T_RRSIG);
            ts.push(T_NSEC);
            ts.sort();
            NsecRec { owner: names[i].0.clone(), next: names[(i + 1) % k].0.clone(), types: ts }
        })
        .collect()
}

struct Emit<'a> {
    rec: &'a mut Recorder,
    seen: HashSet<String>,
    budget: usize,
}

impl Emit<'_> {
    fn case(&mut self, c: &Case) {
        if self.budget == 0 {
            return;
        }
        let l = c.line();
        if self.seen.insert(l.clone()) {
            self.budget -= 1;
            exec(&l, self.rec);
        }
    }
}

/// the response shapes tried for one (zone, NSEC subset, query)
fn modes(q: &Name, apex: &Name, soa_variants: &[Option<Name>], qtypes: &[u16], nsecs: &[NsecRec], out: &mut Vec<Case>) {
    for soa in soa_variants {
        out.push(Case { q: q.clone(), qtype: T_A, soa: soa.clone(), rcode: 3, answers: vec![], nsecs: nsecs.to_vec() });
        for qt in qtypes {
            out.push(Case { q: q.clone(), qtype: *qt, soa: soa.clone(), rcode: 0, answers: vec![], nsecs: nsecs.to_vec() });
        }
        let (ql, al) = (q.num_labels(), apex.num_labels());
        for l in al..ql {
            out.push(Case {
                q: q.clone(),
                qtype: T_A,
                soa: soa.clone(),
                rcode: 0,
                answers: vec![
                    Ans { name: q.clone(), secure: true, rrsig_labels: None },
                    Ans { name: q.clone(), secure: true, rrsig_labels: Some(l) },
                ],
                nsecs: nsecs.to_vec(),
            });
        }
    }
}

/// Exhaustive small-scope enumeration: every zone with at most `max_names` data names below the
/// apex drawn from the universe (labels {a,b,*}, depth ≤ `zdepth`) with every type variant,
/// every non-empty subset (≤ `max_subset` records) of its NSEC chain, every query name of depth
/// ≤ `qdepth`, every response shape.
fn enumerate(em: &mut Emit, alphabet: &[&[u8]; 3], apex: &Name, zdepth: usize, qdepth: usize, max_names: usize, max_subset: usize, soa_none: bool) {
    let zu: Vec<Vec<Vec<u8>>> = universe(alphabet, zdepth).into_iter().filter(|n| !n.is_empty()).collect();
    let qu: Vec<Name> = universe(alphabet, qdepth).iter().map(|r| rel_name(r, apex)).collect();
    let tvs: [&[u16]; 3] = [&[T_A], &[T_TXT], &[T_NS]];
    let soa_variants: Vec<Option<Name>> =
        if soa_none { vec![Some(apex.clone()), None] } else { vec![Some(apex.clone())] };
    // choose index sets of size ≤ max_names
    let mut sets: Vec<Vec<usize>> = vec![vec![]];
    let mut frontier: Vec<Vec<usize>> = vec![vec![]];
    for _ in 0..max_names {
        let mut next = vec![];
        for s in &frontier {
            let lo = s.last().map(|x| x + 1).unwrap_or(0);
            for i in lo..zu.len() {
                let mut x = s.clone();
                x.push(i);
                next.push(x);
            }
        }
        sets.extend(next.iter().cloned());
        frontier = next;
    }
    for s in &sets {
        // every assignment of type variants
        let combos = tvs.len().pow(s.len() as u32);
        for combo in 0..combos {
            let mut cc = combo;
            let data: Vec<(Vec<Vec<u8>>, Vec<u16>)> = s
                .iter()
                .map(|i| {
                    let tv = tvs[cc % tvs.len()];
                    cc /= tvs.len();
                    (zu[*i].clone(), tv.to_vec())
                })
                .collect();
            // skip zones with a data name below a delegation (glue: same chain as without it)
            if data.iter().any(|(rel, _)| {
                data.iter().any(|(d, dts)| dts.contains(&T_NS) && d.len() < rel.len() && rel[..d.len()] == d[..])
            }) {
                continue;
            }
            let has_deleg = data.iter().any(|(_, ts)| ts.contains(&T_NS));
            let ch = chain(apex, &[T_NS, T_SOA], &data);
            let qtypes: &[u16] = if has_deleg { &[T_A, T_DS] } else { &[T_A] };
            let k = ch.len();
            for mask in 1u32..(1 << k) {
                if mask.count_ones() as usize > max_subset {
                    continue;
                }
                let sub: Vec<NsecRec> = (0..k).filter(|i| mask >> i & 1 == 1).map(|i| ch[i].clone()).collect();
                let mut cases = vec![];
                for q in &qu {
                    modes(q, apex, &soa_variants, qtypes, &sub, &mut cases);
                }
                for c in &cases {
                    em.case(c);
                    if em.budget == 0 {
                        return;
                    }
                }
            }
        }
    }
}

fn rand_label(r: &mut Rng) -> Vec<u8> {
    match r.below(10) {
        0 => b"*".to_vec(),
        1 => vec![*r.pick(&[b'A', b'a', b'Z', b'z', 0u8, 0xff, b'-', b'0'])],
        2 | 3 => {
            let n = r.range(1, 6) as usize;
            (0..n).map(|_| *r.pick(b"abAB*z-09")).collect()
        }
        _ => vec![*r.pick(b"abcdw")],
    }
}

/// random zone over a wider alphabet / deeper names, random subset, query near the zone's names
fn random_case(r: &mut Rng) -> Case {
    let apex = match r.below(6) {
        0 => Name::root(),
        1 => Name::from_ascii("Example.COM.").unwrap(),
        _ => Name::from_ascii("example.").unwrap(),
    };
    let n = r.range(0, 6) as usize;
    let mut data: Vec<(Vec<Vec<u8>>, Vec<u16>)> = vec![];
    for _ in 0..n {
        let d = r.range(1, 4) as usize;
        let rel: Vec<Vec<u8>> = if !data.is_empty() && r.chance(1, 2) {
            // related to an existing name: child / sibling
            let mut x = r.pick(&data).0.clone();
            if r.chance(1, 2) && x.len() > 1 {
                x.pop();
            }
            x.push(rand_label(r));
            x
        } else {
            (0..d).map(|_| rand_label(r)).collect()
        };
        let ts: Vec<u16> = match r.below(8) {
            0 => vec![T_NS],
            1 => vec![T_NS, T_DS],
            2 => vec![T_TXT],
            3 => vec![T_CNAME],
            4 => vec![T_A, T_TXT],
            _ => vec![T_A],
        };
        if rel.len() <= 5 {
            data.push((rel, ts));
        }
    }
    let ch = chain(&apex, &[T_NS, T_SOA, T_A], &data);
    let mut sub: Vec<NsecRec> = ch.iter().filter(|_| r.chance(1, 2)).cloned().collect();
    if sub.is_empty() || r.chance(1, 6) {
        sub = ch.clone();
    }
    if r.chance(1, 12) {
        // a record that is not a link of this zone's chain
        let o = rel_name(&[rand_label(r)], &apex);
        let nx = rel_name(&[rand_label(r)], &apex);
        sub.push(NsecRec { owner: o, next: nx, types: vec![T_A, T_RRSIG, T_NSEC] });
    }
    if r.chance(1, 4) {
        let i = r.below(sub.len() as u64) as usize;
        let j = r.below(sub.len() as u64) as usize;
        sub.swap(i, j);
    }
    // query: near a zone name
    let base: Vec<Vec<u8>> = if !data.is_empty() && r.chance(4, 5) { r.pick(&data).0.clone() } else { vec![] };
    let mut qrel = base;
    match r.below(6) {
        0 => {}
        1 => {
            qrel.pop();
        }
        2 => qrel.push(rand_label(r)),
        3 => {
            qrel.pop();
            qrel.push(rand_label(r));
        }
        4 => {
            qrel.push(rand_label(r));
            qrel.push(rand_label(r));
        }
        _ => {
            if let Some(l) = qrel.last_mut() {
                l.push(*r.pick(b"a0-"));
            }
        }
    }
    qrel.truncate(6);
    let mut q = rel_name(&qrel, &apex);
    if r.chance(1, 40) {
        q.set_fqdn(false);
    }
    let soa = match r.below(10) {
        0 | 1 => None,
        2 => Some(rel_name(&[rand_label(r)], &apex)),
        _ => Some(apex.clone()),
    };
    let qtype = *r.pick(&[T_A, T_A, T_A, T_DS, T_TXT, T_NS, T_CNAME, T_NSEC, 255]);
    let (rcode, answers) = match r.below(10) {
        0..=3 => (3, vec![]),
        4..=6 => (0, vec![]),
        7 | 8 => {
            let ql = q.num_labels();
            let l = if ql > 0 { r.below(ql as u64 + 1) as u8 } else { 0 };
            let mut a = vec![Ans { name: q.clone(), secure: true, rrsig_labels: None }];
            a.push(Ans { name: q.clone(), secure: r.chance(9, 10), rrsig_labels: Some(l) });
            if r.chance(1, 4) {
                let l2 = r.below(ql as u64 + 2) as u8;
                let other = if r.chance(1, 2) { q.clone() } else { rel_name(&[rand_label(r)], &apex) };
                a.push(Ans { name: other, secure: true, rrsig_labels: Some(l2) });
            }
            (0, a)
        }
        _ => (*r.pick(&[2u16, 3, 5, 0]), vec![Ans { name: q.clone(), secure: true, rrsig_labels: None }]),
    };
    Case { q, qtype, soa, rcode, answers, nsecs: sub }
}

/// Directed family for the branches that look at a type bitmap: query type ∈ {A, AAAA, NS, DS,
/// CNAME, SOA, NSEC, RRSIG, ANY, unknown} × bitmap ∈ all subsets of {qtype, CNAME, NS, SOA, DS,
/// DNAME, NSEC, RRSIG} × the name the record is used for ∈ {apex, delegation, ordinary, wildcard
/// (asked literally), wildcard (matching a non-existent name), empty non-terminal, name below the
/// cut}.  The expected verdict is computed by construction.
fn directed(rec: &mut Recorder) {
    let x = Name::from_ascii("x.").unwrap();
    let n = |s: &str| Name::from_ascii(s).unwrap();
    let qtypes: [u16; 10] = [T_A, 28, T_NS, T_DS, T_CNAME, T_SOA, T_NSEC, T_RRSIG, 255, 65280];
    for qt in qtypes {
        let bits: [u16; 8] = [qt, T_CNAME, T_NS, T_SOA, T_DS, 39, T_NSEC, T_RRSIG];
        let mut seen: HashSet<Vec<u16>> = HashSet::new();
        for mask in 0u32..256 {
            let mut b: Vec<u16> = (0..8).filter(|i| mask >> i & 1 == 1).map(|i| bits[i]).collect();
            b.sort();
            b.dedup();
            if !seen.insert(b.clone()) {
                continue;
            }
            let one = |owner: &Name, next: &Name| vec![NsecRec { owner: owner.clone(), next: next.clone(), types: b.clone() }];
            let denies = bitmap_denies(qt, &b);
            let deleg = is_delegation_nsec(&b);
            // (query name, records, [(rcode, soa present, expected)])
            let fam: Vec<(Name, Vec<NsecRec>, Vec<(u16, bool, bool)>)> = vec![
                (x.clone(), one(&x, &n("a.x.")), vec![(0, true, denies), (3, true, false)]),
                (n("sub.x."), one(&n("sub.x."), &n("t.x.")), vec![(0, true, denies)]),
                (n("www.x."), one(&n("www.x."), &n("zz.x.")), vec![(0, true, denies), (0, false, denies), (3, true, false)]),
                (n("*.x."), one(&n("*.x."), &n("a.x.")), vec![(0, true, denies)]),
                // a.x. does not exist; *.x. NSEC b.x. covers it and is the matching wildcard's record
                (n("a.x."), one(&n("*.x."), &n("b.x.")), vec![(0, true, denies), (3, true, false)]),
                // e.x. is an empty non-terminal (c.e.x. exists): NODATA whatever the type; a
                // parent-side delegation record covers it all the same (a.x. is not above it)
                (n("e.x."), one(&n("a.x."), &n("c.e.x.")), vec![(0, true, true), (3, true, false)]),
                // www.sub.x. lies below sub.x.: only a record that is not the parent side of a cut
                // proves the name error (it also covers *.sub.x.); it never proves NODATA
                (n("www.sub.x."), one(&n("sub.x."), &n("t.x.")), vec![(3, true, !deleg), (0, true, false)]),
            ];
            for (q, nsecs, shapes) in fam {
                for (rcode, with_soa, expected) in shapes {
                    let c = Case {
                        q: q.clone(),
                        qtype: qt,
                        soa: if with_soa { Some(x.clone()) } else { None },
                        rcode,
                        answers: vec![],
                        nsecs: nsecs.clone(),
                    };
                    rec.stat("family.directed-bitmap");
                    exec_expect(&c.line(), Some(expected), rec);
                }
            }
        }
    }
}

/// hand-built cases for arms of `verify_nsec` that the generators above do not reach (found by the
/// coverage report): `prepend_label("*")` failing on a 254/255-octet encloser (only possible when
/// the SOA owner *is* the query name), RRSIGs in the answer section whose trimmed owner is not an
/// ancestor of the query name / that are not Secure / with too large a Labels field, several
/// wildcard NSEC owners to choose `wildcard_base_name` from
fn adversarial() -> Vec<String> {
    let n = |s: &str| Name::from_ascii(s).unwrap();
    let mut v: Vec<Case> = vec![];
    // names of 253, 254 and 255 octets on the wire
    for last in [59usize, 60, 61] {
        let l63 = "a".repeat(63);
        let long = n(&format!("{l63}.{l63}.{l63}.{}.", "b".repeat(last)));
        let owner = n(&format!("{l63}.{l63}.{}.", "b".repeat(last)));
        for rcode in [3u16, 0] {
            v.push(Case {
                q: long.clone(),
                qtype: T_A,
                soa: Some(long.clone()),
                rcode,
                answers: vec![],
                nsecs: vec![NsecRec { owner: owner.clone(), next: n("z."), types: vec![T_A, T_RRSIG, T_NSEC] }],
            });
        }
    }
    // answer-section RRSIGs that `wildcard_base_name` must skip
    let q = n("a.z.w.x.");
    let cov = NsecRec { owner: n("x.y.w.x."), next: n("xx.x."), types: vec![T_A, T_RRSIG, T_NSEC] };
    let good = Ans { name: q.clone(), secure: true, rrsig_labels: Some(2) };
    for extra in [
        Ans { name: n("b.y.x."), secure: true, rrsig_labels: Some(2) },  // trimmed y.x. is not above the query name
        Ans { name: n("b.y.x."), secure: true, rrsig_labels: Some(1) },  // trimmed x. is above it: fewer labels win
        Ans { name: q.clone(), secure: false, rrsig_labels: Some(1) },   // not Secure
        Ans { name: q.clone(), secure: true, rrsig_labels: Some(4) },    // not a wildcard RRSIG
        Ans { name: q.clone(), secure: true, rrsig_labels: Some(9) },
        Ans { name: n("c.x."), secure: true, rrsig_labels: Some(1) },    // shorter owner, labels < owner labels
    ] {
        for order in [0, 1] {
            let mut answers = vec![Ans { name: q.clone(), secure: true, rrsig_labels: None }, good.clone(), extra.clone()];
            if order == 1 {
                answers.swap(1, 2);
            }
            for soa in [None, Some(n("x."))] {
                v.push(Case { q: q.clone(), qtype: T_A, soa, rcode: 0, answers: answers.clone(), nsecs: vec![cov.clone()] });
            }
        }
        // the extra RRSIG alone
        v.push(Case {
            q: q.clone(),
            qtype: T_A,
            soa: None,
            rcode: 0,
            answers: vec![Ans { name: q.clone(), secure: true, rrsig_labels: None }, extra.clone()],
            nsecs: vec![cov.clone()],
        });
    }
    // wildcard NODATA with several wildcard NSEC owners above the query name
    for qt in [T_TXT, T_A] {
        v.push(Case {
            q: n("a.z.w.x."),
            qtype: qt,
            soa: Some(n("x.")),
            rcode: 0,
            answers: vec![],
            nsecs: vec![
                cov.clone(),
                NsecRec { owner: n("*.w.x."), next: n("x.w.x."), types: vec![T_A, T_RRSIG, T_NSEC] },
                NsecRec { owner: n("*.x."), next: n("a.x."), types: vec![T_A, T_RRSIG, T_NSEC] },
                NsecRec { owner: n("*.q.x."), next: n("r.x."), types: vec![T_A, T_RRSIG, T_NSEC] },
            ],
        });
    }
    v.iter().map(|c| c.line()).collect()
}

pub fn run(o: &Opts, rec: &mut Recorder) {
    rec.rule = "verify_nsec on (query, soa, rcode, answers, NSEC subset): exhaustive small-scope enumeration \
                (labels {a,b,*}, zones × chain subsets × queries × response shapes) + random larger zones + \
                hand-built cases + end-to-end server-generated proofs; a case is non-trivial when the NSEC \
                set is non-empty and consistent with at least one zone view (so that soundness is not \
                vacuous), or is an end-to-end case the server answered with NSEC records; distinct by case line"
        .into();
    for l in o.pre_lines.clone() {
        exec(&l, rec);
    }
    rec.corpus_cases = rec.cases.len();
    if o.replay_only {
        return;
    }
    for l in adversarial() {
        exec(&l, rec);
    }
    directed(rec);
    let x = Name::from_ascii("x.").unwrap();
    let thorough = o.thorough();
    let ab: [&[u8]; 3] = [b"a", b"b", b"*"];
    // `!` sorts before `*`: names below a wildcard-labelled name on both sides of `*.<it>`
    let ab2: [&[u8]; 3] = [b"!", b"a", b"*"];
    {
        // zones with ≤ 1 data name (depth ≤ 2), queries to depth 3, with and without SOA
        let mut em = Emit { rec, seen: HashSet::new(), budget: o.n(60_000, 200_000) };
        enumerate(&mut em, &ab, &x, 2, 3, 1, 2, true);
    }
    if thorough {
        let mut em = Emit { rec, seen: HashSet::new(), budget: 400_000 };
        enumerate(&mut em, &ab2, &x, 2, 3, 2, 2, false);
        let mut em = Emit { rec, seen: HashSet::new(), budget: 1_200_000 };
        enumerate(&mut em, &ab, &x, 2, 3, 2, 3, true);
        let mut em = Emit { rec, seen: HashSet::new(), budget: 1_000_000 };
        enumerate(&mut em, &ab, &x, 3, 3, 2, 3, false);
        let mut em = Emit { rec, seen: HashSet::new(), budget: 300_000 };
        enumerate(&mut em, &ab, &Name::root(), 2, 2, 2, 3, true);
    } else {
        let mut em = Emit { rec, seen: HashSet::new(), budget: 15_000 };
        enumerate(&mut em, &ab2, &x, 1, 3, 1, 2, false);
    }
    let mut r = Rng::new(o.seed);
    for _ in 0..o.n(30_000, 600_000) {
        let c = random_case(&mut r);
        exec(&c.line(), rec);
    }
    e2e::run(o, rec);
}
