//! C03 — size-limited encoding.  Stage 1: the size-limited buffer, `place`/`replace`, `emit_iter`
//! and its `Rollback`.  Case lines are encoder scripts (see `encscript.rs`) shaped like
//! `emit_message_parts`: a limit, a header place, sections written with `emit_iter` whose items are
//! record-shaped op groups, the header back-patch; plus raw primitive scripts under tiny limits.
//! Oracles (independent of the model): the buffer never grows past the limit in force; after
//! `NotAllRecordsWritten{count}` the buffer equals, byte for byte, the one obtained by emitting only
//! the first `count` items (the rolled-back record leaves no trace); surviving names still decode.
use crate::common::*;
use crate::props::encscript::{self, *};
use crate::props::msgemit::{self, gen_message_tier, limits_for, msg_line};
use hickory_proto::op::{Edns, Message, MessageType, OpCode, Query};
use hickory_proto::rr::rdata::{A, NS, TXT};
use hickory_proto::rr::{Name, RData, Record, RecordType};

fn nontrivial(v: &Verdict) -> bool {
    v.log.n_emax + v.log.n_naw >= 1
}

pub fn exec(line: &str, rec: &mut Recorder) {
    if line.starts_with("msg ") || line.starts_with("resp ") || line.starts_with("rt ") {
        msgemit::exec(line, rec, |v| v.n_truncated >= 1)
    } else {
        encscript::exec(line, rec, nontrivial)
    }
}

const LABELS: &[&str] = &["a", "bb", "Www", "example", "EXAMPLE", "com", "org", "x", "mail", "ns1"];

fn gen_name(r: &mut Rng) -> String {
    let k = r.below(5) as usize;
    let labels: Vec<Vec<u8>> = (0..k).map(|_| r.pick(LABELS).as_bytes().to_vec()).collect();
    name_from(&labels).unwrap_or_else(|| "F:".into())
}

fn rdata_ops(r: &mut Rng, out: &mut Vec<String>) {
    match r.below(7) {
        0 => out.push(format!("sl:{}", hex(&r.bytes(4)))),
        1 => out.push(format!("rd:s:{}", gen_name(r))),
        2 => {
            out.push(format!("u16:{}", r.below(100)));
            out.push(format!("rd:s:{}", gen_name(r)));
        }
        3 => {
            for _ in 0..r.range(1, 3) {
                let k = r.below(40) as usize;
                out.push(format!("cd:{}", hex(&r.bytes(k))));
            }
        }
        4 => {
            out.push(format!("sl:{}", hex(&r.bytes(6))));
            out.push(format!("rd:o:{}", gen_name(r)));
        }
        5 => {
            // SOA-like: two names and five u32
            out.push(format!("rd:s:{}", gen_name(r)));
            out.push(format!("rd:s:{}", gen_name(r)));
            for _ in 0..5 {
                out.push(format!("u32:{}", r.next() as u32));
            }
        }
        _ => {
            let k = r.below(70) as usize;
            out.push(format!("sl:{}", hex(&r.bytes(k))));
        }
    }
}

fn record_item(r: &mut Rng) -> String {
    let mut out = vec![];
    out.push(format!("n:d:{}", gen_name(r)));
    out.push(format!("u16:{}", r.pick(&[1u32, 2, 5, 15, 16, 33, 6])));
    out.push("u16:1".into());
    out.push(format!("u32:{}", r.below(100000)));
    out.push("pl:u".into());
    rdata_ops(r, &mut out);
    out.push("rpl".into());
    match r.below(40) {
        // an item failing with an error other than MaxBufferSizeExceeded: propagates, no rollback
        0 => out.insert(r.below(out.len() as u64) as usize, "cdn:300:41".into()),
        // a nested emit_iter inside the item
        1 => out.push(format!("iter( u8:1 / sl:{} )", hex(&r.bytes(5)))),
        _ => {}
    }
    out.join(" ")
}

/// `max` = None: unlimited (used to measure the full length)
fn message_script(r: &mut Rng) -> Vec<String> {
    let mut ops = vec![];
    ops.push("pl:12".to_string());
    // question
    if r.chance(4, 5) {
        ops.push(format!("iter( n:d:{} u16:1 u16:1 )", gen_name(r)));
    }
    for _ in 0..r.range(1, 3) {
        let k = match r.below(6) {
            0 => 0,
            1 => r.range(4, 9),
            _ => r.range(1, 3),
        };
        let items: Vec<String> = (0..k).map(|_| record_item(r)).collect();
        ops.push(format!("iter( {} )", items.join(" / ")));
    }
    ops.push(format!("rp:{}", hex(&r.bytes(12))));
    ops
}

fn with_limit(ops: &[String], limit: u64, after_header: bool) -> String {
    let mut v: Vec<String> = ops.to_vec();
    v.insert(if after_header { 1 } else { 0 }, format!("max:{limit}"));
    // lowering the limit below an already reserved place is API misuse: `Place::replace` then
    // asserts instead of returning the error (hickory always sets the limit first)
    let kind = if after_header && limit < 12 { "encx" } else { "enc" };
    format!("{kind} e {}", v.join(" "))
}

fn full_len(ops: &[String]) -> usize {
    let line = format!("enc e {}", ops.join(" "));
    let t: Vec<&str> = line.split_whitespace().collect();
    let Some((_, init, ops)) = parse_line(&t) else { return 64 };
    let mut app = true;
    match catch(|| run_script(&init, &ops, &mut app)) {
        Ok(r) => r.buf.len(),
        Err(_) => 64,
    }
}

fn raw_script(r: &mut Rng) -> String {
    let mut ops = vec![format!("max:{}", r.below(70))];
    let mut open = 0;
    for _ in 0..r.range(1, 25) {
        match r.below(16) {
            0 => ops.push(format!("u8:{}", r.below(256))),
            1 => ops.push(format!("u16:{}", r.below(65536))),
            2 => ops.push(format!("u32:{}", r.next() as u32)),
            3 => {
                let k = r.below(12) as usize;
                ops.push(format!("sl:{}", hex(&r.bytes(k))))
            }
            4 => {
                let k = r.below(12) as usize;
                ops.push(format!("cd:{}", hex(&r.bytes(k))))
            }
            5 => ops.push(format!("cdn:{}:41", r.pick(&[0u32, 1, 254, 255, 256, 300]))),
            6 | 7 => {
                ops.push(format!("pl:{}", r.pick(&["u", "1", "2", "3", "4", "12"])));
                open += 1;
            }
            8 if open > 0 => ops.push("lsp".into()),
            9 | 10 => ops.push(format!("n:{}:{}", mode_tok(r), gen_name(r))),
            11 => ops.push(format!("max:{}", r.below(90))),
            12 => ops.push("trim".into()),
            13 => {
                let items: Vec<String> = (0..r.below(4))
                    .map(|_| {
                        let k = r.below(9) as usize;
                        format!("n:d:{} sl:{}", gen_name(r), hex(&r.bytes(k)))
                    })
                    .collect();
                ops.push(format!("iter( {} )", items.join(" / ")));
            }
            _ => {
                let k = r.below(5) as usize;
                ops.push(format!("sl:{}", hex(&r.bytes(k))))
            }
        }
    }
    // places are not closed: a `Place` may simply be dropped
    format!("enc e {}", ops.join(" "))
}

pub fn run(o: &Opts, rec: &mut Recorder) {
    rec.rule = "encoder scripts shaped like emit_message_parts (limit, 12-octet header place, question and 1-3 record sections written with emit_iter, items = owner name/type/class/ttl/RDLENGTH place/rdata/back-patch with A, name, MX, TXT, SRV-like, SOA-like and opaque rdata, occasionally an item failing with a non-size error or containing a nested emit_iter), each script run under limits drawn from 0..full length+2 (thorough: for one script in 12 every limit), plus raw primitive scripts under limits 0-90; a case is non-trivial when at least one write was refused for size (MaxBufferSizeExceeded or NotAllRecordsWritten); distinct by case line.  Stage 2: structured messages (tier-1 RDATA types, shared suffixes, 0-12 or 30-90 records per section, EDNS with/without options, TSIG, extended rcodes) given as wire bytes, re-encoded by Message::emit under every limit around each record boundary, the whole tail of the message and fixed/random limits (small messages: every limit), and sent through ResponseHandle::send_response over UDP (advertised payload none/0/300/512/1232/4096/65535) and TCP; deterministic adversarial messages (full candidate table before the cut, cut inside the additionals with OPT appended, complete 511/512/513-octet EDNS responses, empty-RDATA last record); a message case is non-trivial when at least one limit truncated it".into();
    for l in o.pre_lines.clone() {
        exec(&l, rec);
    }
    rec.corpus_cases = rec.cases.len();
    if o.replay_only {
        return;
    }
    let mut r = Rng::new(o.seed);
    let n = o.n(350, 7000);
    for i in 0..n {
        let ops = message_script(&mut r);
        let full = full_len(&ops) as u64;
        let after_header = r.chance(1, 6);
        if o.thorough() && i % 12 == 0 && full <= 400 {
            for limit in 0..=full + 1 {
                exec(&with_limit(&ops, limit, after_header), rec);
            }
        } else {
            for _ in 0..3 {
                let limit = if r.chance(1, 8) { r.below(14) } else { r.below(full + 3) };
                exec(&with_limit(&ops, limit, after_header), rec);
            }
        }
        for _ in 0..2 {
            exec(&raw_script(&mut r), rec);
        }
    }
    // ---------------- stage 2: whole messages under limits, and the server's response encoder
    for l in built_in_messages() {
        exec(&l, rec);
    }
    let mut r = Rng::new(o.seed ^ 0x5EC0_4D02);
    let n = o.n(150, 2500);
    for i in 0..n {
        let big = i % 12 == 5;
        let Some(m) = gen_message_tier(&mut r, rec, big) else { continue };
        let Ok(bytes) = m.to_vec() else {
            rec.stat("gen.emit-failed");
            continue;
        };
        let limits: Vec<u16> = if bytes.len() <= 300 && (i % 3 == 1 || o.thorough()) {
            (0..=bytes.len() as u16 + 2).collect()
        } else {
            limits_for(&mut r, &bytes, if o.thorough() { 240 } else { 70 })
        };
        exec(&msg_line(&bytes, &limits), rec);
        if m.queries.len() == 1 && (i % 2 == 0 || big) {
            let h = hex(&bytes);
            for adv in ["-", "512", "1232", "4096", "65535", "300", "0"] {
                if adv == "-" || r.chance(1, 2) || big {
                    exec(&format!("resp udp {adv} {h}"), rec);
                }
            }
            exec(&format!("resp tcp {} {h}", r.pick(&["-", "1232"])), rec);
        }
    }
}

fn nm(labels: &[&str]) -> Name {
    Name::from_labels(labels.iter().map(|l| l.as_bytes())).unwrap()
}

fn txt(n: usize) -> RData {
    let chunks: Vec<Vec<u8>> = (0..n.div_ceil(200)).map(|i| vec![b'x'; if (i + 1) * 200 <= n { 200 } else { n - i * 200 }]).collect();
    RData::TXT(TXT::from_bytes(chunks.iter().map(|c| &c[..]).collect()))
}

fn a(x: u8) -> RData {
    RData::A(A::new(10, 0, 0, x))
}

/// deterministic adversarial messages, every limit in the interesting stretch
fn built_in_messages() -> Vec<String> {
    let mut v = vec![];
    let base = |id: u16| {
        let mut m = Message::new(id, MessageType::Response, OpCode::Query);
        m.add_query(Query::new(nm(&["q", "example"]), RecordType::A));
        m
    };
    // (1) candidate table full (and nearly full) before the cut; the dropped record introduces a new
    //     name; smaller records in later sections use that name again
    for (distinct, solo) in [(70usize, false), (40, false), (32, false), (31, true), (31, false), (30, true), (30, false), (29, true), (29, false), (28, false)] {
        for with_edns in [false, true] {
            let mut m = base(1);
            if solo {
                // one more candidate: the table holds an odd number before the cut
                m.add_answer(Record::from_rdata(nm(&["solo"]), 60, a(0)));
            }
            for i in 0..distinct {
                let (h, z) = (format!("h{i}"), format!("z{i}"));
                m.add_answer(Record::from_rdata(nm(&[h.as_str(), z.as_str()]), 60, a(i as u8)));
            }
            let cut_from = m.to_vec().unwrap().len();
            m.add_answer(Record::from_rdata(nm(&["new", "victim", "example"]), 60, txt(150)));
            m.add_authority(Record::from_rdata(nm(&["victim", "example"]), 60, RData::NS(NS(nm(&["new", "victim", "example"])))));
            m.add_additional(Record::from_rdata(nm(&["new", "victim", "example"]), 60, a(1)));
            m.add_additional(Record::from_rdata(nm(&["www", "new", "victim", "example"]), 60, a(2)));
            if with_edns {
                m.set_edns(Edns::new());
            }
            let bytes = m.to_vec().unwrap();
            let limits: Vec<u16> = (cut_from as u16 - 2..=bytes.len() as u16 + 2).collect();
            v.push(msg_line(&bytes, &limits));
            v.push(format!("resp udp 4096 {}", hex(&bytes)));
            v.push(format!("resp udp - {}", hex(&bytes)));
        }
    }
    // (2) the cut falls in the additional section and the OPT record still fits afterwards
    for opts in [false, true] {
        let mut m = base(2);
        m.add_answer(Record::from_rdata(nm(&["q", "example"]), 60, a(1)));
        m.add_additional(Record::from_rdata(nm(&["ns1", "example"]), 60, a(2)));
        m.add_additional(Record::from_rdata(nm(&["big", "example"]), 60, txt(90)));
        m.add_additional(Record::from_rdata(nm(&["ns2", "example"]), 60, a(3)));
        let mut e = Edns::new();
        if opts {
            e.options_mut().insert(hickory_proto::rr::rdata::opt::EdnsOption::Unknown(65001, vec![1, 2, 3]));
        }
        m.set_edns(e);
        let bytes = m.to_vec().unwrap();
        let limits: Vec<u16> = (0..=bytes.len() as u16 + 2).collect();
        v.push(msg_line(&bytes, &limits));
    }
    // (3) limits on and around the RDLENGTH of a record with empty RDATA at the very end: an
    //     option-less OPT; a complete EDNS response of exactly 513 / 512 / 511 octets
    for total in [513usize, 512, 511, 1233, 1232] {
        let mut pad = total.saturating_sub(80);
        loop {
            let mut m = base(3);
            m.add_answer(Record::from_rdata(nm(&["q", "example"]), 60, txt(pad)));
            m.set_edns(Edns::new());
            let bytes = m.to_vec().unwrap();
            if bytes.len() == total {
                let limits: Vec<u16> = (total as u16 - 14..=total as u16 + 2).collect();
                v.push(msg_line(&bytes, &limits));
                v.push(format!("resp udp 512 {}", hex(&bytes)));
                v.push(format!("resp udp 1232 {}", hex(&bytes)));
                v.push(format!("resp udp - {}", hex(&bytes)));
                break;
            }
            if bytes.len() > total || pad > total {
                break;
            }
            pad += 1;
        }
    }
    // an RFC 2136 style record with empty RDATA as the last record, no EDNS
    let mut m = Message::new(4, MessageType::Query, OpCode::Update);
    m.add_query(Query::new(nm(&["zone", "example"]), RecordType::SOA));
    m.add_authority(Record::from_rdata(nm(&["a", "zone", "example"]), 60, a(1)));
    m.add_authority(Record::update0(nm(&["b", "zone", "example"]), 0, RecordType::A));
    let bytes = m.to_vec().unwrap();
    let limits: Vec<u16> = (0..=bytes.len() as u16 + 2).collect();
    v.push(msg_line(&bytes, &limits));
    v
}
