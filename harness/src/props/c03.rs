//! C03 — size-limited encoding.  Stage 1: the size-limited buffer, `place`/`replace`, `emit_iter`
//! and its `Rollback`.  Case lines are encoder scripts (see `encscript.rs`) shaped like
//! `emit_message_parts`: a limit, a header place, sections written with `emit_iter` whose items are
//! record-shaped op groups, the header back-patch; plus raw primitive scripts under tiny limits.
//! Oracles (independent of the model): the buffer never grows past the limit in force; after
//! `NotAllRecordsWritten{count}` the buffer equals, byte for byte, the one obtained by emitting only
//! the first `count` items (the rolled-back record leaves no trace); surviving names still decode.
use crate::common::*;
use crate::props::encscript::{self, *};
use crate::props::msgemit::{self, gen_message_tier, limits_for, msg_line};
use hickory_proto::op::{Edns, Message, MessageType, OpCode, Query};
use hickory_proto::rr::rdata::{A, NS, TXT};
use hickory_proto::rr::{Name, RData, Record, RecordType};

fn nontrivial(v: &Verdict) -> bool {
    v.log.n_emax + v.log.n_naw >= 1
}

pub fn exec(line: &str, rec: &mut Recorder) {
    if ["msg ", "resp ", "rt ", "respb ", "badrec ", "cat "].iter().any(|p| line.starts_with(p)) {
        msgemit::exec(line, rec, |v| v.n_truncated >= 1)
    } else {
        encscript::exec(line, rec, nontrivial)
    }
}

const LABELS: &[&str] = &["a", "bb", "Www", "example", "EXAMPLE", "com", "org", "x", "mail", "ns1"];

fn gen_name(r: &mut Rng) -> String {
    let k = r.below(5) as usize;
    let labels: Vec<Vec<u8>> = (0..k).map(|_| r.pick(LABELS).as_bytes().to_vec()).collect();
    name_from(&labels).unwrap_or_else(|| "F:".into())
}

fn rdata_ops(r: &mut Rng, out: &mut Vec<String>) {
    match r.below(7) {
        0 => out.push(format!("sl:{}", hex(&r.bytes(4)))),
        1 => out.push(format!("rd:s:{}", gen_name(r))),
        2 => {
            out.push(format!("u16:{}", r.below(100)));
            out.push(format!("rd:s:{}", gen_name(r)));
        }
        3 => {
            for _ in 0..r.range(1, 3) {
                let k = r.below(40) as usize;
                out.push(format!("cd:{}", hex(&r.bytes(k))));
            }
        }
        4 => {
            out.push(format!("sl:{}", hex(&r.bytes(6))));
            out.push(format!("rd:o:{}", gen_name(r)));
        }
        5 => {
            // SOA-like: two names and five u32
            out.push(format!("rd:s:{}", gen_name(r)));
            out.push(format!("rd:s:{}", gen_name(r)));
            for _ in 0..5 {
                out.push(format!("u32:{}", r.next() as u32));
            }
        }
        _ => {
            let k = r.below(70) as usize;
            out.push(format!("sl:{}", hex(&r.bytes(k))));
        }
    }
}

fn record_item(r: &mut Rng) -> String {
    let mut out = vec![];
    out.push(format!("n:d:{}", gen_name(r)));
    out.push(format!("u16:{}", r.pick(&[1u32, 2, 5, 15, 16, 33, 6])));
    out.push("u16:1".into());
    out.push(format!("u32:{}", r.below(100000)));
    out.push("pl:u".into());
    rdata_ops(r, &mut out);
    out.push("rpl".into());
    match r.below(40) {
        // an item failing with an error other than MaxBufferSizeExceeded: propagates, no rollback
        0 => out.insert(r.below(out.len() as u64) as usize, "cdn:300:41".into()),
        // a nested emit_iter inside the item
        1 => out.push(format!("iter( u8:1 / sl:{} )", hex(&r.bytes(5)))),
        _ => {}
    }
    out.join(" ")
}

fn directed_rollback_scripts() -> Vec<String> {
    let nt = |ls: &[&str]| name_from(&ls.iter().map(|l| l.as_bytes().to_vec()).collect::<Vec<_>>()).unwrap();
    let item = |name: &str, rdata: &str| format!("n:d:{name} u16:16 u16:1 u32:60 pl:u {rdata} rpl");
    let mut v = vec![];
    let victim = nt(&["new", "victim", "example"]);
    let sub = nt(&["www", "new", "victim", "example"]);
    let parent = nt(&["victim", "example"]);
    let upper = nt(&["NEW", "Victim", "example"]);
    let mail = nt(&["mail", "new", "victim", "example"]);
    for pre in [0usize, 3] {
        for variant in 0..3usize {
            let mut ops = vec!["pl:12".to_string(), format!("iter( n:d:{} u16:1 u16:1 )", nt(&["q", "example"]))];
            let mut first: Vec<String> = (0..pre).map(|i| item(&nt(&[format!("p{i}").as_str(), "example"]), "sl:0a000001")).collect();
            // the item that will be dropped: new owner, new names in its RDATA
            first.push(item(&victim, &format!("cd:{} rd:s:{}", hex(&[b'x'; 40]), mail)));
            first.push(item(&nt(&["after", "example"]), "sl:0a000002"));
            ops.push(format!("iter( {} )", first.join(" / ")));
            let second = match variant {
                0 => vec![item(&victim, "sl:0a000003"), item(&sub, "sl:0a000004")],
                1 => vec![item(&upper, "sl:0a000003"), item(&parent, &format!("rd:s:{mail}"))],
                _ => vec![item(&parent, &format!("rd:s:{victim}")), item(&mail, "sl:0a000005")],
            };
            ops.push(format!("iter( {} )", second.join(" / ")));
            ops.push(format!("iter( {} / {} )", item(&victim, "sl:0a000006"), item(&sub, &format!("rd:o:{mail}"))));
            ops.push("rp:000000000000000000000000".into());
            let full = full_len(&ops) as u64;
            for limit in 30..=full + 2 {
                v.push(with_limit(&ops, limit, false));
            }
        }
    }
    v
}

/// `max` = None: unlimited (used to measure the full length)
fn message_script(r: &mut Rng) -> Vec<String> {
    let mut ops = vec![];
    ops.push("pl:12".to_string());
    // question
    if r.chance(4, 5) {
        ops.push(format!("iter( n:d:{} u16:1 u16:1 )", gen_name(r)));
    }
    for _ in 0..r.range(1, 3) {
        let k = match r.below(6) {
            0 => 0,
            1 => r.range(4, 9),
            _ => r.range(1, 3),
        };
        let items: Vec<String> = (0..k).map(|_| record_item(r)).collect();
        ops.push(format!("iter( {} )", items.join(" / ")));
    }
    ops.push(format!("rp:{}", hex(&r.bytes(12))));
    ops
}

fn with_limit(ops: &[String], limit: u64, after_header: bool) -> String {
    let mut v: Vec<String> = ops.to_vec();
    v.insert(if after_header { 1 } else { 0 }, format!("max:{limit}"));
    // lowering the limit below an already reserved place is API misuse: `Place::replace` then
    // asserts instead of returning the error (hickory always sets the limit first)
    let kind = if after_header && limit < 12 { "encx" } else { "enc" };
    format!("{kind} e {}", v.join(" "))
}

fn full_len(ops: &[String]) -> usize {
    let line = format!("enc e {}", ops.join(" "));
    let t: Vec<&str> = line.split_whitespace().collect();
    let Some((_, init, ops)) = parse_line(&t) else { return 64 };
    let mut app = true;
    match catch(|| run_script(&init, &ops, &mut app)) {
        Ok(r) => r.buf.len(),
        Err(_) => 64,
    }
}

fn raw_script(r: &mut Rng) -> String {
    let mut ops = vec![format!("max:{}", r.below(70))];
    let mut open = 0;
    for _ in 0..r.range(1, 25) {
        match r.below(16) {
            0 => ops.push(format!("u8:{}", r.below(256))),
            1 => ops.push(format!("u16:{}", r.below(65536))),
            2 => ops.push(format!("u32:{}", r.next() as u32)),
            3 => {
                let k = r.below(12) as usize;
                ops.push(format!("sl:{}", hex(&r.bytes(k))))
            }
            4 => {
                let k = r.below(12) as usize;
                ops.push(format!("cd:{}", hex(&r.bytes(k))))
            }
            5 => ops.push(format!("cdn:{}:41", r.pick(&[0u32, 1, 254, 255, 256, 300]))),
            6 | 7 => {
                ops.push(format!("pl:{}", r.pick(&["u", "1", "2", "3", "4", "12"])));
                open += 1;
            }
            8 if open > 0 => ops.push("lsp".into()),
            9 | 10 => ops.push(format!("n:{}:{}", mode_tok(r), gen_name(r))),
            11 => ops.push(format!("max:{}", r.below(90))),
            12 => ops.push("trim".into()),
            13 => {
                let items: Vec<String> = (0..r.below(4))
                    .map(|_| {
                        let k = r.below(9) as usize;
                        format!("n:d:{} sl:{}", gen_name(r), hex(&r.bytes(k)))
                    })
                    .collect();
                ops.push(format!("iter( {} )", items.join(" / ")));
            }
            _ => {
                let k = r.below(5) as usize;
                ops.push(format!("sl:{}", hex(&r.bytes(k))))
            }
        }
    }
    // places are not closed: a `Place` may simply be dropped
    format!("enc e {}", ops.join(" "))
}

/// Seeded change C03-r4-2 (first reported only by the broken tie, without an input): names that occur
/// for the first time beyond offset 0x3FFF — where no compression pointer can address them — and are used
/// again later, inside `emit_iter` sections of a message larger than 16 KiB, under limits before, at and
/// behind every later item.  A candidate remembered there yields a pointer to `offset & 0x3FFF`.
fn directed_far_names() -> Vec<String> {
    let nt = |ls: &[&str]| name_from(&ls.iter().map(|l| l.as_bytes().to_vec()).collect::<Vec<_>>()).unwrap();
    let item = |name: &str, rdata: &str| format!("n:d:{name} u16:1 u16:1 u32:60 pl:u {rdata} rpl");
    let mut v = vec![];
    for start in [16360usize, 16383, 16384, 17000, 32768, 49152] {
        let mut ops = vec!["pl:12".to_string(), format!("iter( n:d:{} u16:1 u16:1 )", nt(&["q", "low", "org"]))];
        // one big opaque record moves the offset to `start`
        let big = format!("n:d:{} u16:10 u16:1 u32:60 pl:u fill:{}:00 rpl", nt(&["big", "low", "org"]), start.saturating_sub(60));
        let mut first = vec![big];
        for i in 0..4 {
            first.push(item(&nt(&[format!("h{i}").as_str(), "far", "away", "test"]), "sl:0a000001"));
            first.push(item(&nt(&[format!("l{i}").as_str(), "low", "org"]), &format!("rd:s:{}", nt(&["mx", "far", "away", "test"]))));
        }
        ops.push(format!("iter( {} )", first.join(" / ")));
        ops.push(format!("iter( {} / {} )", item(&nt(&["far", "away", "test"]), "sl:0a000002"), item(&nt(&["www", "far", "away", "test"]), "sl:0a000003")));
        ops.push("rp:000000000000000000000000".into());
        let full = full_len(&ops) as u64;
        for limit in [full + 2, full, full - 1, full - 20, full - 40, full - 80, full - 150, full - 250, 65535] {
            v.push(with_limit(&ops, limit, false));
        }
    }
    v
}

pub fn run(o: &Opts, rec: &mut Recorder) {
    rec.rule = "encoder scripts shaped like emit_message_parts (limit, 12-octet header place, question and 1-3 record sections written with emit_iter, items = owner name/type/class/ttl/RDLENGTH place/rdata/back-patch with A, name, MX, TXT, SRV-like, SOA-like and opaque rdata, occasionally an item failing with a non-size error or containing a nested emit_iter), each script run under limits drawn from 0..full length+2 (thorough: for one script in 12 every limit), plus raw primitive scripts under limits 0-90; a case is non-trivial when at least one write was refused for size (MaxBufferSizeExceeded or NotAllRecordsWritten); distinct by case line.  Stage 2: structured messages (tier-1 RDATA types, shared suffixes, 0-12 or 30-90 records per section, EDNS with/without options, TSIG, extended rcodes) given as wire bytes, re-encoded by Message::emit under every limit around each record boundary, the whole tail of the message and fixed/random limits (small messages: every limit), and sent through ResponseHandle::send_response over UDP (advertised payload none/0/300/512/1232/4096/65535) and TCP; deterministic adversarial messages (full candidate table before the cut, cut inside the additionals with OPT appended, complete 511/512/513-octet EDNS responses, empty-RDATA last record); a message case is non-trivial when at least one limit truncated it.  Coverage-driven families: messages built from values with one record that cannot be encoded for a non-size reason, in every section and position, under limits before / inside / behind it and through the server (SERVFAIL fallback of MessageResponse::encode); every public way to build a MessageResponse (new, edns, soa iterator, no_queries, build_no_records, error_msg with plain and extended codes); the whole server path through the real Catalog::handle_request over an in-memory zone (answers of 0-40000 octets x every advertised payload, NXDOMAIN / NODATA / REFUSED / referral / wildcard / ANY, BADVERS, NOTIMP / FORMERR paths, NSID payloads up to 65535 octets, AXFR up to 80000 octets), judged against the same request over TCP; scripts of more than 16 KiB in which names occur for the first time beyond offset 0x3FFF (16360 … 49152) and are used again in later emit_iter sections, nine limits each".into();
    for l in o.pre_lines.clone() {
        exec(&l, rec);
    }
    rec.corpus_cases = rec.cases.len();
    if o.replay_only {
        return;
    }
    let mut r = Rng::new(o.seed);
    let n = o.n(350, 7000);
    for i in 0..n {
        let ops = message_script(&mut r);
        let full = full_len(&ops) as u64;
        let after_header = r.chance(1, 6);
        if o.thorough() && i % 12 == 0 && full <= 400 {
            for limit in 0..=full + 1 {
                exec(&with_limit(&ops, limit, after_header), rec);
            }
        } else {
            for _ in 0..3 {
                let limit = if r.chance(1, 8) { r.below(14) } else { r.below(full + 3) };
                exec(&with_limit(&ops, limit, after_header), rec);
            }
        }
        for _ in 0..2 {
            exec(&raw_script(&mut r), rec);
        }
    }
    // directed scripts (stage 4): the names a dropped item introduced are used again right behind it
    // (first item of the next `emit_iter`) and in a later one, under every limit
    for l in directed_rollback_scripts() {
        rec.stat("line.enc.directed-rollback-reuse");
        exec(&l, rec);
    }
    for l in directed_far_names() {
        rec.stat("line.enc.directed-far-names");
        exec(&l, rec);
    }
    // ---------------- stage 2: whole messages under limits, and the server's response encoder
    for l in built_in_messages() {
        exec(&l, rec);
    }
    for l in rollback_reuse_messages() {
        rec.stat("line.msg.directed-rollback-reuse");
        exec(&l, rec);
    }
    for l in per_type_cut_messages(o.seed, rec) {
        rec.stat("line.msg.directed-per-type-cut");
        exec(&l, rec);
    }
    // coverage review: a record that cannot be encoded for a reason other than size, in every section
    // and position, under limits before / inside / behind it, and through the server (SERVFAIL fallback);
    // the other public ways to build a MessageResponse; the whole server path through Catalog
    for l in directed_bad_records() {
        rec.stat("line.badrec");
        exec(&l, rec);
    }
    for l in directed_builder_variants(o.seed, rec) {
        rec.stat("line.respb");
        exec(&l, rec);
    }
    for l in directed_catalog() {
        rec.stat("line.cat");
        exec(&l, rec);
    }
    let mut r = Rng::new(o.seed ^ 0x5EC0_4D02);
    let n = o.n(150, 2500);
    for i in 0..n {
        let big = i % 12 == 5;
        let Some(m) = gen_message_tier(&mut r, rec, big) else { continue };
        let Ok(bytes) = m.to_vec() else {
            rec.stat("gen.emit-failed");
            continue;
        };
        let limits: Vec<u16> = if bytes.len() <= 300 && (i % 3 == 1 || o.thorough()) {
            (0..=bytes.len() as u16 + 2).collect()
        } else {
            limits_for(&mut r, &bytes, if o.thorough() { 240 } else { 70 })
        };
        exec(&msg_line(&bytes, &limits), rec);
        if m.queries.len() == 1 && (i % 2 == 0 || big) {
            let h = hex(&bytes);
            for adv in ["-", "512", "1232", "4096", "65535", "300", "0"] {
                if adv == "-" || r.chance(1, 2) || big {
                    exec(&format!("resp udp {adv} {h}"), rec);
                }
            }
            exec(&format!("resp tcp {} {h}", r.pick(&["-", "1232"])), rec);
        }
    }
}

/// `badrec` lines: see `msgemit::bad_message`
fn directed_bad_records() -> Vec<String> {
    let mut v = vec![];
    let kinds = ["good", "txt256", "hinfo256", "naptr256", "caatag256", "svcborder", "alpn0", "mandatory0"];
    for kind in kinds {
        for sec in ["an", "ns", "ar"] {
            for (nb, na) in [(0usize, 0usize), (2, 1), (0, 2)] {
                // header 12 + question 17 = 29; the first A record takes 28 octets, the next ones 20
                let limits: Vec<u32> = if (nb, na) == (2, 1) && sec == "an" {
                    (28..=100).chain([300, 400, 512, 65535]).collect()
                } else {
                    vec![12, 29, 56, 57, 58, 76, 77, 78, 90, 300, 512, 65535]
                };
                for l in limits {
                    v.push(format!("badrec {kind} {sec} {nb} {na} L{l}"));
                }
                for mode in ["udp:-", "udp:1232", "tcp:-", "tcp:4096"] {
                    v.push(format!("badrec {kind} {sec} {nb} {na} {mode}"));
                }
            }
        }
    }
    for kind in ["good", "tsigtime", "tsigmac", "tsigother"] {
        for (nb, na) in [(0usize, 0usize), (2, 1)] {
            for l in [12u32, 29, 57, 77, 97, 140, 160, 512, 65535] {
                v.push(format!("badrec {kind} sig {nb} {na} L{l}"));
            }
            for mode in ["udp:-", "udp:1232", "tcp:-"] {
                v.push(format!("badrec {kind} sig {nb} {na} {mode}"));
            }
        }
    }
    v
}

/// `respb` lines: the same response parts handed to every public way of building a `MessageResponse`
fn directed_builder_variants(seed: u64, rec: &mut Recorder) -> Vec<String> {
    let mut v = vec![];
    let mut r = Rng::new(seed ^ 0xB11D_E201);
    let mut msgs: Vec<Vec<u8>> = vec![];
    let mut tries = 0;
    while msgs.len() < 5 && tries < 200 {
        tries += 1;
        let big = msgs.len() >= 3;
        let Some(m) = gen_message_tier(&mut r, rec, big) else { continue };
        if m.queries.len() != 1 {
            continue;
        }
        if let Ok(b) = m.to_vec() {
            // a small one, medium ones and two that exceed 512 octets
            if (msgs.len() < 3) != (b.len() > 512) {
                msgs.push(b);
            }
        }
    }
    let hows = [
        "new", "edns", "soa", "noq", "norec", "noq-norec", "errmsg:0", "errmsg:2", "errmsg:3", "errmsg:5", "errmsg:16", "errmsg:23", "errmsg:4095",
        "noq-errmsg:1", "noq-errmsg:2", "noq-errmsg:16",
    ];
    for b in &msgs {
        let h = hex(b);
        for how in hows {
            for (proto, adv) in [("udp", "-"), ("udp", "512"), ("udp", "1232"), ("udp", "65535"), ("tcp", "-"), ("tcp", "1232")] {
                v.push(format!("respb {how} {proto} {adv} {h}"));
            }
        }
    }
    v
}

/// `cat` lines: `cat <proto> <adv|-> <DO> <version> <nsid|-> <nrec> <rlen> <qname> <qtype> <op>`
fn directed_catalog() -> Vec<String> {
    let mut v = vec![];
    // answers of 0 .. 40 000 octets against every advertised payload
    for (nrec, rlen) in [(0usize, 0usize), (1, 10), (2, 200), (3, 255), (5, 100), (20, 100), (40, 255), (150, 255)] {
        for (proto, adv) in [("udp", "-"), ("udp", "0"), ("udp", "511"), ("udp", "512"), ("udp", "513"), ("udp", "1232"), ("udp", "4096"), ("udp", "65535"), ("tcp", "-"), ("tcp", "1232")] {
            v.push(format!("cat {proto} {adv} 0 0 - {nrec} {rlen} big 16 q"));
        }
    }
    // sizes around the 512 / 1232 boundaries: n records of r octets -> 12 + 33 + n * (r + 13) (+ 11 for OPT)
    for rlen in 60..=75usize {
        v.push(format!("cat udp - 0 0 - 6 {rlen} big 16 q"));
        v.push(format!("cat udp 512 0 0 - 6 {rlen} big 16 q"));
    }
    for rlen in 100..=110usize {
        v.push(format!("cat udp 1232 1 0 - 10 {rlen} big 16 q"));
    }
    // every kind of outcome: NXDOMAIN / NODATA with the SOA, referral-free apex NS, out of zone (REFUSED),
    // ANY, unsupported EDNS version (BADVERS), NOTIMP opcodes, UPDATE to a zone that takes none, a
    // response sent as a request (FORMERR), NOTIFY
    for (q, qtype) in [("nx", 1u16), ("www", 1), ("www", 28), ("apex", 2), ("apex", 6), ("apex", 255), ("out", 1), ("big", 255), ("big", 1)] {
        for (proto, adv) in [("udp", "-"), ("udp", "512"), ("udp", "1232"), ("tcp", "-")] {
            for dok in [0, 1] {
                v.push(format!("cat {proto} {adv} {dok} 0 - 30 200 {q} {qtype} q"));
            }
        }
    }
    // a referral, a wildcard answer, and zone transfers of 4 / 40 / 80 thousand octets (the last one is
    // more than one TCP message can hold)
    for (q, qtype) in [("ref", 1u16), ("ref", 2), ("wild", 16), ("wild", 1)] {
        for (proto, adv) in [("udp", "-"), ("udp", "1232"), ("tcp", "-")] {
            v.push(format!("cat {proto} {adv} 1 0 - 3 100 {q} {qtype} q"));
        }
    }
    for (nrec, rlen) in [(2usize, 50usize), (15, 255), (150, 255), (300, 255)] {
        for (proto, adv) in [("tcp", "-"), ("tcp", "4096"), ("udp", "-"), ("udp", "65535")] {
            v.push(format!("cat {proto} {adv} 0 0 - {nrec} {rlen} apex 252 q"));
        }
    }
    for ver in [1u8, 255] {
        for adv in ["0", "512", "4096"] {
            v.push(format!("cat udp {adv} 0 {ver} - 30 200 big 16 q"));
        }
    }
    for op in ["u", "s", "n", "r"] {
        for (proto, adv) in [("udp", "-"), ("udp", "1232"), ("tcp", "-")] {
            v.push(format!("cat {proto} {adv} 0 0 - 30 200 apex 6 {op}"));
        }
    }
    // NSID: a payload that fits, one that fills the datagram, one that cannot fit any datagram
    for nsid in [0usize, 8, 400, 480, 490, 500, 1200, 4000, 65535] {
        for (proto, adv) in [("udp", "512"), ("udp", "1232"), ("udp", "65535"), ("tcp", "512")] {
            v.push(format!("cat {proto} {adv} 0 0 {nsid} 2 100 big 16 q"));
            v.push(format!("cat {proto} {adv} 0 0 {nsid} 0 0 nx 1 q"));
        }
    }
    v
}

fn nm(labels: &[&str]) -> Name {
    Name::from_labels(labels.iter().map(|l| l.as_bytes())).unwrap()
}

fn txt(n: usize) -> RData {
    let chunks: Vec<Vec<u8>> = (0..n.div_ceil(200)).map(|i| vec![b'x'; if (i + 1) * 200 <= n { 200 } else { n - i * 200 }]).collect();
    RData::TXT(TXT::from_bytes(chunks.iter().map(|c| &c[..]).collect()))
}

fn a(x: u8) -> RData {
    RData::A(A::new(10, 0, 0, x))
}

fn tsig_record(key: Name) -> Record<hickory_proto::rr::rdata::TSIG> {
    // a well-formed TSIG RDATA (hmac-sha256., 32-octet MAC), decoded from its wire form
    let mut d = vec![];
    d.extend(b"\x0bhmac-sha256\x00");
    d.extend([0, 0, 0x65, 0x4F, 0x1A, 0x00]); // time (48 bits)
    d.extend([1, 44]); // fudge
    d.extend([0, 32]);
    d.extend([0xA5; 32]);
    d.extend([0x12, 0x34, 0, 0, 0, 0]);
    let t = match RData::read(hickory_proto::serialize::binary::BinDecoder::new(&d), RecordType::TSIG) {
        Ok(RData::TSIG(t)) => t,
        other => panic!("TSIG seed does not decode: {other:?}"),
    };
    let mut sig = Record::from_rdata(key, 0, t);
    sig.dns_class = hickory_proto::rr::DNSClass::ANY;
    sig
}

/// Directed family (stage 4): a record dropped by the size limit introduced NEW names, and a LATER
/// record — the first record of the next section ("right behind the dropped record": `emit_iter`
/// ends the section at the cut), a record of a later section, the TSIG record — uses exactly those
/// names again: as the same owner, as a sub-domain, as an NS target, in another letter case.  After
/// the rollback the candidate table must not retain entries at or beyond the rollback offset, with
/// FEW candidates in the table as well as with a full one (built-in family (1)).  Every limit from
/// just before the dropped record to past the end.
fn rollback_reuse_messages() -> Vec<String> {
    let mut v = vec![];
    let victim = ["new", "victim", "example"];
    for pre in [0usize, 4] {
        for drop_sec in 0..3usize {
            for reuse in 0..4usize {
                for tail in 0..2usize {
                    let mut m = Message::new((0x6000 + pre * 64 + drop_sec * 16 + reuse * 2 + tail) as u16, MessageType::Response, OpCode::Query);
                    m.add_query(Query::new(nm(&["q", "example"]), RecordType::A));
                    for i in 0..pre {
                        let h = format!("pre{i}");
                        m.add_answer(Record::from_rdata(nm(&[h.as_str(), "example"]), 60, a(i as u8)));
                    }
                    let cut_from = m.to_vec().unwrap().len();
                    // the record that will be dropped: a new owner name and new names in its RDATA
                    let big = Record::from_rdata(nm(&victim), 60, txt(70));
                    let big2 = Record::from_rdata(nm(&["mx", "victim", "example"]), 60, RData::MX(hickory_proto::rr::rdata::MX::new(10, nm(&["mail", "new", "victim", "example"]))));
                    // later users of those names
                    let user = |k: usize| -> Record {
                        match (reuse + k) % 4 {
                            0 => Record::from_rdata(nm(&victim), 60, a(9)),
                            1 => Record::from_rdata(nm(&["www", "new", "victim", "example"]), 60, a(8)),
                            2 => Record::from_rdata(nm(&["victim", "example"]), 60, RData::NS(NS(nm(&["mail", "new", "victim", "example"])))),
                            _ => Record::from_rdata(nm(&["NEW", "Victim", "example"]), 60, a(7)),
                        }
                    };
                    match drop_sec {
                        0 => {
                            m.add_answer(big);
                            m.add_answer(big2);
                            m.add_authority(user(0));
                            m.add_authority(user(1));
                            m.add_additional(user(2));
                            m.add_additional(user(3));
                        }
                        1 => {
                            m.add_answer(Record::from_rdata(nm(&["q", "example"]), 60, a(1)));
                            m.add_authority(big);
                            m.add_authority(big2);
                            m.add_additional(user(0));
                            m.add_additional(user(1));
                        }
                        _ => {
                            m.add_answer(Record::from_rdata(nm(&["q", "example"]), 60, a(1)));
                            m.add_additional(big);
                            m.add_additional(big2);
                        }
                    }
                    if tail == 1 || drop_sec == 2 {
                        let mut e = Edns::new();
                        e.set_max_payload(1232);
                        m.set_edns(e);
                        // the TSIG key name is one of the names the dropped record introduced
                        let key = match reuse {
                            0 => nm(&victim),
                            1 => nm(&["mail", "new", "victim", "example"]),
                            2 => nm(&["key", "new", "victim", "example"]),
                            _ => nm(&["NEW", "VICTIM", "example"]),
                        };
                        if tail == 1 {
                            m.set_signature(Box::new(tsig_record(key)));
                        }
                    }
                    let bytes = m.to_vec().unwrap();
                    let limits: Vec<u16> = (cut_from as u16 - 2..=bytes.len() as u16 + 2).collect();
                    v.push(msg_line(&bytes, &limits));
                }
            }
        }
    }
    v
}

/// Directed family (stage 4): for EVERY record type with a codec, a response holding a record of that
/// type, a second record with the same owner, an OPT record with options and a TSIG record — encoded
/// under EVERY limit, so that the cut falls at every octet of the record, of the OPT record and of
/// the TSIG record.
fn per_type_cut_messages(seed: u64, rec: &mut Recorder) -> Vec<String> {
    use crate::props::c01;
    let mut r = Rng::new(seed ^ 0xC077_7E57);
    let mut v = vec![];
    let types: Vec<u16> = c01::TIER1.iter().chain(c01::SEEDED.iter()).copied().filter(|t| *t != 41 && *t != 250 && *t != 0).collect();
    for (i, ty) in types.iter().enumerate() {
        let Some(d) = c01::gen_rdata(&mut r, *ty, rec) else { continue };
        let mut m = Message::new(0x7000 + i as u16, MessageType::Response, OpCode::Query);
        m.add_query(Query::new(nm(&["q", "example"]), RecordType::from(*ty)));
        let owner = nm(&["host", "q", "example"]);
        m.add_answer(Record::from_rdata(owner.clone(), 300, d.clone()));
        m.add_answer(Record::from_rdata(owner.clone(), 300, a(1)));
        m.add_additional(Record::from_rdata(nm(&["www", "host", "q", "example"]), 300, d));
        let mut e = Edns::new();
        e.set_max_payload(1232);
        e.set_dnssec_ok(true);
        if i % 2 == 0 {
            e.options_mut().insert(hickory_proto::rr::rdata::opt::EdnsOption::Unknown(65001, vec![1, 2, 3, 4, 5]));
        }
        m.set_edns(e);
        if i % 3 != 2 {
            m.set_signature(Box::new(tsig_record(nm(&["key", "host", "q", "example"]))));
        }
        let Ok(bytes) = m.to_vec() else { continue };
        if bytes.len() > 1400 {
            continue;
        }
        let limits: Vec<u16> = (0..=bytes.len() as u16 + 2).collect();
        v.push(msg_line(&bytes, &limits));
    }
    v
}

/// deterministic adversarial messages, every limit in the interesting stretch
fn built_in_messages() -> Vec<String> {
    let mut v = vec![];
    let base = |id: u16| {
        let mut m = Message::new(id, MessageType::Response, OpCode::Query);
        m.add_query(Query::new(nm(&["q", "example"]), RecordType::A));
        m
    };
    // (1) candidate table full (and nearly full) before the cut; the dropped record introduces a new
    //     name; smaller records in later sections use that name again
    for (distinct, solo) in [(70usize, false), (40, false), (32, false), (31, true), (31, false), (30, true), (30, false), (29, true), (29, false), (28, false)] {
        for with_edns in [false, true] {
            let mut m = base(1);
            if solo {
                // one more candidate: the table holds an odd number before the cut
                m.add_answer(Record::from_rdata(nm(&["solo"]), 60, a(0)));
            }
            for i in 0..distinct {
                let (h, z) = (format!("h{i}"), format!("z{i}"));
                m.add_answer(Record::from_rdata(nm(&[h.as_str(), z.as_str()]), 60, a(i as u8)));
            }
            let cut_from = m.to_vec().unwrap().len();
            m.add_answer(Record::from_rdata(nm(&["new", "victim", "example"]), 60, txt(150)));
            m.add_authority(Record::from_rdata(nm(&["victim", "example"]), 60, RData::NS(NS(nm(&["new", "victim", "example"])))));
            m.add_additional(Record::from_rdata(nm(&["new", "victim", "example"]), 60, a(1)));
            m.add_additional(Record::from_rdata(nm(&["www", "new", "victim", "example"]), 60, a(2)));
            if with_edns {
                m.set_edns(Edns::new());
            }
            let bytes = m.to_vec().unwrap();
            let limits: Vec<u16> = (cut_from as u16 - 2..=bytes.len() as u16 + 2).collect();
            v.push(msg_line(&bytes, &limits));
            v.push(format!("resp udp 4096 {}", hex(&bytes)));
            v.push(format!("resp udp - {}", hex(&bytes)));
        }
    }
    // (2) the cut falls in the additional section and the OPT record still fits afterwards
    for opts in [false, true] {
        let mut m = base(2);
        m.add_answer(Record::from_rdata(nm(&["q", "example"]), 60, a(1)));
        m.add_additional(Record::from_rdata(nm(&["ns1", "example"]), 60, a(2)));
        m.add_additional(Record::from_rdata(nm(&["big", "example"]), 60, txt(90)));
        m.add_additional(Record::from_rdata(nm(&["ns2", "example"]), 60, a(3)));
        let mut e = Edns::new();
        if opts {
            e.options_mut().insert(hickory_proto::rr::rdata::opt::EdnsOption::Unknown(65001, vec![1, 2, 3]));
        }
        m.set_edns(e);
        let bytes = m.to_vec().unwrap();
        let limits: Vec<u16> = (0..=bytes.len() as u16 + 2).collect();
        v.push(msg_line(&bytes, &limits));
    }
    // (3) limits on and around the RDLENGTH of a record with empty RDATA at the very end: an
    //     option-less OPT; a complete EDNS response of exactly 513 / 512 / 511 octets
    for total in [513usize, 512, 511, 1233, 1232] {
        let mut pad = total.saturating_sub(80);
        loop {
            let mut m = base(3);
            m.add_answer(Record::from_rdata(nm(&["q", "example"]), 60, txt(pad)));
            m.set_edns(Edns::new());
            let bytes = m.to_vec().unwrap();
            if bytes.len() == total {
                let limits: Vec<u16> = (total as u16 - 14..=total as u16 + 2).collect();
                v.push(msg_line(&bytes, &limits));
                v.push(format!("resp udp 512 {}", hex(&bytes)));
                v.push(format!("resp udp 1232 {}", hex(&bytes)));
                v.push(format!("resp udp - {}", hex(&bytes)));
                break;
            }
            if bytes.len() > total || pad > total {
                break;
            }
            pad += 1;
        }
    }
    // an RFC 2136 style record with empty RDATA as the last record, no EDNS
    let mut m = Message::new(4, MessageType::Query, OpCode::Update);
    m.add_query(Query::new(nm(&["zone", "example"]), RecordType::SOA));
    m.add_authority(Record::from_rdata(nm(&["a", "zone", "example"]), 60, a(1)));
    m.add_authority(Record::update0(nm(&["b", "zone", "example"]), 0, RecordType::A));
    let bytes = m.to_vec().unwrap();
    let limits: Vec<u16> = (0..=bytes.len() as u16 + 2).collect();
    v.push(msg_line(&bytes, &limits));
    v
}
