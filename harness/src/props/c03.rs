//! C03 — size-limited encoding.  Stage 1: the size-limited buffer, `place`/`replace`, `emit_iter`
//! and its `Rollback`.  Case lines are encoder scripts (see `encscript.rs`) shaped like
//! `emit_message_parts`: a limit, a header place, sections written with `emit_iter` whose items are
//! record-shaped op groups, the header back-patch; plus raw primitive scripts under tiny limits.
//! Oracles (independent of the model): the buffer never grows past the limit in force; after
//! `NotAllRecordsWritten{count}` the buffer equals, byte for byte, the one obtained by emitting only
//! the first `count` items (the rolled-back record leaves no trace); surviving names still decode.
use crate::common::*;
use crate::props::encscript::{self, *};

fn nontrivial(v: &Verdict) -> bool {
    v.log.n_emax + v.log.n_naw >= 1
}

pub fn exec(line: &str, rec: &mut Recorder) {
    encscript::exec(line, rec, nontrivial)
}

const LABELS: &[&str] = &["a", "bb", "Www", "example", "EXAMPLE", "com", "org", "x", "mail", "ns1"];

fn gen_name(r: &mut Rng) -> String {
    let k = r.below(5) as usize;
    let labels: Vec<Vec<u8>> = (0..k).map(|_| r.pick(LABELS).as_bytes().to_vec()).collect();
    name_from(&labels).unwrap_or_else(|| "F:".into())
}

fn rdata_ops(r: &mut Rng, out: &mut Vec<String>) {
    match r.below(7) {
        0 => out.push(format!("sl:{}", hex(&r.bytes(4)))),
        1 => out.push(format!("rd:s:{}", gen_name(r))),
        2 => {
            out.push(format!("u16:{}", r.below(100)));
            out.push(format!("rd:s:{}", gen_name(r)));
        }
        3 => {
            for _ in 0..r.range(1, 3) {
                let k = r.below(40) as usize;
                out.push(format!("cd:{}", hex(&r.bytes(k))));
            }
        }
        4 => {
            out.push(format!("sl:{}", hex(&r.bytes(6))));
            out.push(format!("rd:o:{}", gen_name(r)));
        }
        5 => {
            // SOA-like: two names and five u32
            out.push(format!("rd:s:{}", gen_name(r)));
            out.push(format!("rd:s:{}", gen_name(r)));
            for _ in 0..5 {
                out.push(format!("u32:{}", r.next() as u32));
            }
        }
        _ => {
            let k = r.below(70) as usize;
            out.push(format!("sl:{}", hex(&r.bytes(k))));
        }
    }
}

fn record_item(r: &mut Rng) -> String {
    let mut out = vec![];
    out.push(format!("n:d:{}", gen_name(r)));
    out.push(format!("u16:{}", r.pick(&[1u32, 2, 5, 15, 16, 33, 6])));
    out.push("u16:1".into());
    out.push(format!("u32:{}", r.below(100000)));
    out.push("pl:u".into());
    rdata_ops(r, &mut out);
    out.push("rpl".into());
    match r.below(40) {
        // an item failing with an error other than MaxBufferSizeExceeded: propagates, no rollback
        0 => out.insert(r.below(out.len() as u64) as usize, "cdn:300:41".into()),
        // a nested emit_iter inside the item
        1 => out.push(format!("iter( u8:1 / sl:{} )", hex(&r.bytes(5)))),
        _ => {}
    }
    out.join(" ")
}

/// `max` = None: unlimited (used to measure the full length)
fn message_script(r: &mut Rng) -> Vec<String> {
    let mut ops = vec![];
    ops.push("pl:12".to_string());
    // question
    if r.chance(4, 5) {
        ops.push(format!("iter( n:d:{} u16:1 u16:1 )", gen_name(r)));
    }
    for _ in 0..r.range(1, 3) {
        let k = match r.below(6) {
            0 => 0,
            1 => r.range(4, 9),
            _ => r.range(1, 3),
        };
        let items: Vec<String> = (0..k).map(|_| record_item(r)).collect();
        ops.push(format!("iter( {} )", items.join(" / ")));
    }
    ops.push(format!("rp:{}", hex(&r.bytes(12))));
    ops
}

fn with_limit(ops: &[String], limit: u64, after_header: bool) -> String {
    let mut v: Vec<String> = ops.to_vec();
    v.insert(if after_header { 1 } else { 0 }, format!("max:{limit}"));
    // lowering the limit below an already reserved place is API misuse: `Place::replace` then
    // asserts instead of returning the error (hickory always sets the limit first)
    let kind = if after_header && limit < 12 { "encx" } else { "enc" };
    format!("{kind} e {}", v.join(" "))
}

fn full_len(ops: &[String]) -> usize {
    let line = format!("enc e {}", ops.join(" "));
    let t: Vec<&str> = line.split_whitespace().collect();
    let Some((_, init, ops)) = parse_line(&t) else { return 64 };
    let mut app = true;
    match catch(|| run_script(&init, &ops, &mut app)) {
        Ok(r) => r.buf.len(),
        Err(_) => 64,
    }
}

fn raw_script(r: &mut Rng) -> String {
    let mut ops = vec![format!("max:{}", r.below(70))];
    let mut open = 0;
    for _ in 0..r.range(1, 25) {
        match r.below(16) {
            0 => ops.push(format!("u8:{}", r.below(256))),
            1 => ops.push(format!("u16:{}", r.below(65536))),
            2 => ops.push(format!("u32:{}", r.next() as u32)),
            3 => {
                let k = r.below(12) as usize;
                ops.push(format!("sl:{}", hex(&r.bytes(k))))
            }
            4 => {
                let k = r.below(12) as usize;
                ops.push(format!("cd:{}", hex(&r.bytes(k))))
            }
            5 => ops.push(format!("cdn:{}:41", r.pick(&[0u32, 1, 254, 255, 256, 300]))),
            6 | 7 => {
                ops.push(format!("pl:{}", r.pick(&["u", "1", "2", "3", "4", "12"])));
                open += 1;
            }
            8 if open > 0 => ops.push("lsp".into()),
            9 | 10 => ops.push(format!("n:{}:{}", mode_tok(r), gen_name(r))),
            11 => ops.push(format!("max:{}", r.below(90))),
            12 => ops.push("trim".into()),
            13 => {
                let items: Vec<String> = (0..r.below(4))
                    .map(|_| {
                        let k = r.below(9) as usize;
                        format!("n:d:{} sl:{}", gen_name(r), hex(&r.bytes(k)))
                    })
                    .collect();
                ops.push(format!("iter( {} )", items.join(" / ")));
            }
            _ => {
                let k = r.below(5) as usize;
                ops.push(format!("sl:{}", hex(&r.bytes(k))))
            }
        }
    }
    // places are not closed: a `Place` may simply be dropped
    format!("enc e {}", ops.join(" "))
}

pub fn run(o: &Opts, rec: &mut Recorder) {
    rec.rule = "encoder scripts shaped like emit_message_parts (limit, 12-octet header place, question and 1-3 record sections written with emit_iter, items = owner name/type/class/ttl/RDLENGTH place/rdata/back-patch with A, name, MX, TXT, SRV-like, SOA-like and opaque rdata, occasionally an item failing with a non-size error or containing a nested emit_iter), each script run under limits drawn from 0..full length+2 (thorough: for one script in 12 every limit), plus raw primitive scripts under limits 0-90; a case is non-trivial when at least one write was refused for size (MaxBufferSizeExceeded or NotAllRecordsWritten); distinct by case line".into();
    for l in o.pre_lines.clone() {
        exec(&l, rec);
    }
    rec.corpus_cases = rec.cases.len();
    if o.replay_only {
        return;
    }
    let mut r = Rng::new(o.seed);
    let n = o.n(350, 7000);
    for i in 0..n {
        let ops = message_script(&mut r);
        let full = full_len(&ops) as u64;
        let after_header = r.chance(1, 6);
        if o.thorough() && i % 12 == 0 && full <= 400 {
            for limit in 0..=full + 1 {
                exec(&with_limit(&ops, limit, after_header), rec);
            }
        } else {
            for _ in 0..3 {
                let limit = if r.chance(1, 8) { r.below(14) } else { r.below(full + 3) };
                exec(&with_limit(&ops, limit, after_header), rec);
            }
        }
        for _ in 0..2 {
            exec(&raw_script(&mut r), rec);
        }
    }
}
