//! C18 — pool failover within the deadline.
//!
//! Implementation under test: the real `hickory_resolver::NameServerPool` (`send` → `try_send` →
//! `NameServer::send`) built with the public constructors the upstream pool tests use
//! (`NameServer::new`, `NameServerPool::from_nameservers`) over a scripted `ConnectionProvider`:
//! one scripted `DnsHandle` per (server ip, protocol) whose replies and latencies come from the case
//! line.  Time:
//!
//! * mode `A` (logic): a tiny discrete-event executor drives the pool's futures; every latency and
//!   every back-off sleep (`RuntimeProvider::Timer::delay_for`) is *virtual* and exact, so results,
//!   exchange logs and completion times are compared with the Lean model to the millisecond.  The
//!   pool's deadline is read from `std::time::Instant` (real clock), which does not advance with
//!   virtual time, so mode A cases carry a timeout far above any virtual completion time and only
//!   exercise the deadline-free logic.
//! * mode `B` (deadline): the same executor *paces* virtual time against the real clock (an event
//!   with virtual time `v` fires no earlier than `start + v`), so the pool's real-clock deadline is
//!   live.  Only the result class, the exchange order and a coarse `late` flag are compared with the
//!   model, and only when the run was valid (no event fired more than `J_US` late) and robust (no
//!   decision point within `M_US` of the deadline / of another reply); otherwise the line is `~`.
//!
//! The oracle (property clauses evaluated on the implementation's own log, independent of the
//! model) is in `oracle()`.
use std::cell::RefCell;
use std::collections::{BinaryHeap, HashMap};
use std::future::Future;
use std::io;
use std::net::{IpAddr, Ipv4Addr, SocketAddr};
use std::pin::Pin;
use std::str::FromStr;
use std::sync::atomic::{AtomicBool, Ordering as AO};
use std::sync::{Arc, Mutex};
use std::task::{Context, Poll, Wake, Waker};
use std::time::{Duration, Instant};

use async_trait::async_trait;
use futures_util::future::{self, Either};
use futures_util::stream::{once, Stream};

use hickory_net::runtime::{RuntimeProvider, Time, TokioHandle, TokioRuntimeProvider};
use hickory_net::xfer::{DnsHandle, FirstAnswer};
use hickory_net::{DnsError, NetError, NoRecords};
use hickory_proto::op::{DnsRequest, DnsRequestOptions, DnsResponse, Message, Query, ResponseCode};
use hickory_proto::rr::{Name, RData, Record, RecordType};
use hickory_resolver::config::{
    ConnectionConfig, NameServerConfig, ProtocolConfig, ResolverOpts, ServerOrderingStrategy,
};
use hickory_resolver::{ConnectionProvider, NameServer, NameServerPool, PoolContext, TlsConfig};

use crate::common::*;

// ------------------------------------------------------------------------------------------------
// discrete-event executor (virtual time, optionally paced against the real clock)
// ------------------------------------------------------------------------------------------------

/// max lateness of any event for a paced run to count as a run of the scripted case
const J_US: u64 = 8_000;
/// decision margin below which a paced case is not compared with the model
const M_US: u64 = 25_000;
/// tolerance of the deadline oracle (real clock)
const TOL_US: u64 = 40_000;

struct Sim {
    now_us: u64,
    seq: u64,
    timers: BinaryHeap<std::cmp::Reverse<(u64, u64)>>,
    wakers: HashMap<u64, Waker>,
    pace: Option<Instant>,
    max_late_us: u64,
    /// completed Timer::delay_for sleeps that were started while no request was in flight, i.e. the
    /// back-off sleeps (the others are the per-reply deadline timers): (virtual start, requested µs)
    delays: Vec<(u64, u64)>,
    /// deadline timers that fired: (virtual start, requested µs)
    cuts: Vec<(u64, u64)>,
    /// scripted requests started and neither answered nor dropped yet
    inflight: u64,
}

impl Sim {
    fn new() -> Self {
        Self { now_us: 0, seq: 0, timers: BinaryHeap::new(), wakers: HashMap::new(), pace: None, max_late_us: 0, delays: vec![], cuts: vec![], inflight: 0 }
    }
}

thread_local! {
    static SIM: RefCell<Sim> = RefCell::new(Sim::new());
    /// `runf`: the answer address filter denies the network of the UDP answers / of the TCP answers
    static DENY: std::cell::Cell<Option<(bool, bool)>> = const { std::cell::Cell::new(None) };
    /// payload of the last `NoRecordsFound` error classified: (authority records, glue records)
    static LAST_NR: std::cell::Cell<Option<(usize, usize)>> = const { std::cell::Cell::new(None) };
}

fn sim_now() -> u64 {
    SIM.with(|s| s.borrow().now_us)
}

/// real offset since the start of the paced run (µs); virtual now when not paced
fn real_off() -> u64 {
    SIM.with(|s| {
        let s = s.borrow();
        match s.pace {
            Some(t0) => t0.elapsed().as_micros() as u64,
            None => s.now_us,
        }
    })
}

struct VSleep {
    deadline: u64,
    id: Option<u64>,
}

impl VSleep {
    /// sleeps `d_us` of virtual time from the current virtual instant
    fn after(d_us: u64) -> Self {
        Self { deadline: sim_now() + d_us, id: None }
    }
    fn until(t_us: u64) -> Self {
        Self { deadline: t_us, id: None }
    }
}

impl Future for VSleep {
    type Output = ();
    fn poll(mut self: Pin<&mut Self>, cx: &mut Context<'_>) -> Poll<()> {
        SIM.with(|s| {
            let mut s = s.borrow_mut();
            if s.now_us >= self.deadline {
                if let Some(id) = self.id.take() {
                    s.wakers.remove(&id);
                }
                return Poll::Ready(());
            }
            match self.id {
                Some(id) => {
                    s.wakers.insert(id, cx.waker().clone());
                }
                None => {
                    s.seq += 1;
                    let id = s.seq;
                    s.timers.push(std::cmp::Reverse((self.deadline, id)));
                    s.wakers.insert(id, cx.waker().clone());
                    self.id = Some(id);
                }
            }
            Poll::Pending
        })
    }
}

impl Drop for VSleep {
    fn drop(&mut self) {
        if let Some(id) = self.id.take() {
            // a cancelled timer must not advance the clock
            let _ = SIM.try_with(|s| {
                if let Ok(mut s) = s.try_borrow_mut() {
                    s.wakers.remove(&id);
                }
            });
        }
    }
}

struct Flag(AtomicBool);
impl Wake for Flag {
    fn wake(self: Arc<Self>) {
        self.0.store(true, AO::SeqCst);
    }
    fn wake_by_ref(self: &Arc<Self>) {
        self.0.store(true, AO::SeqCst);
    }
}

#[derive(Debug)]
enum SimErr {
    /// the future is pending and no timer is armed
    Deadlock,
    /// more than `max_fires` timers fired
    Runaway,
}

/// Drives `fut` to completion on the calling thread.
fn sim_run<F: Future>(fut: F, paced: bool, max_fires: usize) -> Result<F::Output, SimErr> {
    SIM.with(|s| {
        let mut s = s.borrow_mut();
        *s = Sim::new();
        if paced {
            s.pace = Some(Instant::now());
        }
    });
    let flag = Arc::new(Flag(AtomicBool::new(false)));
    let waker = Waker::from(flag.clone());
    let mut cx = Context::from_waker(&waker);
    let mut fut = std::pin::pin!(fut);
    let mut fires = 0usize;
    loop {
        flag.0.store(false, AO::SeqCst);
        if let Poll::Ready(v) = fut.as_mut().poll(&mut cx) {
            return Ok(v);
        }
        if flag.0.load(AO::SeqCst) {
            continue;
        }
        // quiescent: advance virtual time to the next live timer
        let next = SIM.with(|s| {
            let mut s = s.borrow_mut();
            loop {
                match s.timers.pop() {
                    None => return None,
                    Some(std::cmp::Reverse((dl, id))) => {
                        if s.wakers.contains_key(&id) {
                            return Some((dl, id, s.pace));
                        }
                    }
                }
            }
        });
        let Some((dl, id, pace)) = next else { return Err(SimErr::Deadlock) };
        fires += 1;
        if fires > max_fires {
            return Err(SimErr::Runaway);
        }
        if let Some(t0) = pace {
            let target = t0 + Duration::from_micros(dl);
            let now = Instant::now();
            if target > now {
                std::thread::sleep(target - now);
            }
            let late = Instant::now().saturating_duration_since(target).as_micros() as u64;
            SIM.with(|s| {
                let mut s = s.borrow_mut();
                s.max_late_us = s.max_late_us.max(late);
            });
        }
        let w = SIM.with(|s| {
            let mut s = s.borrow_mut();
            s.now_us = s.now_us.max(dl);
            s.wakers.remove(&id)
        });
        if let Some(w) = w {
            w.wake();
        }
    }
}

// ------------------------------------------------------------------------------------------------
// scripted RuntimeProvider / ConnectionProvider / DnsHandle
// ------------------------------------------------------------------------------------------------

#[derive(Clone, Copy)]
pub struct SimTime;

#[async_trait]
impl Time for SimTime {
    async fn delay_for(duration: Duration) {
        // the pool's back-off sleep.  Like tokio's sleep it never returns early on the real clock:
        // in paced mode it is anchored at the real offset, which re-synchronises virtual time.
        let d = duration.as_micros() as u64;
        let (v, base, racing) = SIM.with(|s| {
            let s = s.borrow();
            let v = s.now_us;
            let base = match s.pace {
                Some(t0) => v.max(t0.elapsed().as_micros() as u64),
                None => v,
            };
            (v, base, s.inflight > 0)
        });
        VSleep::until(base.saturating_add(d)).await;
        // only sleeps that ran to their end are recorded (a deadline timer is dropped when a reply wins)
        SIM.with(|s| {
            let mut s = s.borrow_mut();
            if racing {
                s.cuts.push((v, d));
            } else {
                s.delays.push((v, d));
            }
        });
    }

    async fn timeout<F: 'static + Future + Send>(duration: Duration, future: F) -> Result<F::Output, io::Error> {
        let sleep = VSleep::after(duration.as_micros() as u64);
        match future::select(Box::pin(future), sleep).await {
            Either::Left((v, _)) => Ok(v),
            Either::Right(_) => Err(io::Error::new(io::ErrorKind::TimedOut, "future timed out")),
        }
    }
}

#[derive(Clone)]
pub struct SimRuntime;

impl RuntimeProvider for SimRuntime {
    type Handle = TokioHandle;
    type Timer = SimTime;
    type Udp = <TokioRuntimeProvider as RuntimeProvider>::Udp;
    type Tcp = <TokioRuntimeProvider as RuntimeProvider>::Tcp;

    fn create_handle(&self) -> Self::Handle {
        TokioHandle::default()
    }
    fn connect_tcp(
        &self,
        _server_addr: SocketAddr,
        _bind_addr: Option<SocketAddr>,
        _timeout: Option<Duration>,
    ) -> Pin<Box<dyn Send + Future<Output = Result<Self::Tcp, io::Error>>>> {
        Box::pin(async { Err(io::Error::other("scripted pool: no sockets")) })
    }
    fn bind_udp(
        &self,
        _local_addr: SocketAddr,
        _server_addr: SocketAddr,
    ) -> Pin<Box<dyn Send + Future<Output = Result<Self::Udp, io::Error>>>> {
        Box::pin(async { Err(io::Error::other("scripted pool: no sockets")) })
    }
}

#[derive(Clone, Copy, PartialEq, Eq, Debug)]
enum Rep {
    Ans,
    Nx,
    Nd,
    Sf,
    Rf,
    Tc,
    To,
    Io,
    Rst,
    Busy,
    Cm,
    /// establishing the connection fails
    Cf,
}

impl Rep {
    fn parse(s: &str) -> Option<Self> {
        Some(match s {
            "ans" => Self::Ans,
            "nx" => Self::Nx,
            "nd" => Self::Nd,
            "sf" => Self::Sf,
            "rf" => Self::Rf,
            "tc" => Self::Tc,
            "to" => Self::To,
            "io" => Self::Io,
            "rst" => Self::Rst,
            "busy" => Self::Busy,
            "cm" => Self::Cm,
            "cf" => Self::Cf,
            _ => return None,
        })
    }
    fn tok(self) -> &'static str {
        match self {
            Self::Ans => "ans",
            Self::Nx => "nx",
            Self::Nd => "nd",
            Self::Sf => "sf",
            Self::Rf => "rf",
            Self::Tc => "tc",
            Self::To => "to",
            Self::Io => "io",
            Self::Rst => "rst",
            Self::Busy => "busy",
            Self::Cm => "cm",
            Self::Cf => "cf",
        }
    }
    /// transport faults of the property: unreachable / reset / timeout / busy back-pressure
    fn is_fault(self) -> bool {
        matches!(self, Self::To | Self::Io | Self::Rst | Self::Busy | Self::Cf)
    }
}

#[derive(Clone, Copy, Debug)]
struct Step {
    rep: Rep,
    lat_ms: u64,
}

#[derive(Clone, Debug)]
struct Srv {
    trust: bool,
    warm: u32,
    pre_udp: bool,
    pre_tcp: bool,
    udp: Option<Vec<Step>>,
    tcp: Option<Vec<Step>>,
    /// bit 0: protocols configured TCP first; bit 1: pre-established connections handed over TCP first
    ord: u8,
}

#[derive(Clone, Copy, PartialEq, Eq, Debug)]
enum Strat {
    User,
    Rr,
    Qs,
}

#[derive(Clone, Debug)]
struct Case {
    paced: bool,
    strat: Strat,
    ncr: usize,
    t_ms: u64,
    pre: usize,
    k: usize,
    /// creator cancelled at `.0` ms, a new caller joins at `.1` ms
    cx: Option<(u64, u64)>,
    srvs: Vec<Srv>,
}

#[derive(Clone, Debug)]
struct Ex {
    srv: usize,
    tcp: bool,
    start_us: u64,
    end_us: Option<u64>,
    rep: Rep,
    lat_us: u64,
}

struct Env {
    srvs: Vec<Srv>,
    pos: Mutex<Vec<[usize; 2]>>,
    log: Mutex<Vec<Ex>>,
    new_conns: Mutex<Vec<(usize, bool)>>,
    /// reaction lateness (paced): real offset − virtual now at exchange start
    react_late_us: Mutex<u64>,
    /// warm-up traffic in progress: scripts are not consumed
    warming: AtomicBool,
}

#[derive(Clone)]
struct Prov {
    env: Arc<Env>,
}

#[derive(Clone)]
struct Handle {
    env: Arc<Env>,
    srv: usize,
    tcp: bool,
}

fn ip_of(i: usize) -> IpAddr {
    IpAddr::V4(Ipv4Addr::new(10, 0, 0, i as u8 + 1))
}
fn srv_of(ip: IpAddr) -> usize {
    match ip {
        IpAddr::V4(v) => v.octets()[3] as usize - 1,
        _ => 0,
    }
}

impl ConnectionProvider for Prov {
    type Conn = Handle;
    type FutureConn = Pin<Box<dyn Future<Output = Result<Handle, NetError>> + Send>>;
    type RuntimeProvider = SimRuntime;

    fn new_connection(&self, ip: IpAddr, config: &ConnectionConfig, _cx: &PoolContext) -> Result<Self::FutureConn, NetError> {
        let tcp = !matches!(config.protocol, ProtocolConfig::Udp);
        let srv = srv_of(ip);
        let env = self.env.clone();
        env.new_conns.lock().unwrap().push((srv, tcp));
        // a scripted `cf` step: this connection attempt fails (at once when its latency is 0, otherwise
        // after the latency); it consumes the step like an exchange would
        let step = {
            let script = if tcp { env.srvs[srv].tcp.as_ref() } else { env.srvs[srv].udp.as_ref() };
            let mut pos = env.pos.lock().unwrap();
            let p = &mut pos[srv][tcp as usize];
            match script.map(|sc| sc[(*p).min(sc.len() - 1)]) {
                Some(st) if st.rep == Rep::Cf && !env.warming.load(AO::SeqCst) => {
                    *p += 1;
                    Some(st)
                }
                _ => None,
            }
        };
        let Some(step) = step else {
            return Ok(Box::pin(future::ready(Ok(Handle { env, srv, tcp }))));
        };
        let start = sim_now();
        let idx = {
            let mut log = env.log.lock().unwrap();
            log.push(Ex { srv, tcp, start_us: start, end_us: None, rep: Rep::Cf, lat_us: step.lat_ms * 1000 });
            log.len() - 1
        };
        if step.lat_ms == 0 {
            env.log.lock().unwrap()[idx].end_us = Some(start);
            return Err(io_err(io::ErrorKind::ConnectionRefused));
        }
        SIM.with(|s| s.borrow_mut().inflight += 1);
        let guard = InFlight;
        Ok(Box::pin(async move {
            let _guard = guard;
            VSleep::until(start + step.lat_ms * 1000).await;
            env.log.lock().unwrap()[idx].end_us = Some(sim_now());
            Err(io_err(io::ErrorKind::ConnectionRefused))
        }))
    }

    fn runtime_provider(&self) -> &Self::RuntimeProvider {
        &SimRuntime
    }
}

fn warm_name() -> Name {
    Name::from_str("warm.test.").unwrap()
}
fn q_name() -> Name {
    Name::from_str("q.test.").unwrap()
}

fn io_err(kind: io::ErrorKind) -> NetError {
    NetError::from(io::Error::new(kind, "scripted"))
}

fn reply(rep: Rep, srv: usize, tcp: bool, request: &DnsRequest) -> Result<DnsResponse, NetError> {
    let query = request.queries.first().cloned().unwrap_or_else(Query::root);
    let mut m = Message::query();
    m.metadata.id = request.metadata.id;
    m.add_query(query.clone());
    let mut m = m.into_response();
    match rep {
        Rep::Ans => {
            m.add_answer(Record::from_rdata(
                query.name.clone(),
                60,
                RData::A(Ipv4Addr::new(10, if tcp { 2 } else { 1 }, srv as u8, 1).into()),
            ));
            if DENY.with(|d| d.get()).is_some() {
                // records the filter looks at without removing them: an IPv6 address and a non-address record
                m.add_additional(Record::from_rdata(query.name.clone(), 60, RData::AAAA(std::net::Ipv6Addr::new(0x2001, 0xdb8, 0, 0, 0, 0, 0, 1).into())));
                m.add_additional(Record::from_rdata(query.name.clone(), 60, RData::TXT(hickory_proto::rr::rdata::TXT::new(vec!["x".to_string()]))));
            }
        }
        Rep::Nx => {
            m.metadata.response_code = ResponseCode::NXDomain;
            if DENY.with(|d| d.get()).is_some() {
                // a referral-shaped negative answer: NS + an address record in the authority section, two
                // glue addresses (one in the network of the UDP answers, one in that of the TCP answers)
                let zone = Name::from_str("test.").unwrap();
                let ns1 = Name::from_str("ns1.test.").unwrap();
                m.add_authority(Record::from_rdata(zone, 60, RData::NS(hickory_proto::rr::rdata::NS(ns1.clone()))));
                m.add_authority(Record::from_rdata(Name::from_str("x.test.").unwrap(), 60, RData::A(Ipv4Addr::new(10, 1, 9, 9).into())));
                m.add_additional(Record::from_rdata(ns1.clone(), 60, RData::A(Ipv4Addr::new(10, 1, 9, 1).into())));
                m.add_additional(Record::from_rdata(ns1, 60, RData::A(Ipv4Addr::new(10, 2, 9, 1).into())));
            }
        }
        Rep::Nd => {}
        Rep::Sf => m.metadata.response_code = ResponseCode::ServFail,
        Rep::Rf => m.metadata.response_code = ResponseCode::Refused,
        Rep::Tc => m.metadata.truncation = true,
        Rep::To => return Err(NetError::Timeout),
        Rep::Io | Rep::Cf => return Err(io_err(io::ErrorKind::ConnectionRefused)),
        Rep::Rst => return Err(io_err(io::ErrorKind::ConnectionReset)),
        Rep::Busy => return Err(NetError::Busy),
        Rep::Cm => return Err(NetError::QueryCaseMismatch),
    }
    DnsResponse::from_message(m).map_err(NetError::from)
}

/// counts a scripted request as in flight until it is answered or its future is dropped
struct InFlight;
impl Drop for InFlight {
    fn drop(&mut self) {
        let _ = SIM.try_with(|s| {
            if let Ok(mut s) = s.try_borrow_mut() {
                s.inflight = s.inflight.saturating_sub(1);
            }
        });
    }
}

impl DnsHandle for Handle {
    type Response = Pin<Box<dyn Stream<Item = Result<DnsResponse, NetError>> + Send>>;
    type Runtime = SimRuntime;

    fn send(&self, request: DnsRequest) -> Self::Response {
        let is_warm = request.queries.first().map(|q| q.name == warm_name()).unwrap_or(false);
        if is_warm {
            // warm-up traffic (round-robin counter / SRTT ranks): an immediate transport error that
            // consumes no script step and leaves no live connection behind
            return Box::pin(once(future::ready(Err(io_err(io::ErrorKind::ConnectionRefused)))));
        }
        let (srv, tcp, env) = (self.srv, self.tcp, self.env.clone());
        let step = {
            let script = if tcp { env.srvs[srv].tcp.as_ref() } else { env.srvs[srv].udp.as_ref() };
            let script = script.expect("exchange on an unconfigured protocol");
            let mut pos = env.pos.lock().unwrap();
            let p = &mut pos[srv][tcp as usize];
            let st = script[(*p).min(script.len() - 1)];
            *p += 1;
            st
        };
        let start = sim_now();
        {
            let late = real_off().saturating_sub(start);
            let mut r = env.react_late_us.lock().unwrap();
            *r = (*r).max(late);
        }
        let idx = {
            let mut log = env.log.lock().unwrap();
            log.push(Ex { srv, tcp, start_us: start, end_us: None, rep: step.rep, lat_us: step.lat_ms * 1000 });
            log.len() - 1
        };
        SIM.with(|s| s.borrow_mut().inflight += 1);
        let guard = InFlight;
        Box::pin(once(async move {
            let _guard = guard;
            VSleep::until(start + step.lat_ms * 1000).await;
            env.log.lock().unwrap()[idx].end_us = Some(sim_now());
            reply(step.rep, srv, tcp, &request)
        }))
    }
}

// ------------------------------------------------------------------------------------------------
// case lines
// ------------------------------------------------------------------------------------------------

fn parse_script(s: &str) -> Option<Option<Vec<Step>>> {
    if s == "-" {
        return Some(None);
    }
    let mut v = vec![];
    for st in s.split('.') {
        let cut = st.find(|c: char| c.is_ascii_digit())?;
        let rep = Rep::parse(&st[..cut])?;
        let lat_ms: u64 = st[cut..].parse().ok()?;
        if lat_ms > 100_000 {
            return None;
        }
        v.push(Step { rep, lat_ms });
    }
    if v.is_empty() || v.len() > 8 {
        return None;
    }
    Some(Some(v))
}

fn parse_srv(s: &str) -> Option<Srv> {
    let p: Vec<&str> = s.split('/').collect();
    if p.len() != 5 {
        return None;
    }
    let trust = match p[0] {
        "1" => true,
        "0" => false,
        _ => return None,
    };
    let warm: u32 = p[1].parse().ok()?;
    let (cfg_tcp_first, pre_tok) = match p[2].strip_prefix('~') {
        Some(rest) => (true, rest),
        None => (false, p[2]),
    };
    let (pre_udp, pre_tcp, pre_tcp_first) = match pre_tok {
        "-" => (false, false, false),
        "u" => (true, false, false),
        "t" => (false, true, false),
        "ut" => (true, true, false),
        "tu" => (true, true, true),
        _ => return None,
    };
    let ord = cfg_tcp_first as u8 | (pre_tcp_first as u8) << 1;
    let udp = parse_script(p[3])?;
    let tcp = parse_script(p[4])?;
    if udp.is_none() && tcp.is_none() {
        return None;
    }
    if (pre_udp && udp.is_none()) || (pre_tcp && tcp.is_none()) || warm > 8 {
        return None;
    }
    Some(Srv { trust, warm, pre_udp, pre_tcp, udp, tcp, ord })
}

/// `run <A|B> <user|rr|qs> <ncr> <T ms> <pre> <k> <-|c<ms>j<ms>> <srv>...`
fn parse_case(t: &[&str]) -> Option<Case> {
    if t.len() < 9 || t[0] != "run" {
        return None;
    }
    let paced = match t[1] {
        "A" => false,
        "B" => true,
        _ => return None,
    };
    let strat = match t[2] {
        "user" => Strat::User,
        "rr" => Strat::Rr,
        "qs" => Strat::Qs,
        _ => return None,
    };
    let ncr: usize = t[3].parse().ok()?;
    let t_ms: u64 = t[4].parse().ok()?;
    let pre: usize = t[5].parse().ok()?;
    let k: usize = t[6].parse().ok()?;
    let cx = if t[7] == "-" {
        None
    } else {
        let s = t[7].strip_prefix('c')?;
        let (a, b) = s.split_once('j')?;
        Some((a.parse().ok()?, b.parse().ok()?))
    };
    let srvs: Option<Vec<Srv>> = t[8..].iter().map(|s| parse_srv(s)).collect();
    let srvs = srvs?;
    if srvs.is_empty() || srvs.len() > 8 || k == 0 || k > 8 || ncr > 8 || pre > 16 || t_ms == 0 {
        return None;
    }
    let any_pre = srvs.iter().any(|s| s.pre_udp || s.pre_tcp);
    let any_warm = srvs.iter().any(|s| s.warm > 0);
    // warm-up traffic kills the connection it used: pre-established connections are only scripted
    // without warm-up (keeps the model's connection state exact)
    if any_pre && (any_warm || pre > 0) {
        return None;
    }
    if any_warm && strat != Strat::Qs {
        return None;
    }
    if pre > 0 && strat != Strat::Rr {
        return None;
    }
    if let Some((c, j)) = cx {
        // restricted scenario (see Model/Pool.lean `runCancel`): stateless scripts, plain order
        if j <= c || strat != Strat::User || any_pre {
            return None;
        }
        let ok = |s: &Option<Vec<Step>>, tcp: bool| {
            s.as_ref().map(|v| v.len() == 1 && v[0].rep != Rep::Rst && !(tcp && matches!(v[0].rep, Rep::Tc | Rep::Cm))).unwrap_or(true)
        };
        if !srvs.iter().all(|s| (s.udp.is_none() || s.tcp.is_none()) && ok(&s.udp, false) && ok(&s.tcp, true)) {
            return None;
        }
    }
    Some(Case { paced, strat, ncr, t_ms, pre, k, cx, srvs })
}

fn script_tok(s: &Option<Vec<Step>>) -> String {
    match s {
        None => "-".into(),
        Some(v) => v.iter().map(|st| format!("{}{}", st.rep.tok(), st.lat_ms)).collect::<Vec<_>>().join("."),
    }
}

fn srv_tok(s: &Srv) -> String {
    let pre = match (s.pre_udp, s.pre_tcp) {
        (false, false) => "-",
        (true, false) => "u",
        (false, true) => "t",
        (true, true) if s.ord & 2 != 0 => "tu",
        (true, true) => "ut",
    };
    format!("{}/{}/{}{}/{}/{}", b(s.trust), s.warm, if s.ord & 1 != 0 { "~" } else { "" }, pre, script_tok(&s.udp), script_tok(&s.tcp))
}

fn case_line(c: &Case) -> String {
    let strat = match c.strat {
        Strat::User => "user",
        Strat::Rr => "rr",
        Strat::Qs => "qs",
    };
    let cx = match c.cx {
        None => "-".to_string(),
        Some((a, bb)) => format!("c{a}j{bb}"),
    };
    let mut s = format!("run {} {} {} {} {} {} {}", if c.paced { "B" } else { "A" }, strat, c.ncr, c.t_ms, c.pre, c.k, cx);
    for sv in &c.srvs {
        s.push(' ');
        s.push_str(&srv_tok(sv));
    }
    s
}

// ------------------------------------------------------------------------------------------------
// running one case on the real pool
// ------------------------------------------------------------------------------------------------

fn classify(r: &Result<DnsResponse, NetError>) -> String {
    LAST_NR.with(|l| l.set(None));
    match r {
        Ok(resp) => {
            for rec in &resp.answers {
                if let RData::A(a) = &rec.data {
                    let o = a.0.octets();
                    return format!("ans:s{}{}", o[2], if o[1] == 2 { "t" } else { "u" });
                }
            }
            if resp.truncation { "ok:tc".into() } else { "ok:empty".into() }
        }
        Err(e) => match e {
            NetError::Timeout => "err:timeout".into(),
            NetError::Busy => "err:busy".into(),
            NetError::NoConnections => "err:noconn".into(),
            NetError::Io(_) => "err:io".into(),
            NetError::Msg(_) | NetError::Message(_) => "err:msg".into(),
            NetError::QueryCaseMismatch => "err:cm".into(),
            NetError::Dns(DnsError::NoRecordsFound(nr)) => {
                let aut = nr.authorities.as_ref().map(|a| a.len()).unwrap_or(0);
                let glue = nr.ns.as_ref().map(|n| n.iter().map(|f| f.glue.len()).sum::<usize>()).unwrap_or(0);
                LAST_NR.with(|l| l.set(Some((aut, glue))));
                match nr.response_code {
                    ResponseCode::NXDomain => "err:nx".into(),
                    ResponseCode::NoError => "err:nodata".into(),
                    _ => "err:norecords".into(),
                }
            }
            NetError::Dns(DnsError::ResponseCode(_)) => "err:rcode".into(),
            _ => "err:other".into(),
        },
    }
}

struct RunOut {
    /// per caller: (class, completion µs virtual, completion µs real offset)
    callers: Vec<(String, u64, u64)>,
    /// cancel scenario: creator's result if it finished before the cancellation; joiner's result
    creator: Option<Option<(String, u64)>>,
    joiner: Option<(String, u64)>,
    log: Vec<Ex>,
    delays: Vec<(u64, u64)>,
    cuts: Vec<(u64, u64)>,
    max_late_us: u64,
    new_conns: usize,
}

// ------------------------------------------------------------------------------------------------
// small entry points: a request without a question; the retry layer over a plain scripted handle
// ------------------------------------------------------------------------------------------------

/// `noq`: `NameServerPool::send` with a request that has no query: an error, no upstream exchange
fn exec_noq(line: &str, rec: &mut Recorder) {
    rec.stat("noq_request_without_query");
    let r = catch(|| -> Result<(String, usize), String> {
        let c = Case {
            paced: false,
            strat: Strat::User,
            ncr: 2,
            t_ms: BIG_T,
            pre: 0,
            k: 1,
            cx: None,
            srvs: vec![Srv { trust: true, warm: 0, pre_udp: false, pre_tcp: false, udp: Some(vec![Step { rep: Rep::Ans, lat_ms: 5 }]), tcp: None, ord: 0 }],
        };
        let (env, pool) = build_pool(&c)?;
        let req = DnsRequest::from(Message::query());
        let out = sim_run(async { pool.send(req).first_answer().await }, false, 100).map_err(|e| format!("{e:?}"))?;
        let n = env.log.lock().unwrap().len();
        Ok((classify(&out), n))
    });
    match r {
        Ok(Ok((class, n))) => {
            let idx = rec.case(line.to_string(), format!("{class} ex={n}"));
            if !class.starts_with("err:") || n != 0 {
                rec.fail(idx, format!("a request without a query must end with an error and no upstream exchange: {class}, {n} exchanges"), "");
            }
        }
        Ok(Err(e)) | Err(e) => {
            let idx = rec.case(line.to_string(), format!("panic {}", e.replace(char::is_whitespace, "_")));
            rec.fail(idx, format!("request without a query: {e}"), "");
        }
    }
}

#[derive(Clone)]
struct PlainHandle {
    outs: Arc<Vec<String>>,
    sent: Arc<std::sync::atomic::AtomicUsize>,
}

impl DnsHandle for PlainHandle {
    type Response = Pin<Box<dyn Stream<Item = Result<DnsResponse, NetError>> + Send>>;
    type Runtime = SimRuntime;
    fn send(&self, request: DnsRequest) -> Self::Response {
        let i = self.sent.fetch_add(1, AO::SeqCst);
        let o = self.outs[i.min(self.outs.len() - 1)].clone();
        let query = request.queries.first().cloned().unwrap_or_else(Query::root);
        let r = match o.as_str() {
            "ans" => reply(Rep::Ans, 0, false, &request),
            "noconn" => Err(NetError::NoConnections),
            "timeout" => Err(NetError::Timeout),
            "io" => Err(io_err(io::ErrorKind::ConnectionRefused)),
            "busy" => Err(NetError::Busy),
            "msg" => Err(NetError::from("scripted")),
            "nx" => Err(NoRecords::new(Box::new(query), ResponseCode::NXDomain).into()),
            "nodata" => Err(NoRecords::new(Box::new(query), ResponseCode::NoError).into()),
            _ => Err(NetError::Dns(DnsError::ResponseCode(ResponseCode::ServFail))),
        };
        Box::pin(once(future::ready(r)))
    }
}

/// `rt <attempts> <out>...`: `RetryDnsHandle` over a plain handle whose successive sends yield the given
/// results (the last repeating, never `busy`: a handle that stays busy is re-sent for ever)
fn exec_rt(line: &str, t: &[&str], rec: &mut Recorder) {
    const OUTS: [&str; 9] = ["ans", "noconn", "timeout", "io", "busy", "msg", "nx", "nodata", "rcode"];
    let att = t.get(1).and_then(|x| x.parse::<usize>().ok());
    let outs: Vec<String> = t.iter().skip(2).map(|x| x.to_string()).collect();
    let ok = att.map(|a| a <= 6).unwrap_or(false) && !outs.is_empty() && outs.len() <= 12 && outs.iter().all(|o| OUTS.contains(&o.as_str())) && outs.last().map(|o| o != "busy").unwrap_or(false);
    if !ok {
        rec.case(line.to_string(), "bad-op".into());
        rec.stat("bad-op");
        return;
    }
    rec.stat("rt_retry_over_plain_handle");
    let sent = Arc::new(std::sync::atomic::AtomicUsize::new(0));
    let h = PlainHandle { outs: Arc::new(outs.clone()), sent: sent.clone() };
    let r = catch(|| {
        let req = DnsRequest::from_query(Query::new(q_name(), RecordType::A), DnsRequestOptions::default());
        sim_run(async { hickory_net::xfer::RetryDnsHandle::new(h, att.unwrap()).send(req).first_answer().await }, false, 100)
    });
    match r {
        Ok(Ok(out)) => {
            let class = classify(&out);
            let class = if class.starts_with("ans:") { "ans".to_string() } else { class };
            let n = sent.load(AO::SeqCst);
            let idx = rec.case(line.to_string(), format!("{class} sends={n}"));
            if n > 1 {
                rec.nontrivial(idx);
            }
            // never more sends than attempts + 1, not counting the busy ones
            let busy = outs.iter().take(n).filter(|o| *o == "busy").count();
            if n - busy.min(n) > att.unwrap() + 1 {
                rec.fail(idx, format!("{n} sends ({busy} of them answered busy) for attempts = {}", att.unwrap()), "");
            }
        }
        Ok(Err(e)) => {
            let idx = rec.case(line.to_string(), format!("hang {e:?}"));
            rec.fail(idx, format!("retry handle did not complete: {e:?}"), "");
        }
        Err(p) => {
            let idx = rec.case(line.to_string(), format!("panic {}", p.replace(char::is_whitespace, "_")));
            rec.fail(idx, format!("retry handle panicked: {p}"), "");
        }
    }
}

// ------------------------------------------------------------------------------------------------
// the sharing clause, task by task: explicit schedules over a GATED scripted provider
// ------------------------------------------------------------------------------------------------

/// upstream exchanges of the gated provider: exchange k answers once gate k is released
#[derive(Default)]
struct Gates {
    started: usize,
    released: std::collections::HashSet<usize>,
    wakers: Vec<(usize, Waker)>,
}

#[derive(Clone)]
struct GProv {
    gates: Arc<Mutex<Gates>>,
}

#[derive(Clone)]
struct GHandle {
    gates: Arc<Mutex<Gates>>,
}

struct GateFut {
    gates: Arc<Mutex<Gates>>,
    k: usize,
}

impl Future for GateFut {
    type Output = ();
    fn poll(self: Pin<&mut Self>, cx: &mut Context<'_>) -> Poll<()> {
        let mut g = self.gates.lock().unwrap();
        if g.released.contains(&self.k) {
            Poll::Ready(())
        } else {
            let k = self.k;
            g.wakers.push((k, cx.waker().clone()));
            Poll::Pending
        }
    }
}

impl ConnectionProvider for GProv {
    type Conn = GHandle;
    type FutureConn = future::Ready<Result<GHandle, NetError>>;
    type RuntimeProvider = SimRuntime;
    fn new_connection(&self, _ip: IpAddr, _config: &ConnectionConfig, _cx: &PoolContext) -> Result<Self::FutureConn, NetError> {
        Ok(future::ready(Ok(GHandle { gates: self.gates.clone() })))
    }
    fn runtime_provider(&self) -> &Self::RuntimeProvider {
        &SimRuntime
    }
}

impl DnsHandle for GHandle {
    type Response = Pin<Box<dyn Stream<Item = Result<DnsResponse, NetError>> + Send>>;
    type Runtime = SimRuntime;
    fn send(&self, request: DnsRequest) -> Self::Response {
        let k = {
            let mut g = self.gates.lock().unwrap();
            g.started += 1;
            g.started
        };
        let gates = self.gates.clone();
        Box::pin(once(async move {
            GateFut { gates, k }.await;
            // the answer says which upstream exchange produced it
            let query = request.queries.first().cloned().unwrap_or_else(Query::root);
            let mut m = Message::query();
            m.metadata.id = request.metadata.id;
            m.add_query(query.clone());
            let mut m = m.into_response();
            m.add_answer(Record::from_rdata(query.name.clone(), 60, RData::A(Ipv4Addr::new(10, 9, k as u8, 1).into())));
            DnsResponse::from_message(m).map_err(NetError::from)
        }))
    }
}

#[derive(Clone, Copy, PartialEq, Eq, Debug)]
enum SEv {
    /// task, request variant (0 plain (EDNS, no DO), 1 EDNS+DO, 2 RD clear, 3 CD set, 4 AAAA, 5 no EDNS at all, 6 EDNS client subnet)
    Start(usize, u8),
    Drop(usize),
    Release(usize),
    Poll(usize),
}

fn parse_share(t: &[&str]) -> Option<Vec<SEv>> {
    if t.len() < 2 || t.len() > 25 {
        return None;
    }
    let mut v = vec![];
    for tok in &t[1..] {
        let b = tok.as_bytes();
        let task = |c: u8| if (b'A'..=b'D').contains(&c) { Some((c - b'A') as usize) } else { None };
        if b.len() == 3 && b[0] == b's' && (b'0'..=b'6').contains(&b[2]) {
            v.push(SEv::Start(task(b[1])?, b[2] - b'0'));
            continue;
        }
        if b.len() != 2 {
            return None;
        }
        v.push(match b[0] {
            b's' => SEv::Start(task(b[1])?, 0),
            b'd' => SEv::Drop(task(b[1])?),
            b'p' => SEv::Poll(task(b[1])?),
            b'r' if (b'1'..=b'8').contains(&b[1]) => SEv::Release((b[1] - b'0') as usize),
            _ => return None,
        });
    }
    let starts: Vec<usize> = v.iter().filter_map(|e| if let SEv::Start(x, _) = e { Some(*x) } else { None }).collect();
    let mut d = starts.clone();
    d.sort();
    d.dedup();
    if d.len() != starts.len() {
        return None;
    }
    // schedules with several request variants: an upstream answer can only be released once its exchange
    // exists (exchange numbers are global, the model numbers lookups per key)
    Some(v)
}

/// the request of variant `v` (what `CacheKey::from_request` reads: opcode, RD, CD, queries, DO, client subnet)
fn variant_request(v: u8) -> DnsRequest {
    let mut o = DnsRequestOptions::default();
    let qt = if v == 4 { RecordType::AAAA } else { RecordType::A };
    match v {
        1 => {
            o.use_edns = true;
            o.edns_set_dnssec_ok = true;
        }
        2 => o.recursion_desired = false,
        5 => o.use_edns = false,
        6 => {
            o.use_edns = true;
            o.edns_set_dnssec_ok = false;
        }
        _ => {}
    }
    let mut req = DnsRequest::from_query(Query::new(q_name(), qt), o);
    if v == 3 {
        req.metadata.checking_disabled = true;
    }
    if v == 6 {
        use hickory_proto::rr::rdata::opt::{ClientSubnet, EdnsOption};
        if let Some(e) = req.edns.as_mut() {
            e.options_mut().insert(EdnsOption::Subnet(ClientSubnet::new(IpAddr::V4(Ipv4Addr::new(192, 0, 2, 0)), 24, 0)));
        }
    }
    req
}

/// `share <ev>...` with ev = `s<X>` start task X (create its `send` future, poll it once), `d<X>` drop it,
/// `r<k>` release the answer of upstream exchange k, `p<X>` poll X (resume it, possibly late); X ∈ A..D.
/// One pool, one UDP server, identical queries, no clock involved.
fn exec_share(line: &str, t: &[&str], rec: &mut Recorder) {
    let Some(evs) = parse_share(t) else {
        rec.case(line.to_string(), "bad-op".into());
        rec.stat("bad-op");
        return;
    };
    rec.stat("share_schedule");
    type Fut = Pin<Box<dyn Future<Output = Result<DnsResponse, NetError>>>>;
    let r = catch(|| -> Result<(usize, Vec<(usize, usize)>, Vec<usize>, Vec<(String, String)>), String> {
        SIM.with(|s| *s.borrow_mut() = Sim::new());
        let gates = Arc::new(Mutex::new(Gates::default()));
        let prov = GProv { gates: gates.clone() };
        let mut opts = ResolverOpts::default();
        opts.timeout = Duration::from_millis(BIG_T);
        opts.num_concurrent_reqs = 1;
        opts.server_ordering_strategy = ServerOrderingStrategy::UserProvidedOrder;
        let ns = Arc::new(NameServer::new(vec![], NameServerConfig::new(ip_of(0), true, vec![ConnectionConfig::udp()]), &opts, prov));
        let pool = NameServerPool::from_nameservers(vec![ns], Arc::new(PoolContext::new(opts, TlsConfig::new().map_err(|e| format!("tls {e}"))?)));
        let flag = Arc::new(Flag(AtomicBool::new(false)));
        let waker = Waker::from(flag.clone());
        let mut cx = Context::from_waker(&waker);
        let mut tasks: Vec<Option<Fut>> = (0..4).map(|_| None).collect();
        let mut served: Vec<(usize, usize)> = vec![];
        // ---- the oracle's own bookkeeping (no knowledge of the map): which exchange every task is
        // attached to, who created it, whether its answer has been delivered to anybody
        let multi = evs.iter().any(|e| matches!(e, SEv::Start(_, v) if *v != 0));
        let mut invalid = false;
        let mut variant_of: HashMap<usize, u8> = HashMap::new(); // task -> request variant
        let mut exch_variant: HashMap<usize, u8> = HashMap::new(); // exchange -> variant of its creator
        let mut creator_of: HashMap<usize, usize> = HashMap::new(); // exchange -> task
        let mut attached: HashMap<usize, usize> = HashMap::new(); // alive task -> exchange
        let mut dropped_creator: std::collections::HashSet<usize> = Default::default(); // exchanges whose creator was dropped
        let mut delivered: std::collections::HashSet<usize> = Default::default();
        let mut fails: Vec<(String, String)> = vec![];
        let answered_by = |r: &Result<DnsResponse, NetError>| -> usize {
            match r {
                Ok(resp) => resp.answers.iter().find_map(|rec| if let RData::A(a) = &rec.data { Some(a.0.octets()[2] as usize) } else { None }).unwrap_or(0),
                Err(_) => 0,
            }
        };
        let name = |x: usize| (b'A' + x as u8) as char;
        for ev in &evs {
            match *ev {
                SEv::Start(x, var) => {
                    variant_of.insert(x, var);
                    let req = variant_request(var);
                    let before = gates.lock().unwrap().started;
                    // an exchange is in flight when somebody alive with an IDENTICAL request (identical in the fields
                    // the de-duplication key is documented to consist of: EDNS without DO or subnet = no EDNS) is
                    // attached to it and nobody has its answer yet
                    let class_of = |v: u8| if v == 5 { 0 } else { v };
                    let in_flight: Vec<usize> = {
                        let mut v: Vec<usize> = attached.iter().filter(|(t, _)| variant_of.get(*t).map(|v| class_of(*v)) == Some(class_of(var))).map(|(_, k)| *k).filter(|k| !delivered.contains(k)).collect();
                        v.sort();
                        v.dedup();
                        v
                    };
                    let mut f: Fut = Box::pin(pool.send(req).first_answer());
                    let mut done = None;
                    for _ in 0..3 {
                        if let Poll::Ready(r) = f.as_mut().poll(&mut cx) {
                            done = Some(r);
                            break;
                        }
                    }
                    let after = gates.lock().unwrap().started;
                    if after > before {
                        creator_of.insert(after, x);
                        exch_variant.insert(after, var);
                        if let Some(k) = in_flight.last() {
                            // the property: a query identical to one in flight shares its upstream exchange
                            let creator_gone = dropped_creator.contains(k);
                            fails.push((
                                format!(
                                    "task {} started while upstream exchange {} was in flight for {} and did not share it: a further upstream exchange ({}) was started{}",
                                    name(x),
                                    k,
                                    attached.iter().filter(|(_, kk)| *kk == k).map(|(t, _)| name(*t).to_string()).collect::<Vec<_>>().join("+"),
                                    after,
                                    if creator_gone { " (the task that created the shared lookup had been dropped)" } else { " (its creator is alive or returned normally)" }
                                ),
                                if creator_gone { "dedup-split-after-creator-cancel".to_string() } else { String::new() },
                            ));
                        }
                    }
                    let k = if after > before { after } else { in_flight.last().copied().unwrap_or(before) };
                    match done {
                        Some(r) => {
                            let by = answered_by(&r);
                            served.push((x, by));
                            if let (Some(v), Some(ev)) = (variant_of.get(&x), exch_variant.get(&by)) {
                                let same_key = v == ev || (matches!(*v, 0 | 5) && matches!(*ev, 0 | 5));
                                if !same_key {
                                    fails.push((format!("task {} (request variant {}) received the result of upstream exchange {} made for a different request (variant {})", name(x), v, by, ev), String::new()));
                                }
                            }
                            delivered.insert(by);
                        }
                        None => {
                            attached.insert(x, k);
                            tasks[x] = Some(f);
                        }
                    }
                }
                SEv::Drop(x) => {
                    if tasks[x].take().is_some() {
                        if let Some(k) = attached.remove(&x) {
                            if creator_of.get(&k) == Some(&x) {
                                dropped_creator.insert(k);
                            }
                        }
                    }
                }
                SEv::Release(k) => {
                    if multi && k > gates.lock().unwrap().started {
                        invalid = true;
                        break;
                    }
                    let ws: Vec<Waker> = {
                        let mut g = gates.lock().unwrap();
                        g.released.insert(k);
                        let (hit, rest): (Vec<_>, Vec<_>) = std::mem::take(&mut g.wakers).into_iter().partition(|(kk, _)| *kk == k);
                        g.wakers = rest;
                        hit.into_iter().map(|(_, w)| w).collect()
                    };
                    for w in ws {
                        w.wake();
                    }
                }
                SEv::Poll(x) => {
                    if let Some(f) = tasks[x].as_mut() {
                        let mut done = None;
                        for _ in 0..3 {
                            if let Poll::Ready(r) = f.as_mut().poll(&mut cx) {
                                done = Some(r);
                                break;
                            }
                        }
                        if let Some(r) = done {
                            tasks[x] = None;
                            let by = answered_by(&r);
                            served.push((x, by));
                            if let (Some(v), Some(ev)) = (variant_of.get(&x), exch_variant.get(&by)) {
                                let same_key = v == ev || (matches!(*v, 0 | 5) && matches!(*ev, 0 | 5));
                                if !same_key {
                                    fails.push((format!("task {} (request variant {}) received the result of upstream exchange {} made for a different request (variant {})", name(x), v, by, ev), String::new()));
                                }
                            }
                            delivered.insert(by);
                            if let Some(k) = attached.remove(&x) {
                                if creator_of.get(&k) == Some(&x) && by != k {
                                    fails.push((format!("task {} created upstream exchange {} but received the result of {}", name(x), k, by), String::new()));
                                }
                            }
                        }
                    }
                }
            }
        }
        let waiting: Vec<usize> = (0..4).filter(|x| tasks[*x].is_some()).collect();
        let ex = gates.lock().unwrap().started;
        drop(tasks);
        if invalid {
            return Err("bad-op".to_string());
        }
        Ok((ex, served, waiting, fails))
    });
    match r {
        Err(p) => {
            let idx = rec.case(line.to_string(), format!("panic {}", p.replace(char::is_whitespace, "_")));
            rec.fail(idx, format!("the pool panicked: {p}"), "");
        }
        Ok(Err(e)) if e == "bad-op" => {
            rec.case(line.to_string(), "bad-op".into());
            rec.stat("bad-op");
        }
        Ok(Err(e)) => {
            let idx = rec.case(line.to_string(), format!("err {}", e.replace(char::is_whitespace, "_")));
            rec.fail(idx, e, "");
        }
        Ok(Ok((ex, served, waiting, fails))) => {
            let name = |x: usize| ((b'A' + x as u8) as char).to_string();
            let sv = if served.is_empty() { "-".to_string() } else { served.iter().map(|(x, k)| format!("{}:{}", name(*x), k)).collect::<Vec<_>>().join(",") };
            let wt = if waiting.is_empty() { "-".to_string() } else { waiting.iter().map(|x| name(*x)).collect::<Vec<_>>().join(",") };
            let idx = rec.case(line.to_string(), format!("ex={ex} served={sv} waiting={wt}"));
            rec.stat(&format!("share_upstream_exchanges_{ex}"));
            if evs.iter().any(|e| matches!(e, SEv::Drop(_))) {
                rec.stat("share_with_drop");
            }
            if served.len() + waiting.len() >= 2 {
                rec.nontrivial(idx);
            }
            for (what, class) in fails {
                rec.fail(idx, what, &class);
            }
        }
    }
}

// ------------------------------------------------------------------------------------------------
// consecutive lookups on one pool, optionally through the retry layer (`options.attempts`)
// ------------------------------------------------------------------------------------------------

/// `seq <user|rr> <ncr> <T ms> <attempts|-> <m> <gap ms> <srv>...` — virtual time only
fn exec_seq(line: &str, t: &[&str], rec: &mut Recorder) {
    let parsed = (|| {
        if t.len() < 8 {
            return None;
        }
        let strat = match t[1] {
            "user" => Strat::User,
            "rr" => Strat::Rr,
            _ => return None,
        };
        let ncr: usize = t[2].parse().ok()?;
        let t_ms: u64 = t[3].parse().ok()?;
        let att: Option<usize> = if t[4] == "-" { None } else { Some(t[4].parse().ok()?) };
        let m: usize = t[5].parse().ok()?;
        let gap: u64 = t[6].parse().ok()?;
        let srvs: Option<Vec<Srv>> = t[7..].iter().map(|s| parse_srv(s)).collect();
        let srvs = srvs?;
        if srvs.is_empty() || srvs.len() > 8 || ncr > 8 || t_ms == 0 || m == 0 || m > 8 || gap > 1000 {
            return None;
        }
        if att.unwrap_or(0) > 4 || srvs.iter().any(|s| s.warm > 0) {
            return None;
        }
        Some((Case { paced: false, strat, ncr, t_ms, pre: 0, k: 1, cx: None, srvs }, att, m, gap))
    })();
    let Some((c, att, m, gap)) = parsed else {
        rec.case(line.to_string(), "bad-op".into());
        rec.stat("bad-op");
        return;
    };
    rec.stat("seq_consecutive_lookups");
    rec.stat(&format!("seq_attempts_{}", att.map(|a| a.to_string()).unwrap_or_else(|| "none".into())));
    let r = catch(|| -> Result<(Vec<(String, u64)>, Vec<Ex>), String> {
        let (env, pool) = build_pool(&c)?;
        let req = DnsRequest::from_query(Query::new(q_name(), RecordType::A), DnsRequestOptions::default());
        let fut = async {
            let mut out = vec![];
            for _ in 0..m {
                let r = match att {
                    None => pool.send(req.clone()).first_answer().await,
                    Some(a) => hickory_net::xfer::RetryDnsHandle::new(pool.clone(), a).send(req.clone()).first_answer().await,
                };
                out.push((classify(&r), sim_now()));
                VSleep::after(gap * 1000).await;
            }
            out
        };
        let out = sim_run(fut, false, 20_000).map_err(|e| format!("{e:?}"))?;
        let log = env.log.lock().unwrap().clone();
        Ok((out, log))
    });
    match r {
        Err(p) => {
            let idx = rec.case(line.to_string(), format!("panic {}", p.replace(char::is_whitespace, "_")));
            rec.fail(idx, format!("the pool panicked: {p}"), "");
        }
        Ok(Err(e)) => {
            let idx = rec.case(line.to_string(), format!("hang {}", e.replace(char::is_whitespace, "_")));
            rec.fail(idx, format!("a lookup did not complete with an answer or an error: {e}"), "");
        }
        Ok(Ok((out, log))) => {
            let txt = format!(
                "{} log={}",
                out.iter().map(|(r, v)| format!("{}@{}", r, v / 1000)).collect::<Vec<_>>().join(";"),
                log_tok(&log, true)
            );
            // batches of several servers: a zero-latency reply or a reconnect on a reused connection
            // makes the outcome depend on poll order inside one instant (see `not_comparable`)
            let batch1 = c.ncr.max(1) == 1 || c.srvs.len() == 1;
            let steps = || c.srvs.iter().flat_map(all_steps);
            let cmp = batch1 || !steps().any(|st| st.lat_ms == 0 || st.rep == Rep::Rst);
            if !cmp {
                rec.impl_only += 1;
                rec.stat("impl_only_seq_poll_order_dependent");
            }
            let idx = rec.case(line.to_string(), if cmp { txt } else { "~".into() });
            for e in &log {
                rec.stat(&format!("exchange_{}_{}", if e.tcp { "tcp" } else { "udp" }, e.rep.tok()));
            }
            if log.len() > 1 {
                rec.nontrivial(idx);
            }
            for (r, _) in &out {
                if !(r.starts_with("ans:") || r.starts_with("err:")) {
                    rec.fail(idx, format!("lookup completed with neither an answer nor an error: {r}"), "");
                }
            }
        }
    }
}

/// the server's configuration, through the public constructors where one fits
fn name_server_config(i: usize, s: &Srv) -> NameServerConfig {
    let tcp_first = s.ord & 1 != 0;
    let mut cfg = match (s.udp.is_some(), s.tcp.is_some()) {
        (true, true) if !tcp_first => NameServerConfig::udp_and_tcp(ip_of(i)),
        (true, true) => NameServerConfig::new(ip_of(i), true, vec![ConnectionConfig::tcp(), ConnectionConfig::udp()]),
        (true, false) => NameServerConfig::udp(ip_of(i)),
        _ => NameServerConfig::tcp(ip_of(i)),
    };
    cfg.trust_negative_responses = s.trust;
    cfg
}

fn build_pool(c: &Case) -> Result<(Arc<Env>, NameServerPool<Prov>), String> {
    let env = Arc::new(Env {
        srvs: c.srvs.clone(),
        pos: Mutex::new(vec![[0, 0]; c.srvs.len()]),
        log: Mutex::new(vec![]),
        new_conns: Mutex::new(vec![]),
        react_late_us: Mutex::new(0),
        warming: AtomicBool::new(false),
    });
    let prov = Prov { env: env.clone() };
    let mut opts = ResolverOpts::default();
    opts.timeout = Duration::from_millis(c.t_ms);
    opts.num_concurrent_reqs = c.ncr;
    if let Some((du, dt)) = DENY.with(|d| d.get()) {
        if du {
            opts.deny_answers.push("10.1.0.0/16".parse().unwrap());
        }
        if dt {
            opts.deny_answers.push("10.2.0.0/16".parse().unwrap());
        }
        if !du && !dt {
            // a filter that denies nothing the servers ever answer: the filtering code runs, nothing is removed
            opts.deny_answers.push("192.0.2.0/24".parse().unwrap());
        }
    }
    opts.server_ordering_strategy = match c.strat {
        Strat::User => ServerOrderingStrategy::UserProvidedOrder,
        Strat::Rr => ServerOrderingStrategy::RoundRobin,
        Strat::Qs => ServerOrderingStrategy::QueryStatistics,
    };
    let servers: Vec<Arc<NameServer<Prov>>> = c
        .srvs
        .iter()
        .enumerate()
        .map(|(i, s)| {
            let mut pre = vec![];
            if s.pre_udp {
                pre.push((hickory_net::xfer::Protocol::Udp, Handle { env: env.clone(), srv: i, tcp: false }));
            }
            if s.pre_tcp {
                pre.push((hickory_net::xfer::Protocol::Tcp, Handle { env: env.clone(), srv: i, tcp: true }));
            }
            if s.ord & 2 != 0 {
                pre.reverse();
            }
            let cfg = name_server_config(i, s);
            Arc::new(NameServer::new(pre, cfg, &opts, prov.clone()))
        })
        .collect();
    let tls = TlsConfig::new().map_err(|e| format!("tls {e}"))?;
    Ok((env, NameServerPool::from_nameservers(servers, Arc::new(PoolContext::new(opts, tls)))))
}

fn run_case(c: &Case) -> Result<RunOut, String> {
    let env = Arc::new(Env {
        srvs: c.srvs.clone(),
        pos: Mutex::new(vec![[0, 0]; c.srvs.len()]),
        log: Mutex::new(vec![]),
        new_conns: Mutex::new(vec![]),
        react_late_us: Mutex::new(0),
        warming: AtomicBool::new(false),
    });
    let prov = Prov { env: env.clone() };
    let mut opts = ResolverOpts::default();
    opts.timeout = Duration::from_millis(c.t_ms);
    opts.num_concurrent_reqs = c.ncr;
    if let Some((du, dt)) = DENY.with(|d| d.get()) {
        if du {
            opts.deny_answers.push("10.1.0.0/16".parse().unwrap());
        }
        if dt {
            opts.deny_answers.push("10.2.0.0/16".parse().unwrap());
        }
        if !du && !dt {
            // a filter that denies nothing the servers ever answer: the filtering code runs, nothing is removed
            opts.deny_answers.push("192.0.2.0/24".parse().unwrap());
        }
    }
    opts.server_ordering_strategy = match c.strat {
        Strat::User => ServerOrderingStrategy::UserProvidedOrder,
        Strat::Rr => ServerOrderingStrategy::RoundRobin,
        Strat::Qs => ServerOrderingStrategy::QueryStatistics,
    };
    let servers: Vec<Arc<NameServer<Prov>>> = c
        .srvs
        .iter()
        .enumerate()
        .map(|(i, s)| {
            let mut pre = vec![];
            if s.pre_udp {
                pre.push((hickory_net::xfer::Protocol::Udp, Handle { env: env.clone(), srv: i, tcp: false }));
            }
            if s.pre_tcp {
                pre.push((hickory_net::xfer::Protocol::Tcp, Handle { env: env.clone(), srv: i, tcp: true }));
            }
            if s.ord & 2 != 0 {
                pre.reverse();
            }
            let cfg = name_server_config(i, s);
            Arc::new(NameServer::new(pre, cfg, &opts, prov.clone()))
        })
        .collect();
    let tls = || TlsConfig::new().map_err(|e| format!("tls {e}"));
    let pool = NameServerPool::from_nameservers(servers.clone(), Arc::new(PoolContext::new(opts.clone(), tls()?)));
    let warm_req = || DnsRequest::from_query(Query::new(warm_name(), RecordType::A), DnsRequestOptions::default());
    let req = DnsRequest::from_query(Query::new(q_name(), RecordType::A), DnsRequestOptions::default());

    // warm-up (not part of the measured run; all replies are immediate)
    let mut warm_pools = vec![];
    for (i, s) in c.srvs.iter().enumerate() {
        if s.warm > 0 {
            let mut o = opts.clone();
            o.server_ordering_strategy = ServerOrderingStrategy::UserProvidedOrder;
            warm_pools.push((
                s.warm,
                NameServerPool::from_nameservers(vec![servers[i].clone()], Arc::new(PoolContext::new(o, tls()?))),
            ));
        }
    }
    let warm = async {
        for (w, p) in &warm_pools {
            for _ in 0..*w {
                let _ = p.send(warm_req()).first_answer().await;
            }
        }
        for _ in 0..c.pre {
            let _ = pool.send(warm_req()).first_answer().await;
        }
    };
    env.warming.store(true, AO::SeqCst);
    let w = sim_run(warm, false, 1000);
    env.warming.store(false, AO::SeqCst);
    w.map_err(|e| format!("warm-up {e:?}"))?;
    env.new_conns.lock().unwrap().clear();

    let max_fires = 4000;
    let k = c.k;
    // every second caller enters through `DnsHandle::lookup` (same request, same de-duplication key)
    let entry = std::cell::Cell::new(0usize);
    let one = |p: &NameServerPool<Prov>| {
        let i = entry.get();
        entry.set(i + 1);
        let f = if i % 2 == 1 {
            p.lookup(Query::new(q_name(), RecordType::A), DnsRequestOptions::default()).first_answer()
        } else {
            p.send(req.clone()).first_answer()
        };
        async move {
            let r = f.await;
            (classify(&r), sim_now(), real_off())
        }
    };
    let mut out = RunOut { callers: vec![], creator: None, joiner: None, log: vec![], delays: vec![], cuts: vec![], max_late_us: 0, new_conns: 0 };
    match c.cx {
        None => {
            let futs: Vec<_> = (0..k).map(|_| one(&pool)).collect();
            let r = sim_run(future::join_all(futs), c.paced, max_fires).map_err(|e| format!("{e:?}"))?;
            out.callers = r;
        }
        Some((tc, tj)) => {
            let c0 = Box::pin(one(&pool));
            let waiters: Vec<_> = (1..k).map(|_| one(&pool)).collect();
            let pool2 = pool.clone();
            let req2 = req.clone();
            let branch0 = async move {
                let creator = match future::select(c0, VSleep::until(tc * 1000 + 500)).await {
                    Either::Left((r, _)) => Some((r.0, r.1)),
                    Either::Right((_, c0)) => {
                        drop(c0);
                        None
                    }
                };
                VSleep::until(tj * 1000 + 500).await;
                let r = pool2.send(req2).first_answer().await;
                (creator, (classify(&r), sim_now()))
            };
            let (b0, ws) =
                sim_run(future::join(branch0, future::join_all(waiters)), c.paced, max_fires).map_err(|e| format!("{e:?}"))?;
            out.creator = Some(b0.0);
            out.joiner = Some(b0.1);
            out.callers = ws;
        }
    }
    out.log = env.log.lock().unwrap().clone();
    out.new_conns = env.new_conns.lock().unwrap().len();
    let react = *env.react_late_us.lock().unwrap();
    SIM.with(|s| {
        let s = s.borrow();
        out.delays = s.delays.clone();
        out.cuts = s.cuts.clone();
        out.max_late_us = s.max_late_us.max(react);
    });
    Ok(out)
}

fn log_tok(log: &[Ex], times: bool) -> String {
    if log.is_empty() {
        return "-".into();
    }
    let mut log: Vec<&Ex> = log.iter().collect();
    log.sort_by_key(|e| (e.start_us, e.srv, e.tcp));
    log.iter()
        .map(|e| {
            if times {
                format!("s{}{}@{}", e.srv, if e.tcp { "t" } else { "u" }, e.start_us / 1000)
            } else {
                format!("s{}{}", e.srv, if e.tcp { "t" } else { "u" })
            }
        })
        .collect::<Vec<_>>()
        .join(",")
}

/// which lines can be compared with the model at all (independent of the implementation's
/// behaviour); `Some(reason)` = implementation-vs-oracle only
fn not_comparable(c: &Case) -> Option<&'static str> {
    if c.strat == Strat::Qs && c.srvs.len() > 1 {
        // initial SRTTs are random (1..32 µs): the order is only determined when every server has a
        // distinct number of recorded failures
        let mut w: Vec<u32> = c.srvs.iter().map(|s| s.warm).collect();
        w.sort();
        w.dedup();
        if w.len() != c.srvs.len() {
            return Some("impl_only_random_srtt_order");
        }
    }
    let batch1 = c.ncr.max(1) == 1 || c.srvs.len() == 1;
    let steps = || c.srvs.iter().flat_map(all_steps);
    // a zero-latency reply completes inside the poll that started it: the other members of the batch
    // have not been started yet, and a second caller is not concurrent with a lookup that is already over
    if steps().any(|st| st.lat_ms == 0) && !(batch1 && c.k == 1) {
        return Some("impl_only_zero_latency_in_batch_or_several_callers");
    }
    // reconnect-and-retry inside a batch of several servers: start of the retry vs replies of the
    // others is decided by timer order on ties
    let reuse_possible = c.srvs.iter().any(|s| s.pre_udp || s.pre_tcp || (s.tcp.is_some() && all_steps(s).any(|st| matches!(st.rep, Rep::Tc | Rep::Cm))));
    if steps().any(|st| st.rep == Rep::Rst) && reuse_possible && !batch1 {
        return Some("impl_only_reset_on_reused_connection_in_batch");
    }
    None
}

fn comparable(c: &Case) -> bool {
    not_comparable(c).is_none()
}

/// paced runs: no decision point of the pool within `M_US` of the deadline or of another reply
fn robust(c: &Case, o: &RunOut) -> bool {
    let t = c.t_ms * 1000;
    let near = |x: u64| x.abs_diff(t) < M_US;
    let mut pts: Vec<u64> = vec![];
    for e in &o.log {
        pts.push(e.start_us);
        if let Some(x) = e.end_us {
            pts.push(x);
        }
        // a request abandoned in flight: whether its reply or the deadline timer wins is decided by its
        // nominal end
        if e.end_us.is_none() {
            pts.push(e.start_us + e.lat_us);
        }
    }
    let mut backoff = 20_000u64;
    for (start, d) in &o.delays {
        if *d == backoff {
            pts.push(start + d);
        } else if near(start + backoff) {
            // capped by the remaining budget: the capping decision itself must be clear
            return false;
        }
        pts.push(*start);
        backoff *= 2;
    }
    for p in pts {
        if near(p) {
            return false;
        }
    }
    for (r, v, _) in &o.callers {
        // a completion by the deadline (check or timer) is at the deadline by construction
        if near(*v) && !(r == "err:timeout" && *v >= t) {
            return false;
        }
    }
    // replies racing each other: two exchanges in flight at the same time must not end close together
    for (i, a) in o.log.iter().enumerate() {
        for bb in &o.log[i + 1..] {
            if let (Some(ea), Some(eb)) = (a.end_us, bb.end_us) {
                let overlap = a.start_us <= eb && bb.start_us <= ea;
                if overlap && ea.abs_diff(eb) < M_US {
                    return false;
                }
            }
        }
    }
    true
}

pub fn exec(line: &str, rec: &mut Recorder) {
    let t: Vec<&str> = line.split_whitespace().collect();
    if t.first() == Some(&"real") || t.first() == Some(&"realtcp") {
        exec_real(line, &t, rec);
        return;
    }
    if t.first() == Some(&"seq") {
        exec_seq(line, &t, rec);
        return;
    }
    if t.first() == Some(&"runf") {
        // `runf <u|t|ut|-> <rest of a run line>`: the same lookup with the answer address filter configured
        let deny = match t.get(1) {
            Some(&"u") => Some((true, false)),
            Some(&"t") => Some((false, true)),
            Some(&"ut") => Some((true, true)),
            Some(&"-") => Some((false, false)),
            _ => None,
        };
        let mut rt = vec!["run"];
        rt.extend_from_slice(&t[2.min(t.len())..]);
        match (deny, parse_case(&rt)) {
            (Some(d), Some(c)) if !c.paced && c.cx.is_none() => {
                rec.stat("runf_answer_filter");
                DENY.with(|x| x.set(Some(d)));
                let r = catch(|| run_case(&c));
                finish_case(line, &c, r, rec);
                DENY.with(|x| x.set(None));
            }
            _ => {
                rec.case(line.to_string(), "bad-op".into());
                rec.stat("bad-op");
            }
        }
        return;
    }
    if t == ["noq"] {
        exec_noq(line, rec);
        return;
    }
    if t.first() == Some(&"rt") {
        exec_rt(line, &t, rec);
        return;
    }
    if t.first() == Some(&"share") {
        exec_share(line, &t, rec);
        return;
    }
    let Some(c) = parse_case(&t) else {
        rec.case(line.to_string(), "bad-op".into());
        rec.stat("bad-op");
        return;
    };
    let r = catch(|| {
        let mut last = None;
        // a paced run whose events fired late is not a run of the scripted case: repeat it
        for _attempt in 0..(if c.paced { 3 } else { 1 }) {
            let o = run_case(&c);
            let ok = match &o {
                Ok(o) => !c.paced || o.max_late_us <= J_US,
                Err(_) => true,
            };
            last = Some(o);
            if ok {
                break;
            }
        }
        last.unwrap()
    });
    finish_case(line, &c, r, rec);
}

fn finish_case(line: &str, c: &Case, r: Result<Result<RunOut, String>, String>, rec: &mut Recorder) {
    rec.stat(if c.paced { "mode_B_paced_real_clock" } else { "mode_A_virtual" });
    rec.stat(&format!("servers_{}", c.srvs.len()));
    rec.stat(&format!("strategy_{:?}", c.strat));
    rec.stat(&format!("ncr_{}", c.ncr));
    rec.stat(&format!("callers_{}", c.k));
    let o = match r {
        Err(p) => {
            let idx = rec.case(line.to_string(), format!("panic {}", p.replace(char::is_whitespace, "_")));
            rec.fail(idx, format!("the pool panicked: {p}"), "");
            return;
        }
        Ok(Err(e)) => {
            let idx = rec.case(line.to_string(), format!("hang {}", e.replace(char::is_whitespace, "_")));
            rec.fail(idx, format!("the lookup did not complete with an answer or an error: {e}"), "");
            return;
        }
        Ok(Ok(o)) => o,
    };
    // ---- canonical output
    let t_us = c.t_ms * 1000;
    let first = o.callers.first().cloned().or_else(|| o.joiner.clone().map(|(r, v)| (r, v, v))).unwrap();
    let all_same = o.callers.iter().all(|x| x.0 == first.0 && x.1 == first.1);
    let mut out = String::new();
    let valid = !c.paced || o.max_late_us <= J_US;
    if c.paced {
        let late = first.1 > t_us + M_US;
        out.push_str(&format!("{} late={} log={}", first.0, b(late), log_tok(&o.log, false)));
    } else {
        out.push_str(&format!("{} t={} log={}", first.0, first.1 / 1000, log_tok(&o.log, true)));
    }
    out.push_str(&format!(" same={}", b(all_same)));
    if DENY.with(|d| d.get()).is_some() {
        match LAST_NR.with(|l| l.get()) {
            Some((a, g)) => out.push_str(&format!(" aut={a} glue={g}")),
            None => out.push_str(" aut=- glue=-"),
        }
    }
    if let (Some(cr), Some(j)) = (&o.creator, &o.joiner) {
        match cr {
            Some((r, v)) => out.push_str(&format!(" c0={}@{}", r, v / 1000)),
            None => out.push_str(" c0=cancelled"),
        }
        out.push_str(&format!(" j={}@{}", j.0, j.1 / 1000));
    }
    let cmp = comparable(c) && valid && (!c.paced || robust(c, &o));
    if !cmp {
        rec.impl_only += 1;
        rec.stat(match not_comparable(c) {
            Some(r) => r,
            None if !valid => "impl_only_paced_run_late",
            None => "impl_only_paced_not_robust",
        });
    }
    let idx = rec.case(line.to_string(), if cmp { out.clone() } else { "~".into() });
    // ---- statistics
    rec.stat(&format!("result_{}", first.0.split(':').take(2).collect::<Vec<_>>().join("_").trim_end_matches(|ch: char| ch.is_ascii_digit() || ch == 's' || ch == 'u' || ch == 't')));
    for e in &o.log {
        rec.stat(&format!("exchange_{}_{}", if e.tcp { "tcp" } else { "udp" }, e.rep.tok()));
    }
    if !o.delays.is_empty() {
        rec.stat(&format!("backoff_sleeps_{}", o.delays.len()));
    }
    if o.log.iter().any(|e| e.tcp) && o.log.iter().any(|e| !e.tcp) {
        rec.stat("udp_and_tcp_used");
    }
    if c.cx.is_some() {
        rec.stat("creator_cancel_scenario");
    }
    // non-trivial: more than one exchange, or a concurrent caller, or a back-off
    if o.log.len() > 1 || c.k > 1 || !o.delays.is_empty() {
        rec.nontrivial(idx);
    }
    oracle(c, &o, valid, idx, rec);
}

// ------------------------------------------------------------------------------------------------
// replay of the deadline clause on the unmodified stack: real UDP sockets on loopback, the real
// `TokioRuntimeProvider`, `UdpClientStream` with its own `options.timeout`
// ------------------------------------------------------------------------------------------------

/// `real <T ms> <d ms>`: server 1 (127.0.0.1, not trusted for negative answers) answers NXDOMAIN after
/// `d` ms, server 2 (127.0.0.2) receives the query and never answers.  No model side.
fn exec_real(line: &str, t: &[&str], rec: &mut Recorder) {
    let (Some(t_ms), Some(d_ms)) = (t.get(1).and_then(|x| x.parse::<u64>().ok()), t.get(2).and_then(|x| x.parse::<u64>().ok())) else {
        rec.case(line.to_string(), "bad-op".into());
        return;
    };
    if t.len() != 3 || t_ms == 0 || t_ms > 5000 || d_ms > 5000 {
        rec.case(line.to_string(), "bad-op".into());
        return;
    }
    rec.impl_only += 1;
    rec.stat("mode_R_real_sockets");
    let over_tcp = t[0] == "realtcp";
    if over_tcp {
        rec.stat("mode_R_real_sockets_tcp");
    }
    let r = catch(|| if over_tcp { real_run_tcp(t_ms, d_ms) } else { real_run(t_ms, d_ms) });
    let idx = rec.case(line.to_string(), "~".into());
    match r {
        Ok(Ok((class, elapsed_ms, s2_got_query))) => {
            rec.stat(&format!("real_result_{}", class.replace(':', "_")));
            eprintln!("c18: real sockets ({}) T={t_ms} d={d_ms}: {class} after {elapsed_ms} ms", t[0]);
            rec.nontrivial(idx);
            if !(class.starts_with("ans:") || class.starts_with("err:")) {
                rec.fail(idx, format!("lookup completed with neither an answer nor an error: {class}"), "");
            }
            // (real sockets, real scheduler: a wider tolerance than in paced mode)
            if elapsed_ms > t_ms + 100 {
                let _ = s2_got_query;
                let class_f = "";
                rec.fail(
                    idx,
                    format!(
                        "real sockets: lookup completed {elapsed_ms} ms after it started (result {class}), configured timeout {t_ms} ms: server 1 answered an untrusted NXDOMAIN after {d_ms} ms, server 2 was then queried and waited for until its own {t_ms} ms timeout"
                    ),
                    class_f,
                );
            }
        }
        Ok(Err(e)) => {
            // no loopback sockets in this sandbox: nothing was observed
            rec.stat("real_sockets_unavailable");
            let _ = e;
        }
        Err(p) => rec.fail(idx, format!("the pool panicked: {p}"), ""),
    }
}

/// the same over TCP (`TcpClientStream::exchange`, `DnsMultiplexer`): server 1 accepts, answers an untrusted
/// NXDOMAIN after `d` ms; server 2 accepts, reads the query and never answers
fn real_run_tcp(t_ms: u64, d_ms: u64) -> Result<(String, u64, bool), String> {
    use tokio::io::{AsyncReadExt, AsyncWriteExt};
    let rt = tokio::runtime::Builder::new_current_thread().enable_all().build().map_err(|e| e.to_string())?;
    rt.block_on(async move {
        let l1 = tokio::net::TcpListener::bind("127.0.0.1:0").await.map_err(|e| e.to_string())?;
        let l2 = tokio::net::TcpListener::bind("127.0.0.2:0").await.map_err(|e| e.to_string())?;
        let (p1, p2) = (l1.local_addr().map_err(|e| e.to_string())?.port(), l2.local_addr().map_err(|e| e.to_string())?.port());
        let got2 = Arc::new(AtomicBool::new(false));
        let g2 = got2.clone();
        tokio::spawn(async move {
            let mut held = vec![];
            while let Ok((mut sock, _)) = l2.accept().await {
                let mut len = [0u8; 2];
                if sock.read_exact(&mut len).await.is_ok() {
                    g2.store(true, AO::SeqCst);
                }
                held.push(sock);
            }
        });
        tokio::spawn(async move {
            while let Ok((mut sock, _)) = l1.accept().await {
                tokio::spawn(async move {
                    loop {
                        let mut len = [0u8; 2];
                        if sock.read_exact(&mut len).await.is_err() {
                            break;
                        }
                        let mut buf = vec![0u8; u16::from_be_bytes(len) as usize];
                        if sock.read_exact(&mut buf).await.is_err() {
                            break;
                        }
                        let Ok(q) = Message::from_vec(&buf) else { break };
                        let mut m = Message::query();
                        m.metadata.id = q.metadata.id;
                        if let Some(qq) = q.queries.first() {
                            m.add_query(qq.clone());
                        }
                        let mut m = m.into_response();
                        m.metadata.response_code = ResponseCode::NXDomain;
                        tokio::time::sleep(Duration::from_millis(d_ms)).await;
                        let Ok(bytes) = m.to_vec() else { break };
                        let mut out = (bytes.len() as u16).to_be_bytes().to_vec();
                        out.extend_from_slice(&bytes);
                        if sock.write_all(&out).await.is_err() {
                            break;
                        }
                    }
                });
            }
        });
        let mut opts = ResolverOpts::default();
        opts.timeout = Duration::from_millis(t_ms);
        opts.num_concurrent_reqs = 1;
        opts.server_ordering_strategy = ServerOrderingStrategy::UserProvidedOrder;
        let mut c1 = ConnectionConfig::tcp();
        c1.port = p1;
        let mut c2 = ConnectionConfig::tcp();
        c2.port = p2;
        let servers = vec![
            NameServerConfig::new(IpAddr::V4(Ipv4Addr::new(127, 0, 0, 1)), false, vec![c1]),
            NameServerConfig::new(IpAddr::V4(Ipv4Addr::new(127, 0, 0, 2)), true, vec![c2]),
        ];
        let cx = Arc::new(PoolContext::new(opts, TlsConfig::new().map_err(|e| e.to_string())?));
        let pool = NameServerPool::from_config(servers, cx, TokioRuntimeProvider::new());
        let req = DnsRequest::from_query(Query::new(q_name(), RecordType::A), DnsRequestOptions::default());
        let start = Instant::now();
        let r = pool.send(req).first_answer().await;
        let elapsed = start.elapsed().as_millis() as u64;
        Ok((classify(&r), elapsed, got2.load(AO::SeqCst)))
    })
}

fn real_run(t_ms: u64, d_ms: u64) -> Result<(String, u64, bool), String> {
    let rt = tokio::runtime::Builder::new_current_thread().enable_all().build().map_err(|e| e.to_string())?;
    rt.block_on(async move {
        let s1 = tokio::net::UdpSocket::bind("127.0.0.1:0").await.map_err(|e| e.to_string())?;
        let s2 = tokio::net::UdpSocket::bind("127.0.0.2:0").await.map_err(|e| e.to_string())?;
        let (p1, p2) = (s1.local_addr().map_err(|e| e.to_string())?.port(), s2.local_addr().map_err(|e| e.to_string())?.port());
        let got2 = Arc::new(AtomicBool::new(false));
        let g2 = got2.clone();
        tokio::spawn(async move {
            let mut buf = [0u8; 1500];
            while let Ok((_n, _from)) = s2.recv_from(&mut buf).await {
                g2.store(true, AO::SeqCst);
            }
        });
        tokio::spawn(async move {
            let mut buf = [0u8; 1500];
            while let Ok((n, from)) = s1.recv_from(&mut buf).await {
                let Ok(q) = Message::from_vec(&buf[..n]) else { continue };
                let mut m = Message::query();
                m.metadata.id = q.metadata.id;
                if let Some(qq) = q.queries.first() {
                    m.add_query(qq.clone());
                }
                let mut m = m.into_response();
                m.metadata.response_code = ResponseCode::NXDomain;
                tokio::time::sleep(Duration::from_millis(d_ms)).await;
                if let Ok(bytes) = m.to_vec() {
                    let _ = s1.send_to(&bytes, from).await;
                }
            }
        });
        let mut opts = ResolverOpts::default();
        opts.timeout = Duration::from_millis(t_ms);
        opts.num_concurrent_reqs = 1;
        opts.server_ordering_strategy = ServerOrderingStrategy::UserProvidedOrder;
        let mut c1 = ConnectionConfig::udp();
        c1.port = p1;
        let mut c2 = ConnectionConfig::udp();
        c2.port = p2;
        let servers = vec![
            NameServerConfig::new(IpAddr::V4(Ipv4Addr::new(127, 0, 0, 1)), false, vec![c1]),
            NameServerConfig::new(IpAddr::V4(Ipv4Addr::new(127, 0, 0, 2)), true, vec![c2]),
        ];
        let cx = Arc::new(PoolContext::new(opts, TlsConfig::new().map_err(|e| e.to_string())?));
        let pool = NameServerPool::from_config(servers, cx, TokioRuntimeProvider::new());
        let req = DnsRequest::from_query(Query::new(q_name(), RecordType::A), DnsRequestOptions::default());
        let start = Instant::now();
        let r = pool.send(req).first_answer().await;
        let elapsed = start.elapsed().as_millis() as u64;
        Ok((classify(&r), elapsed, got2.load(AO::SeqCst)))
    })
}

// ------------------------------------------------------------------------------------------------
// the property's oracle (independent of the model)
// ------------------------------------------------------------------------------------------------

/// first step of the script the pool would use first for this server
#[allow(dead_code)]
fn first_rep(s: &Srv) -> Rep {
    match (&s.udp, &s.tcp) {
        (Some(u), _) if !s.pre_tcp || s.pre_udp => u[0].rep,
        (_, Some(t)) => t[0].rep,
        (Some(u), None) => u[0].rep,
        (None, None) => unreachable!(),
    }
}

fn all_steps(s: &Srv) -> impl Iterator<Item = &Step> {
    s.udp.iter().flatten().chain(s.tcp.iter().flatten())
}

fn oracle(c: &Case, o: &RunOut, valid: bool, idx: usize, rec: &mut Recorder) {
    let t_us = c.t_ms * 1000;
    let res: Vec<&(String, u64, u64)> = o.callers.iter().collect();

    // (1) every caller completes with an answer or an error — no other outcome class exists; a hang
    //     or a panic was reported by the caller of this function.
    for r in &res {
        if !(r.0.starts_with("ans:") || r.0.starts_with("err:")) {
            rec.fail(idx, format!("lookup completed with neither an answer nor an error: {}", r.0), "");
        }
    }

    // (2) deadline: completion no later than the configured timeout (real clock in paced mode; in
    //     virtual mode the timeout is far away by construction, so this only guards the harness).
    for r in &res {
        let (virt, real) = (r.1, r.2);
        if c.paced {
            if valid && real > t_us + TOL_US && virt > t_us + TOL_US {
                // (the overrun by a whole server round, finding C18-F1, was repaired by 92faead: any
                //  overrun is a violation again)
                rec.fail(
                    idx,
                    format!(
                        "lookup completed {} ms after it started (result {}), configured timeout {} ms",
                        real / 1000,
                        r.0,
                        c.t_ms
                    ),
                    "",
                );
                break;
            }
        } else if virt > t_us {
            rec.fail(idx, format!("virtual completion {} ms beyond the timeout {} ms", virt / 1000, c.t_ms), "");
            break;
        }
    }

    // (3) concurrent identical queries share one upstream exchange and all receive its result
    if c.cx.is_none() && c.k > 1 && comparable(c) && o.callers[0].1 > 0 {
        if !o.callers.iter().all(|x| x.0 == o.callers[0].0) {
            rec.fail(idx, "concurrent identical queries received different results", "");
        }
        if !c.paced {
            // (callers that arrive while the first lookup is in flight: completion time > 0)
            let mut c1 = c.clone();
            c1.k = 1;
            match catch(|| run_case(&c1)) {
                Ok(Ok(o1)) => {
                    if log_tok(&o1.log, true) != log_tok(&o.log, true) {
                        rec.fail(
                            idx,
                            format!(
                                "{} concurrent identical queries caused upstream exchanges [{}], a single query causes [{}]",
                                c.k,
                                log_tok(&o.log, true),
                                log_tok(&o1.log, true)
                            ),
                            "",
                        );
                    }
                }
                _ => rec.fail(idx, "reference run with one caller failed", ""),
            }
        }
    }
    if let (Some(_), Some(j)) = (&o.creator, &o.joiner) {
        // creator cancelled while waiters are still being served, then an identical query arrives
        // while the first exchange is still in flight: it must share that exchange
        let (tc, tj) = c.cx.unwrap();
        let inflight_at_join = o.callers.iter().any(|w| w.1 > tj * 1000);
        let creator_cancelled = matches!(o.creator, Some(None));
        if creator_cancelled && inflight_at_join {
            let started_after_join = o.log.iter().filter(|e| e.start_us >= tj * 1000).count();
            let w = &o.callers[0];
            // sharing means: the joiner completes together with the waiters
            if j.1 != w.1 || j.0 != w.0 {
                rec.fail(
                    idx,
                    format!(
                        "identical query arriving at {} ms while the exchange started at 0 ms is still in flight (creator cancelled at {} ms, waiters served at {} ms) did not share it: it completed at {} ms with {} after {} further upstream exchanges",
                        tj,
                        tc,
                        w.1 / 1000,
                        j.1 / 1000,
                        j.0,
                        started_after_join
                    ),
                    "dedup-split-after-creator-cancel",
                );
            }
        }
    }

    if c.cx.is_some() {
        return;
    }
    // with an answer address filter configured the caller's result is the pool's result minus the denied
    // records (by configuration): the clauses below speak about the unfiltered lookup
    if DENY.with(|d| d.get()).is_some() {
        return;
    }
    // the remaining clauses speak about ONE lookup; with zero-latency replies several callers are
    // served by several consecutive lookups whose exchanges are merged in the log
    if c.k > 1 && c.srvs.iter().flat_map(all_steps).any(|st| st.lat_ms == 0) {
        return;
    }
    let r0 = &o.callers[0];

    // (4) a truncated UDP reply is retried over TCP (same server), unless the lookup ended first
    // (with a zero-latency reply the members of a batch are not all started before the first reply is
    //  handled, so "the lookup ended in the same round" cannot be read off the log: clause skipped)
    let zero_lat = c.srvs.iter().flat_map(all_steps).any(|st| st.lat_ms == 0);
    for (i, e) in o.log.iter().enumerate() {
        if zero_lat {
            break;
        }
        if e.rep == Rep::Tc && !e.tcp && c.srvs[e.srv].tcp.is_some() {
            let Some(end) = e.end_us else { continue };
            let retried = o.log[i + 1..].iter().any(|x| x.srv == e.srv && x.tcp && x.start_us >= end);
            // the lookup may end inside the same round: with the deadline, or with a reply that ends a
            // lookup by design (answer, trusted NXDOMAIN, NODATA, SERVFAIL, REFUSED) from a request that
            // was already in flight when the truncated reply arrived
            let terminal = |x: &Ex| matches!(x.rep, Rep::Ans | Rep::Nd | Rep::Sf | Rep::Rf) || (x.rep == Rep::Nx && c.srvs[x.srv].trust);
            // (a server request is a unit: the exchange after a reconnect continues the request)
            let request_start = |x: &Ex| {
                o.log.iter().find(|y| y.srv == x.srv && y.rep == Rep::Rst && y.end_us == Some(x.start_us)).map(|y| y.start_us).unwrap_or(x.start_us)
            };
            let ended_in_batch = r0.0 == "err:timeout"
                || o.log.iter().any(|x| x.end_us == Some(r0.1) && request_start(x) <= end && terminal(x));
            if !retried && !ended_in_batch {
                rec.fail(idx, format!("server {} answered truncated over UDP at {} ms and was never retried over TCP (result {})", e.srv, end / 1000, r0.0), "");
            }
        }
    }

    // (5) an NXDOMAIN from a server not trusted for negative answers does not end the search:
    //     if the lookup ends with that NXDOMAIN, every other server must have been tried (or be
    //     unusable under the protocol policy), or the deadline must have passed.
    if r0.0 == "err:nx" {
        let trusted_nx = o.log.iter().any(|e| e.rep == Rep::Nx && e.end_us.is_some() && c.srvs[e.srv].trust);
        if !trusted_nx {
            let udp_off = o.log.iter().any(|e| matches!(e.rep, Rep::Tc | Rep::Cm) && e.end_us.is_some());
            for (i, s) in c.srvs.iter().enumerate() {
                let tried = o.log.iter().any(|e| e.srv == i);
                let unusable = udp_off && s.tcp.is_none();
                if !tried && !unusable && r0.1 < t_us {
                    rec.fail(idx, format!("lookup ended with an untrusted NXDOMAIN although server {i} was never tried"), "");
                }
            }
        }
    }

    // (6) a lookup returns the answer of a healthy server whenever one exists and the budget allows.
    //     Evaluated when every server is either healthy (its first reply is a positive answer, or a
    //     truncated UDP reply followed by a positive TCP answer) or suffers only transport faults
    //     (unreachable / reset / timeout / busy-then-anything), or answers an untrusted NXDOMAIN.
    let all_ans = |v: &Option<Vec<Step>>| v.as_ref().map(|v| v.iter().all(|st| st.rep == Rep::Ans)).unwrap_or(true);
    let healthy = |s: &Srv| {
        (all_ans(&s.udp) && all_ans(&s.tcp))
            || (s.tcp.is_some() && all_ans(&s.tcp) && s.udp.as_ref().map(|v| v.iter().all(|st| st.rep == Rep::Tc)).unwrap_or(false))
    };
    let impaired = |s: &Srv| {
        let okstep = |st: &Step, udp: bool| st.rep.is_fault() || st.rep == Rep::Ans || (st.rep == Rep::Nx && !s.trust) || (udp && st.rep == Rep::Tc && s.tcp.is_some());
        s.udp.iter().flatten().all(|st| okstep(st, true)) && s.tcp.iter().flatten().all(|st| okstep(st, false))
    };
    let in_scope = c.srvs.iter().all(|s| healthy(s) || impaired(s));
    let any_healthy = c.srvs.iter().any(healthy);
    if in_scope && any_healthy {
        // generous budget: every scripted step of every server one after the other + all back-offs
        let worst: u64 = c.srvs.iter().map(|s| all_steps(s).map(|st| st.lat_ms).sum::<u64>()).sum::<u64>() + 300;
        if worst * 1000 + TOL_US < t_us {
            let ok = match r0.0.strip_prefix("ans:s") {
                Some(rest) => {
                    let i: usize = rest.trim_end_matches(|ch| ch == 'u' || ch == 't').parse().unwrap_or(99);
                    i < c.srvs.len()
                }
                None => false,
            };
            if !ok {
                // narrow class of the one deviation met: a truncated reply switched the whole lookup to
                // TCP and the healthy servers that are UDP-only were dropped from the queue unasked
                let tc_seen = o.log.iter().any(|e| e.rep == Rep::Tc && e.end_us.is_some());
                let healthy_untried_udp_only = c.srvs.iter().enumerate().any(|(i, s)| healthy(s) && s.tcp.is_none() && !o.log.iter().any(|e| e.srv == i));
                let class = if tc_seen && healthy_untried_udp_only { "healthy-udp-only-server-skipped-after-truncation" } else { "" };
                rec.fail(
                    idx,
                    format!("a healthy server exists and the time budget allows ({} ms worst case of {} ms) but the lookup returned {}", worst, c.t_ms, r0.0),
                    class,
                );
            }
        }
    }
}

// ------------------------------------------------------------------------------------------------
// generators
// ------------------------------------------------------------------------------------------------

const BIG_T: u64 = 3_600_000;

fn mix(a: u64, b2: u64) -> u64 {
    let mut r = Rng::new(a.wrapping_mul(0x9E37_79B9).wrapping_add(b2));
    r.next()
}

/// distinct latencies 3..: a seeded permutation of a grid, so that reply orders vary
fn lat_pool(r: &mut Rng, n: usize) -> Vec<u64> {
    let mut v: Vec<u64> = (0..n as u64).map(|i| 3 + 7 * i).collect();
    for i in (1..v.len()).rev() {
        let j = r.below(i as u64 + 1) as usize;
        v.swap(i, j);
    }
    v
}

/// the six behaviours of the property's quantifier
const BEHAVIOURS: [&str; 6] = ["ans", "nx", "tc", "to", "io", "busy"];

fn behaviour_script(bh: &str, lats: &mut Vec<u64>, over_tcp: bool) -> Vec<Step> {
    let mut l = || lats.pop().unwrap_or(1);
    match bh {
        "busy" => vec![Step { rep: Rep::Busy, lat_ms: l() }, Step { rep: Rep::Ans, lat_ms: l() }],
        // a truncated reply over TCP would be re-queued over TCP for ever (until the deadline)
        "tc" if over_tcp => vec![Step { rep: Rep::Tc, lat_ms: l() }, Step { rep: Rep::Ans, lat_ms: l() }],
        x => vec![Step { rep: Rep::parse(x).unwrap(), lat_ms: l() }],
    }
}

fn enumerate_a(o: &Opts, rec: &mut Recorder) {
    let nmax = if o.thorough() { 4 } else { 3 };
    let ncrs: &[usize] = if o.thorough() { &[1, 2, 3] } else { &[1, 2] };
    let mut count = 0u64;
    for n in 1..=nmax {
        let total = 6usize.pow(n as u32);
        for code in 0..total {
            let bhs: Vec<&str> = (0..n).map(|i| BEHAVIOURS[(code / 6usize.pow(i as u32)) % 6]).collect();
            for strat in [Strat::User, Strat::Rr, Strat::Qs] {
                for &ncr in ncrs {
                    for avail in 0..4 {
                        for k in [1usize, 3] {
                            for trust in [false, true] {
                                count += 1;
                                let h = mix(o.seed, count);
                                let mut r = Rng::new(h);
                                let mut lats = lat_pool(&mut r, 4 * n + 2);
                                // distinct SRTT ranks for the statistics strategy
                                let mut warm: Vec<u32> = (0..n as u32).collect();
                                for i in (1..n).rev() {
                                    let j = r.below(i as u64 + 1) as usize;
                                    warm.swap(i, j);
                                }
                                let srvs: Vec<Srv> = (0..n)
                                    .map(|i| {
                                        // availability: 0 all UDP-only, 1 all UDP+TCP, 2 all TCP-only, 3 mixed
                                        let av = if avail == 3 { (i + (h as usize >> 8)) % 3 } else { avail };
                                        let tcp_alt = ["ans", "io", "nx", "tc", "to"][(h as usize >> (3 * i + 11)) % 5];
                                        let (udp, tcp) = match av {
                                            0 => (Some(behaviour_script(bhs[i], &mut lats, false)), None),
                                            1 => (
                                                Some(behaviour_script(bhs[i], &mut lats, false)),
                                                Some(behaviour_script(if bhs[i] == "tc" { tcp_alt } else { "ans" }, &mut lats, true)),
                                            ),
                                            _ => (None, Some(behaviour_script(bhs[i], &mut lats, true))),
                                        };
                                        Srv { trust, warm: if strat == Strat::Qs { warm[i] } else { 0 }, pre_udp: false, pre_tcp: false, udp, tcp, ord: 0 }
                                    })
                                    .collect();
                                let c = Case {
                                    paced: false,
                                    strat,
                                    ncr,
                                    t_ms: BIG_T,
                                    pre: if strat == Strat::Rr { (h >> 40) as usize % 4 } else { 0 },
                                    k,
                                    cx: None,
                                    srvs,
                                };
                                exec(&case_line(&c), rec);
                            }
                        }
                    }
                }
            }
        }
    }
}

fn gen_script(r: &mut Rng, lats: &mut Vec<u64>, tcp: bool) -> Vec<Step> {
    let len = if r.chance(2, 3) { 1 } else { r.range(2, 4) as usize };
    let mut v = vec![];
    for i in 0..len {
        let rep = match r.below(20) {
            0..=4 => Rep::Ans,
            5 | 6 => Rep::Nx,
            7 => Rep::Nd,
            8 => Rep::Sf,
            9 => Rep::Rf,
            10 | 11 => Rep::Tc,
            12 | 13 => Rep::To,
            14 | 15 => Rep::Io,
            16 => Rep::Rst,
            17 | 18 => Rep::Busy,
            _ => {
                if r.chance(1, 2) {
                    Rep::Cm
                } else {
                    Rep::Cf
                }
            }
        };
        // the last step repeats: a TCP script must not end re-queueing itself for ever
        let rep = if i == len - 1 && tcp && matches!(rep, Rep::Tc | Rep::Cm) { Rep::Ans } else { rep };
        let lat_ms = if r.chance(1, 12) { 0 } else if r.chance(1, 8) { *r.pick(&[5u64, 10, 20, 40]) } else { lats.pop().unwrap_or(2) };
        v.push(Step { rep, lat_ms });
    }
    v
}

fn random_a(o: &Opts, rec: &mut Recorder) {
    let mut r = Rng::new(o.seed ^ 0xC18);
    for _ in 0..o.n(6000, 150_000) {
        let n = if r.chance(1, 10) { r.range(5, 6) } else { r.range(1, 4) } as usize;
        let strat = *r.pick(&[Strat::User, Strat::User, Strat::Rr, Strat::Qs]);
        let mut lats = lat_pool(&mut r, 6 * n + 4);
        let mut warm: Vec<u32> = (0..n as u32).collect();
        for i in (1..n).rev() {
            let j = r.below(i as u64 + 1) as usize;
            warm.swap(i, j);
        }
        let cancel = strat == Strat::User && r.chance(1, 6);
        let use_pre = !cancel && strat != Strat::Rr && r.chance(1, 5);
        let srvs: Vec<Srv> = (0..n)
            .map(|i| {
                let av = if cancel { r.below(2) * 2 } else { r.below(4) };
                let mut udp = if av != 2 { Some(gen_script(&mut r, &mut lats, false)) } else { None };
                let mut tcp = if av >= 1 { Some(gen_script(&mut r, &mut lats, true)) } else { None };
                if cancel {
                    let fix = |s: &mut Option<Vec<Step>>, tcp: bool| {
                        if let Some(v) = s {
                            v.truncate(1);
                            if v[0].rep == Rep::Rst || (tcp && matches!(v[0].rep, Rep::Tc | Rep::Cm)) {
                                v[0].rep = Rep::Io;
                            }
                        }
                    };
                    fix(&mut udp, false);
                    fix(&mut tcp, true);
                }
                let qs_warm = strat == Strat::Qs && !use_pre;
                Srv {
                    trust: r.chance(1, 2),
                    warm: if qs_warm { if r.chance(1, 30) { 0 } else { warm[i] } } else { 0 },
                    pre_udp: use_pre && udp.is_some() && r.chance(1, 3),
                    pre_tcp: use_pre && tcp.is_some() && r.chance(1, 3),
                    udp,
                    tcp,
                    ord: if r.chance(1, 3) { r.below(4) as u8 } else { 0 },
                }
            })
            .collect();
        let c = Case {
            paced: false,
            strat,
            ncr: *r.pick(&[0usize, 1, 1, 2, 2, 2, 3, 4]),
            t_ms: BIG_T,
            pre: if strat == Strat::Rr { r.below(6) as usize } else { 0 },
            k: if cancel { r.range(1, 3) as usize } else { *r.pick(&[1usize, 1, 2, 3, 4]) },
            cx: if cancel {
                let a = r.range(1, 60);
                Some((a, a + r.range(1, 60)))
            } else {
                None
            },
            srvs,
        };
        let line = case_line(&c);
        exec(&line, rec);
        // the same lookup behind an answer address filter (every fourth plain case)
        if c.cx.is_none() && r.chance(1, 4) {
            let deny = *r.pick(&["u", "t", "ut", "-"]);
            exec(&format!("runf {deny} {}", &line[4..]), rec);
        }
    }
}

/// the retry layer over a plain handle, and the request without a question
fn gen_small(o: &Opts, rec: &mut Recorder) {
    exec("noq", rec);
    const OUTS: [&str; 9] = ["ans", "noconn", "timeout", "io", "busy", "msg", "nx", "nodata", "rcode"];
    let mut r = Rng::new(o.seed ^ 0x47);
    for _ in 0..o.n(400, 5000) {
        let n = r.range(1, 7) as usize;
        let mut outs: Vec<&str> = (0..n).map(|_| if r.chance(1, 3) { "busy" } else { *r.pick(&OUTS) }).collect();
        if outs.last() == Some(&"busy") {
            outs.push(*r.pick(&["ans", "timeout", "nx", "rcode"]));
        }
        exec(&format!("rt {} {}", r.below(4), outs.join(" ")), rec);
    }
}

fn random_seq(o: &Opts, rec: &mut Recorder) {
    let mut r = Rng::new(o.seed ^ 0x5E9);
    for _ in 0..o.n(3000, 40_000) {
        let n = r.range(1, 4) as usize;
        let mut lats = lat_pool(&mut r, 6 * n + 4);
        let use_pre = r.chance(1, 4);
        let srvs: Vec<Srv> = (0..n)
            .map(|_| {
                let av = r.below(4);
                let fix = |mut v: Vec<Step>| {
                    for st in v.iter_mut() {
                        if st.lat_ms == 0 {
                            st.lat_ms = 1;
                        }
                        // connection-level events matter here: more resets
                        if st.rep == Rep::Cm {
                            st.rep = Rep::Rst;
                        }
                        if st.rep == Rep::Io && st.lat_ms % 2 == 0 {
                            st.rep = Rep::Cf;
                        }
                    }
                    v
                };
                let udp = if av != 2 { Some(fix(gen_script(&mut r, &mut lats, false))) } else { None };
                let tcp = if av >= 1 { Some(fix(gen_script(&mut r, &mut lats, true))) } else { None };
                Srv { trust: r.chance(1, 2), warm: 0, pre_udp: use_pre && udp.is_some() && r.chance(1, 2), pre_tcp: use_pre && tcp.is_some() && r.chance(1, 2), udp, tcp, ord: r.below(4) as u8 }
            })
            .collect();
        let strat = if r.chance(1, 2) { "user" } else { "rr" };
        let ncr = *r.pick(&[0usize, 1, 1, 2, 2, 3]);
        let att = match r.below(4) {
            0 => "-".to_string(),
            x => (x - 1).to_string(),
        };
        let mut line = format!("seq {} {} {} {} {} {}", strat, ncr, BIG_T, att, r.range(1, 4), *r.pick(&[0u64, 1, 10, 100]));
        for sv in &srvs {
            line.push(' ');
            line.push_str(&srv_tok(sv));
        }
        exec(&line, rec);
    }
}

/// directed sharing schedules (quick and thorough)
const SHARE_DIRECTED: &[&str] = &[
    // everybody joins while the creator is alive; any polling order; late resumes
    "sA sB sC r1 pA pB pC",
    "sA sB sC r1 pC pB pA",
    "sA sB sC sD r1 pB pD pA pC",
    "sA sB r1 sC pA pB",
    "sA sB r1 pB sC pA sD r2 pD",
    // (a) a WAITER dropped mid-flight must not touch the map: the next identical query still joins
    "sA sB dB sC r1 pA pC",
    "sA sB sC dB sD r1 pA pC pD",
    "sA sB dB sC dC sD r1 pD pA",
    "sA sB sC dC dB sD r1 pA pD",
    // (b) a waiter resumed late — after its lookup finished and a NEWER lookup was registered under the
    // same key — must not remove the newer entry: a further query joins lookup 2
    "sA sB r1 pA sC pB sD r2 pC pD",
    "sA sB sC r1 pA sD pB pC r2 pD",
    "sA sB r1 pA sC pB sD pB r2 pD pC",
    "sA sB sC r1 pA sD pC pB r2 pD",
    // the creator returns: the key is free again, the next query starts lookup 2
    "sA r1 pA sB r2 pB",
    "sA sB r1 pA pB sC r2 pC",
    // the answer is already there when the query arrives
    "r1 sA sB r2 pB",
    // a waiter finishes the lookup before the creator is polled: late callers still get result 1
    "sA sB r1 pB sC pA sD",
    // everybody dropped: the lookup is gone, a new query starts afresh
    "sA dA sB r1 r2 pB",
    "sA sB dB dA sC r2 pC",
    // known finding dedup-split-after-creator-cancel: the CREATOR dropped while a waiter still waits
    "sA sB dA sC r1 pB r2 pC",
    "sA sB sC dA sD r1 pB pC r2 pD",
    "sA sB dA sC dC sD r1 pB r3 pD",
    // what makes two requests "identical" (CacheKey): DO bit, RD, CD, query type, client subnet separate them;
    // the mere presence of EDNS does not
    "sA sB1 sC5 r1 pA pC r2 pB",
    "sA sB sC1 sD1 r1 pA pB r2 pC pD",
    "sA2 sB3 sC4 sD6 r1 r2 r3 r4 pA pB pC pD",
    "sA6 sB6 sC5 r1 pA pB r2 pC",
    "sA1 sB1 dB sC1 r1 pA pC",
    "sA4 sB r2 pB r1 pA sC4 sD",
    "sA sB5 dA sC5 r1 pB r2 pC",
];

fn gen_share(o: &Opts, rec: &mut Recorder) {
    for l in SHARE_DIRECTED {
        exec(&format!("share {l}"), rec);
    }
    let mut r = Rng::new(o.seed ^ 0x5A4E);
    for _ in 0..o.n(1500, 60_000) {
        let len = r.range(3, 14) as usize;
        let mut started = [false; 4];
        let mut nstarted = 0usize;
        let mut toks: Vec<String> = vec![];
        let with_variants = r.chance(1, 3);
        for _ in 0..len {
            let pick = r.below(10);
            let not_started: Vec<usize> = (0..4).filter(|x| !started[*x]).collect();
            let alive: Vec<usize> = (0..4).filter(|x| started[*x]).collect();
            if (pick < 4 || alive.is_empty()) && !not_started.is_empty() {
                let x = *r.pick(&not_started);
                started[x] = true;
                nstarted += 1;
                let var = if with_variants && r.chance(1, 2) { format!("{}", *r.pick(&[1u8, 1, 2, 3, 4, 5, 5, 6])) } else { String::new() };
                toks.push(format!("s{}{}", (b'A' + x as u8) as char, var));
            } else if pick < 6 && !alive.is_empty() {
                toks.push(format!("d{}", (b'A' + *r.pick(&alive) as u8) as char));
            } else if pick < 8 {
                toks.push(format!("r{}", r.range(1, (nstarted as u64 + 1).min(8))));
            } else if !alive.is_empty() {
                toks.push(format!("p{}", (b'A' + *r.pick(&alive) as u8) as char));
            }
        }
        if toks.is_empty() {
            continue;
        }
        exec(&format!("share {}", toks.join(" ")), rec);
    }
}

/// paced (real clock) cases: families around the deadline.  Latencies sit on a coarse grid, the
/// timeout between grid points, so that every decision has a margin of ≥ 40 ms by construction.
fn gen_b(o: &Opts) -> Vec<String> {
    let mut v = vec![];
    let st = |rep: Rep, lat_ms: u64| Step { rep, lat_ms };
    let udp_only = |steps: Vec<Step>, trust: bool| Srv { trust, warm: 0, pre_udp: false, pre_tcp: false, udp: Some(steps), tcp: None, ord: 0 };
    let mk = |strat: Strat, ncr: usize, t_ms: u64, k: usize, srvs: Vec<Srv>| case_line(&Case { paced: true, strat, ncr, t_ms, pre: 0, k, cx: None, srvs });
    let mut r = Rng::new(o.seed ^ 0xB18);
    let reps = if o.thorough() { 6 } else { 1 };
    for rep_i in 0..reps {
        let t = [200u64, 260, 320, 180, 240, 300][rep_i % 6];
        let g = t / 10; // grid unit
        // b1: sequential failures cross the deadline between rounds → Timeout at the check
        v.push(mk(Strat::User, 1, t, 1, vec![udp_only(vec![st(Rep::Io, 6 * g)], true), udp_only(vec![st(Rep::Io, 6 * g)], true), udp_only(vec![st(Rep::Ans, g)], true)]));
        // b2: regression for the repaired finding C18-F1 — server 1 fails at 0.8 T, server 2 (started
        //     before the deadline) would only give up after its own timeout T: abandoned at the deadline
        v.push(mk(Strat::User, 1, t, 1, vec![udp_only(vec![st(Rep::Io, 8 * g)], true), udp_only(vec![st(Rep::To, t)], true)]));
        // b2': … or answers late
        v.push(mk(Strat::User, 1, t, 3, vec![udp_only(vec![st(Rep::Io, 8 * g)], true), udp_only(vec![st(Rep::Ans, 7 * g)], true)]));
        // within budget: the same with early replies
        v.push(mk(Strat::User, 1, t, 1, vec![udp_only(vec![st(Rep::Io, 2 * g)], true), udp_only(vec![st(Rep::Ans, 3 * g)], true)]));
        // single server that never answers: its own timeout = T races the pool's deadline (a tie by
        // nature: implementation-vs-oracle only), and a shorter stream timeout
        v.push(mk(Strat::User, 2, t, 1, vec![udp_only(vec![st(Rep::To, t)], true)]));
        v.push(mk(Strat::User, 2, t, 1, vec![udp_only(vec![st(Rep::To, 7 * g)], true)]));
        // reset on a REUSED connection at 0.75 T, the reconnected request would end at 1.75 T: the
        // reconnect is inside the request that is raced against the deadline
        v.push(mk(
            Strat::User,
            1,
            t,
            1,
            vec![Srv { trust: true, warm: 0, pre_udp: true, pre_tcp: false, udp: Some(vec![st(Rep::Rst, 15 * g / 2), st(Rep::To, t)]), tcp: None, ord: 0 }],
        ));
        // b3: everybody busy: back-off 20,40,80,… capped by the remaining budget → Timeout at T
        v.push(mk(Strat::User, 2, 105, 1, vec![udp_only(vec![st(Rep::Busy, 1)], true)]));
        // back-off exhausted before the deadline (20+40+80+160 = 300 ms < T)
        v.push(mk(Strat::User, 2, 420, 1, vec![udp_only(vec![st(Rep::Busy, 1)], true)]));
        // busy then answer after the first back-off
        v.push(mk(Strat::Rr, 1, t, 2, vec![udp_only(vec![st(Rep::Busy, g), st(Rep::Ans, 2 * g)], true), udp_only(vec![st(Rep::Io, 3 * g)], true)]));
        // parallel batch: the slow members would keep the round open across the deadline
        v.push(mk(Strat::User, 2, t, 1, vec![udp_only(vec![st(Rep::Io, 2 * g)], true), udp_only(vec![st(Rep::To, 8 * g)], true), udp_only(vec![st(Rep::To, 7 * g)], true)]));
        // truncated → TCP within the budget, and across the deadline
        let both = |u: Vec<Step>, tc: Vec<Step>| Srv { trust: true, warm: 0, pre_udp: false, pre_tcp: false, udp: Some(u), tcp: Some(tc), ord: 0 };
        v.push(mk(Strat::User, 1, t, 1, vec![both(vec![st(Rep::Tc, 2 * g)], vec![st(Rep::Ans, 3 * g)])]));
        v.push(mk(Strat::User, 1, t, 1, vec![both(vec![st(Rep::Tc, 7 * g)], vec![st(Rep::Ans, 8 * g)])]));
        // TCP keeps answering truncated: re-queued until the deadline ends the loop
        v.push(mk(Strat::User, 1, t, 1, vec![both(vec![st(Rep::Tc, 5 * g / 2)], vec![st(Rep::Tc, 3 * g)])]));
        // parallel batches (ncr 2 and 3): a NON-FINAL reply (I/O error, reset, busy, untrusted NXDOMAIN,
        // truncated) arrives at 0.3 / 0.6 / 0.9 T next to peers of the same batch that never reply (or
        // reply after T): the wait for the remaining replies must still end at the deadline, not a full
        // budget after the last reply.  Single and multiple non-final replies, first and later rounds.
        {
            let tp = [260u64, 300, 340, 280, 320, 360][rep_i % 6];
            let at = |tenths: u64| tp * tenths / 10;
            let hang = || udp_only(vec![st(Rep::To, 3 * tp)], true);
            let late_ans = || udp_only(vec![st(Rep::Ans, at(14))], true);
            let nonfinal = |kind: usize, lat: u64| -> Srv {
                match kind {
                    0 => udp_only(vec![st(Rep::Io, lat)], true),
                    1 => udp_only(vec![st(Rep::Rst, lat)], true),
                    2 => udp_only(vec![st(Rep::Busy, lat), st(Rep::To, 3 * tp)], true),
                    3 => udp_only(vec![st(Rep::Nx, lat)], false),
                    _ => both(vec![st(Rep::Tc, lat)], vec![st(Rep::To, 3 * tp)]),
                }
            };
            for kind in 0..5 {
                for tenths in [3u64, 6, 9] {
                    // one hanging peer, batch of two; non-final server first or second in the batch
                    v.push(mk(Strat::User, 2, tp, 1, vec![nonfinal(kind, at(tenths)), hang()]));
                    // two hanging peers, batch of three
                    v.push(mk(Strat::User, 3, tp, 1, vec![hang(), nonfinal(kind, at(tenths)), hang()]));
                    // a peer that answers after the deadline
                    v.push(mk(Strat::User, 2, tp, if kind == 0 { 3 } else { 1 }, vec![late_ans(), nonfinal(kind, at(tenths))]));
                }
                // several non-final replies in one batch of three, then silence
                v.push(mk(Strat::User, 3, tp, 1, vec![nonfinal(kind, at(3)), nonfinal((kind + 1) % 4, at(6)), hang()]));
                v.push(mk(Strat::User, 3, tp, 1, vec![nonfinal(kind, at(2)), nonfinal((kind + 3) % 4, at(5)), nonfinal((kind + 2) % 4, at(8)), hang()]));
                // later round: the first batch fails completely at 0.2 T, the second has a non-final reply at
                // 0.2 T + 0.4 T next to a hanging peer
                v.push(mk(
                    Strat::User,
                    2,
                    tp,
                    1,
                    vec![udp_only(vec![st(Rep::Io, at(1))], true), udp_only(vec![st(Rep::Io, at(2))], true), nonfinal(kind, at(4)), hang()],
                ));
            }
            // reset on a REUSED connection inside a parallel batch: the reconnected request hangs
            v.push(mk(
                Strat::User,
                2,
                tp,
                1,
                vec![Srv { trust: true, warm: 0, pre_udp: true, pre_tcp: false, udp: Some(vec![st(Rep::Rst, at(5)), st(Rep::To, 3 * tp)]), tcp: None, ord: 0 }, hang()],
            ));
        }
        // random grid cases
        for _ in 0..(if o.thorough() { 12 } else { 10 }) {
            let n = r.range(1, 3) as usize;
            let mut slots: Vec<u64> = vec![2, 4, 6, 8, 3, 5, 7, 9];
            for i in (1..slots.len()).rev() {
                let j = r.below(i as u64 + 1) as usize;
                slots.swap(i, j);
            }
            let srvs: Vec<Srv> = (0..n)
                .map(|_| {
                    let rep = *r.pick(&[Rep::Ans, Rep::Io, Rep::Io, Rep::To, Rep::Nx, Rep::To]);
                    udp_only(vec![st(rep, slots.pop().unwrap() * g + g / 2 * 0)], r.chance(1, 2))
                })
                .collect();
            v.push(mk(*r.pick(&[Strat::User, Strat::Rr]), r.range(1, 2) as usize, t + g / 2, *r.pick(&[1usize, 1, 3]), srvs));
        }
    }
    v
}

/// paced cases run concurrently (they mostly sleep); results are recorded in generation order
fn run_paced(lines: Vec<String>, rec: &mut Recorder) {
    let threads = 6usize;
    let n = lines.len();
    let lines = Arc::new(lines);
    let next = Arc::new(std::sync::atomic::AtomicUsize::new(0));
    let results: Arc<Mutex<Vec<Option<Result<Result<RunOut, String>, String>>>>> = Arc::new(Mutex::new((0..n).map(|_| None).collect()));
    let mut hs = vec![];
    for _ in 0..threads.min(n.max(1)) {
        let (lines, next, results) = (lines.clone(), next.clone(), results.clone());
        hs.push(std::thread::spawn(move || loop {
            let i = next.fetch_add(1, AO::SeqCst);
            if i >= lines.len() {
                break;
            }
            let t: Vec<&str> = lines[i].split_whitespace().collect();
            let Some(c) = parse_case(&t) else { continue };
            let r = catch(|| {
                let mut last = None;
                for _ in 0..3 {
                    let o = run_case(&c);
                    let ok = match &o {
                        Ok(o) => o.max_late_us <= J_US,
                        Err(_) => true,
                    };
                    last = Some(o);
                    if ok {
                        break;
                    }
                }
                last.unwrap()
            });
            results.lock().unwrap()[i] = Some(r);
        }));
    }
    for h in hs {
        let _ = h.join();
    }
    let mut results = results.lock().unwrap();
    for (i, l) in lines.iter().enumerate() {
        let t: Vec<&str> = l.split_whitespace().collect();
        match (parse_case(&t), results[i].take()) {
            (Some(c), Some(r)) => finish_case(l, &c, r, rec),
            _ => {
                rec.case(l.clone(), "bad-op".into());
            }
        }
    }
}

pub fn run(o: &Opts, rec: &mut Recorder) {
    rec.rule = "one lookup (k concurrent callers) through the real NameServerPool over scripted per-(server,protocol) handles; mode A: virtual time, exact comparison of result / exchange log / completion time with the model; mode B: virtual time paced against the real clock so that the pool's std::time::Instant deadline is live. Non-trivial: more than one upstream exchange, or more than one caller, or a back-off sleep; distinct by case line".into();
    // corpus / replay lines first (paced ones concurrently)
    let (paced, plain): (Vec<String>, Vec<String>) = o.pre_lines.iter().cloned().partition(|l| l.starts_with("run B "));
    for l in plain {
        exec(&l, rec);
    }
    run_paced(paced, rec);
    rec.corpus_cases = rec.cases.len();
    if o.replay_only {
        return;
    }
    let t0 = Instant::now();
    enumerate_a(o, rec);
    eprintln!("c18: enumeration {} cases {:?}", rec.cases.len(), t0.elapsed());
    random_a(o, rec);
    eprintln!("c18: +random {} cases {:?}", rec.cases.len(), t0.elapsed());
    random_seq(o, rec);
    eprintln!("c18: +seq {} cases {:?}", rec.cases.len(), t0.elapsed());
    gen_small(o, rec);
    gen_share(o, rec);
    eprintln!("c18: +share {} cases {:?}", rec.cases.len(), t0.elapsed());
    run_paced(gen_b(o), rec);
    eprintln!("c18: +paced {} cases {:?}", rec.cases.len(), t0.elapsed());
    exec("real 300 240", rec);
    exec("real 300 180", rec);
    exec("realtcp 300 180", rec);
    exec("realtcp 300 20", rec);
}
