//! The two upstream fuzz oracles (fuzz/fuzz_targets/message.rs and preserve_rdata.rs of the hickory
//! repository) ported as implementation-side oracles: same rules, a verdict string instead of a panic.
//! The helper code below `compare_rr` is the upstream code verbatim.
#![allow(dead_code)]
use std::fmt::Debug;

use hickory_proto::op::Message;
use hickory_proto::rr::RData;

/// fuzz_targets/message.rs: `messages_equal`
pub fn messages_equal(original: &Message, reparsed: &Message) -> bool {
    if original == reparsed {
        return true;
    }
    if reparsed.metadata.truncation {
        return true;
    }
    if original.metadata != reparsed.metadata {
        return false;
    }
    if original.queries != reparsed.queries {
        return false;
    }
    records_equal(&original.answers, &reparsed.answers)
        && records_equal(&original.authorities, &reparsed.authorities)
        && records_equal(&original.additionals, &reparsed.additionals)
}

fn records_equal(a: &[hickory_proto::rr::Record], b: &[hickory_proto::rr::Record]) -> bool {
    a.iter().zip(b.iter()).all(|(x, y)| record_equal(x, y))
}

fn record_equal(record1: &hickory_proto::rr::Record, record2: &hickory_proto::rr::Record) -> bool {
    if record1.record_type() != record2.record_type() {
        return false;
    }
    if record1.data == record2.data {
        return true;
    }
    match (&record1.data, &record2.data) {
        (RData::Update0(_), RData::OPT(opt)) | (RData::OPT(opt), RData::Update0(_)) => opt.as_ref().is_empty(),
        _ => false,
    }
}

/// fuzz_targets/preserve_rdata.rs: `compare`
pub fn preserve_rdata(original: &[u8], reencoded: &[u8]) -> Result<(), String> {
    if reencoded.len() < 12 {
        return Err("re-encoded message shorter than a header".into());
    }
    let query_count = u16::from_be_bytes(reencoded[4..6].try_into().unwrap());
    let answer_count = u16::from_be_bytes(reencoded[6..8].try_into().unwrap());
    let authority_count = u16::from_be_bytes(reencoded[8..10].try_into().unwrap());
    let additional_records_count = u16::from_be_bytes(reencoded[10..12].try_into().unwrap());
    let rr_count = answer_count.wrapping_add(authority_count).wrapping_add(additional_records_count);
    let mut original_rrs = split_rrs(original, query_count, rr_count)
        .map_err(|e| format!("failed to split original message into resource records: {e}"))?;
    let mut reencoded_rrs = split_rrs(reencoded, query_count, rr_count)
        .map_err(|e| format!("failed to split re-encoded message into resource records: {e}"))?;
    sort_opt(&mut original_rrs);
    sort_opt(&mut reencoded_rrs);
    for (original_rr, reencoded_rr) in original_rrs.iter().zip(reencoded_rrs.iter()) {
        match original_rr.has_invalid_compressed_label() {
            Ok(true) => continue,
            Ok(false) => {}
            Err(e) => return Err(format!("failed to check name labels of original RDATA: {e}")),
        }
        if original_rr.r#type != reencoded_rr.r#type {
            return Err(format!(
                "record type changed when decoding and re-encoding: {} vs. {}",
                original_rr.r#type, reencoded_rr.r#type
            ));
        }
        if let Err(e) = compare_rr(original, *original_rr, reencoded, *reencoded_rr) {
            return Err(format!("record RDATA (type {}) was not preserved when decoding and re-encoding: {e}", original_rr.r#type));
        }
    }
    Ok(())
}

fn compare_rr(
    original: &[u8],
    original_rr: Record<'_>,
    reencoded: &[u8],
    reencoded_rr: Record<'_>,
) -> Result<(), &'static str> {
    if original_rr.rdata == reencoded_rr.rdata {
        return Ok(());
    }
    match original_rr.r#type {
        record_types::NS
        | record_types::MD
        | record_types::MF
        | record_types::CNAME
        | record_types::MB
        | record_types::MG
        | record_types::MR
        | record_types::PTR => {
            // RDATA consists of a single `<domain-name>`.
            let original_decompressed = Name::decompress(original_rr.rdata, original)?;
            let reencoded_decompressed = Name::decompress(reencoded_rr.rdata, reencoded)?;
            if original_decompressed == reencoded_decompressed {
                Ok(())
            } else {
                Err("PTR RDATA was not preserved")
            }
        }
        record_types::SOA => {
            // RDATA consists of seven different fields.
            let original_decompressed = Soa::decompress(original_rr.rdata, original)?;
            let reencoded_decompressed = Soa::decompress(reencoded_rr.rdata, reencoded)?;
            if original_decompressed == reencoded_decompressed {
                Ok(())
            } else {
                Err("SOA RDATA was not preserved")
            }
        }
        record_types::MINFO => {
            // RDATA consists of two `<domain-name>`s.
            let original_decompressed = Minfo::decompress(original_rr.rdata, original)?;
            let reencoded_decompressed = Minfo::decompress(reencoded_rr.rdata, reencoded)?;
            if original_decompressed == reencoded_decompressed {
                Ok(())
            } else {
                Err("MINFO RDATA was not preserved")
            }
        }
        record_types::MX => {
            // RDATA consists of a 16-bit integer and a `<domain-name>`.
            let original_decompressed = Mx::decompress(original_rr.rdata, original)?;
            let reencoded_decompressed = Mx::decompress(reencoded_rr.rdata, reencoded)?;
            if original_decompressed == reencoded_decompressed {
                Ok(())
            } else {
                Err("MX RDATA was not preserved")
            }
        }
        record_types::OPT => {
            // Ignore OPT records because they are reconstructed hop-by-hop, not passed through
            // transparently.
            Ok(())
        }
        _ => Err("RDATA was not preserved"),
    }
}

#[derive(Debug, Clone, Copy)]
struct Record<'a> {
    r#type: u16,
    rdata: &'a [u8],
}

impl Record<'_> {
    /// Check if this record is of a non-well-known type, and if it contains a compressed label in
    /// some name in the RDATA.
    ///
    /// If the fuzzer input contains such a label, it is improperly encoded, because only well-known
    /// record types are allowed to use compression in their RDATA. We don't want to enforce that
    /// the re-encoded message preserves the malformed, non-interoperable RDATA, thus, we can skip
    /// further comparisons.
    fn has_invalid_compressed_label(&self) -> Result<bool, &'static str> {
        let Self { r#type, rdata } = self;
        if rdata.is_empty() {
            return Ok(false);
        }
        match *r#type {
            // RFC 1035 types
            record_types::CNAME
            | record_types::MB
            | record_types::MD
            | record_types::MF
            | record_types::MG
            | record_types::MINFO
            | record_types::MR
            | record_types::MX
            | record_types::NS
            | record_types::PTR
            | record_types::SOA => Ok(false),
            record_types::SIG | record_types::RRSIG => {
                // Signer's name appears at an offset of 18 bytes.
                if rdata.len() <= 18 {
                    return Ok(false);
                }
                name_uses_compression(&rdata[18..])
            }
            record_types::SRV => {
                // Target name appears at an offset of 6 bytes.
                if rdata.len() <= 6 {
                    return Ok(false);
                }
                name_uses_compression(&rdata[6..])
            }
            record_types::NAPTR => {
                // The replacement name appears after two fixed length fields and three
                // variable-length `character-string` fields.
                let mut offset = 4;
                for _ in 0..3 {
                    if rdata.len() <= offset {
                        return Ok(false);
                    }
                    let character_string_length = rdata[offset];
                    offset += 1 + character_string_length as usize;
                }
                if rdata.len() <= offset {
                    return Ok(false);
                }
                name_uses_compression(&rdata[offset..])
            }
            record_types::NSEC => name_uses_compression(rdata),
            record_types::SVCB | record_types::HTTPS => {
                // Target name appears at an offset of 2 bytes.
                if rdata.len() <= 2 {
                    return Ok(false);
                }
                name_uses_compression(&rdata[2..])
            }
            record_types::TSIG => name_uses_compression(rdata),
            record_types::ANAME => name_uses_compression(rdata),
            _ => Ok(false),
        }
    }
}

/// Walks through a DNS message and returns slices spanning each resource record in the main three
/// sections.
fn split_rrs(
    buffer: &[u8],
    query_count: u16,
    rr_count: u16,
) -> Result<Vec<Record<'_>>, &'static str> {
    let mut offset = 12;

    // Skip over the question section.
    for _ in 0..query_count {
        if offset >= buffer.len() {
            return Err("question section queries extend past end of message");
        }
        offset += name_length(&buffer[offset..])?; // QNAME
        offset += 2; // QTYPE
        offset += 2; // QCLASS
    }

    let mut output = Vec::new();
    for _ in 0..rr_count {
        offset += name_length(&buffer[offset..])?; // NAME

        // TYPE
        let r#type = u16::from_be_bytes(buffer[offset..offset + 2].try_into().unwrap());
        offset += 2;

        offset += 2; // CLASS

        offset += 4; // TTL

        // RDLENGTH
        let rdlength = u16::from_be_bytes(buffer[offset..offset + 2].try_into().unwrap());
        offset += 2;

        // RDATA
        let rdata = &buffer[offset..offset + rdlength as usize];
        offset += rdlength as usize;

        output.push(Record { r#type, rdata });
    }

    Ok(output)
}

const LABEL_TYPE_MASK: u8 = 0b1100_0000;
const COMPRESSED_LABEL_TYPE: u8 = 0b1100_0000;

/// Determines the encoded length of a name inside a DNS message.
fn name_length(input: &[u8]) -> Result<usize, &'static str> {
    let mut offset = 0;

    loop {
        let byte = input[offset];
        if byte == 0 {
            return Ok(offset + 1);
        }
        match byte & LABEL_TYPE_MASK {
            0 => offset += 1 + byte as usize,
            COMPRESSED_LABEL_TYPE => return Ok(offset + 2),
            _ => return Err("unsupported label type in name"),
        }
        if offset >= input.len() {
            return Err("name label length is longer than the remainder of the message");
        }
    }
}

/// Checks whether an encoded name ends with a compressed label pointer.
fn name_uses_compression(input: &[u8]) -> Result<bool, &'static str> {
    let mut offset = 0;
    loop {
        let byte = input[offset];
        if byte == 0 {
            return Ok(false);
        }
        match byte & LABEL_TYPE_MASK {
            0 => offset += 1 + byte as usize,
            COMPRESSED_LABEL_TYPE => return Ok(true),
            _ => return Err("unsupported label type in name"),
        }
        if offset >= input.len() {
            return Err("name label length is longer than the remainder of the message");
        }
    }
}

/// Re-sort the list of records such that OPT records are at the end.
///
/// Hickory DNS extracts any OPT record from the rest of the additional section record, and stores
/// it separately, then re-encodes it at the end. To adapt to this, we do a stable sort of records
/// before and after re-encoding. Then, records should line up with each other one-to-one in the two
/// vectors again.
fn sort_opt(rrs: &mut Vec<Record<'_>>) {
    rrs.sort_by_key(|record| record.r#type == record_types::OPT);
}

/// A decompressed domain name.
#[derive(Debug, PartialEq, Eq)]
struct Name(Vec<u8>);

impl Decompressible for Name {
    /// Decompress a name in a DNS message.
    fn decompress(compressed_name: &[u8], message: &[u8]) -> Result<Self, &'static str> {
        let mut output = Vec::with_capacity(compressed_name.len());
        let mut buffer = compressed_name;
        loop {
            if buffer[0] & LABEL_TYPE_MASK == COMPRESSED_LABEL_TYPE {
                let offset = u16::from_be_bytes([buffer[0] & !LABEL_TYPE_MASK, buffer[1]]) as usize;
                buffer = &message[offset..];
            } else {
                let length = (buffer[0] & !LABEL_TYPE_MASK) as usize;
                output.extend_from_slice(&buffer[0..length + 1]);
                if length == 0 {
                    return Ok(Self(output));
                }
                buffer = &buffer[length + 1..];
            }
        }
    }
}

/// `RDATA` for a `MINFO` record, with decompressed names.
#[derive(Debug, PartialEq, Eq)]
struct Minfo {
    rmailbx: Name,
    emailbx: Name,
}

impl Decompressible for Minfo {
    /// Decompress a MINFO RDATA.
    fn decompress(compressed_rdata: &[u8], message: &[u8]) -> Result<Self, &'static str> {
        let emailbx_offset = name_length(compressed_rdata)?;
        let rmailbx = Name::decompress(compressed_rdata, message)?;
        let emailbx = Name::decompress(&compressed_rdata[emailbx_offset..], message)?;

        Ok(Minfo { rmailbx, emailbx })
    }
}

/// `RDATA` for a `MX` record, with a decompressed name.
#[derive(Debug, PartialEq, Eq)]
struct Mx {
    preference: [u8; 2],
    exchange: Name,
}

impl Decompressible for Mx {
    fn decompress(input: &[u8], message: &[u8]) -> Result<Self, &'static str> {
        let preference = input[0..2].try_into().unwrap();
        let exchange = Name::decompress(&input[2..], message)?;
        Ok(Self {
            preference,
            exchange,
        })
    }
}

/// `RDATA` for a `SOA` record, with decompressed names.
#[derive(Debug, PartialEq, Eq)]
struct Soa {
    mname: Name,
    rname: Name,
    rest: Vec<u8>,
}

impl Decompressible for Soa {
    /// Decompress a SOA RDATA.
    fn decompress(compressed_rdata: &[u8], message: &[u8]) -> Result<Self, &'static str> {
        let rname_offset = name_length(compressed_rdata)?;
        let serial_offset = rname_offset + name_length(&compressed_rdata[rname_offset..])?;

        let mname = Name::decompress(compressed_rdata, message)?;
        let rname = Name::decompress(&compressed_rdata[rname_offset..], message)?;

        let rest = compressed_rdata[serial_offset..].to_vec();

        Ok(Soa { mname, rname, rest })
    }
}

/// Any part of a message containing names that can be decompressed, and then compared.
trait Decompressible: Debug + PartialEq + Eq + Sized {
    /// Decompress one portion of a message, and return some representation of it.
    ///
    /// The second argument is the entire DNS message. Compressed names will refer to byte offsets
    /// within this message.
    fn decompress(input: &[u8], message: &[u8]) -> Result<Self, &'static str>;
}

mod record_types {
    pub(super) const NS: u16 = 2;
    pub(super) const MD: u16 = 3;
    pub(super) const MF: u16 = 4;
    pub(super) const CNAME: u16 = 5;
    pub(super) const SOA: u16 = 6;
    pub(super) const MB: u16 = 7;
    pub(super) const MG: u16 = 8;
    pub(super) const MR: u16 = 9;
    pub(super) const PTR: u16 = 12;
    pub(super) const MINFO: u16 = 14;
    pub(super) const MX: u16 = 15;
    pub(super) const SIG: u16 = 24;
    pub(super) const SRV: u16 = 33;
    pub(super) const NAPTR: u16 = 35;
    pub(super) const OPT: u16 = 41;
    pub(super) const RRSIG: u16 = 46;
    pub(super) const NSEC: u16 = 47;
    pub(super) const SVCB: u16 = 64;
    pub(super) const HTTPS: u16 = 65;
    pub(super) const TSIG: u16 = 250;
    pub(super) const ANAME: u16 = 65305;
}
