//! C20 — zone files load to exactly the records they denote.
//!
//! Case line:  `zone <flag> <origin|-> <text-hex> [<expected-origin> <expected-records>]`
//!   flag `m` : compare with the Lean model if the text is inside the modelled fragment (decided
//!              from the text alone, see `model_applicable`);
//!   flag `e` : as `m`, but backslash-digit escapes are allowed (the author of the line asserts
//!              that no escape puts a character >= 128 into a *name*; true of the printer's output,
//!              whose escapes sit in quoted strings);
//!   flag `i` : implementation-vs-oracle only.
//!   expected-records : `-` no expectation (malformed stream: only "Ok or Err, never panic/hang"),
//!              `0` the empty set, else `rec|rec|…` with rec = `owner/type/class/ttl/rdata`,
//!              names lower-cased (DNS names are case-insensitive);
//!              `!` the text states an invalid name (> 255 octets, label > 63): must be an error.
//!
//! Implementation output: `ok <origin> <rrset>…` (rrsets sorted), `err`, `panic …`, `hang`.
use std::collections::BTreeMap;
use std::sync::mpsc;
use std::time::Duration;

use hickory_proto::dnssec::rdata::DNSSECRData;
use hickory_proto::rr::{Name, RData, Record, RecordSet, RrKey};
use hickory_proto::serialize::txt::{ParseError, Parser};

use crate::common::*;

// ------------------------------------------------------------------------------------------------
// canonical dump of the implementation's result

fn lower_name_tok(n: &Name) -> String {
    name_tok(&n.to_lowercase())
}

fn rdata_tok(d: &RData, nm: &dyn Fn(&Name) -> String) -> String {
    match d {
        RData::A(a) => format!("A,{}", hex(&a.0.octets())),
        RData::AAAA(a) => format!("AAAA,{}", hex(&a.0.octets())),
        RData::NS(n) => format!("N,{}", nm(&n.0)),
        RData::CNAME(n) => format!("N,{}", nm(&n.0)),
        RData::PTR(n) => format!("N,{}", nm(&n.0)),
        RData::ANAME(n) => format!("N,{}", nm(&n.0)),
        RData::MX(m) => format!("MX,{},{}", m.preference, nm(&m.exchange)),
        RData::SOA(s) => format!(
            "SOA,{},{},{},{},{},{},{}",
            nm(&s.mname),
            nm(&s.rname),
            s.serial,
            s.refresh,
            s.retry,
            s.expire,
            s.minimum
        ),
        RData::SRV(s) => format!("SRV,{},{},{},{}", s.priority, s.weight, s.port, nm(&s.target)),
        RData::TXT(t) => {
            let mut v = vec!["TXT".to_string()];
            v.extend(t.txt_data.iter().map(|s| hex(s)));
            v.join(",")
        }
        RData::HINFO(h) => format!("HINFO,{},{}", hex(&h.cpu), hex(&h.os)),
        RData::CAA(c) => format!("CAA,{},{},{},{}", c.issuer_critical as u8, c.reserved_flags, hex(c.tag.as_bytes()), hex(&c.value)),
        RData::TLSA(t) => format!("TLSA,{},{},{},{}", u8::from(t.cert_usage), u8::from(t.selector), u8::from(t.matching), hex(&t.cert_data)),
        RData::SMIMEA(t) => format!("SMIMEA,{},{},{},{}", u8::from(t.0.cert_usage), u8::from(t.0.selector), u8::from(t.0.matching), hex(&t.0.cert_data)),
        RData::SSHFP(f) => format!("SSHFP,{},{},{}", u8::from(f.algorithm), u8::from(f.fingerprint_type), hex(&f.fingerprint)),
        RData::DNSSEC(DNSSECRData::DS(d)) => format!("DS,{},{},{},{}", d.key_tag(), u8::from(d.algorithm()), u8::from(d.digest_type()), hex(d.digest())),
        RData::CERT(c) => format!("CERT,{},{},{},{}", u16::from(c.cert_type), c.key_tag, u8::from(c.algorithm), hex(&c.cert_data)),
        RData::OPENPGPKEY(k) => format!("OPENPGPKEY,{}", hex(&k.public_key)),
        other => format!("X{},{}", u16::from(other.record_type()), hex(format!("{other}").as_bytes())),
    }
}

fn rec_tok(r: &Record) -> String {
    format!("{}/{}/{}/{}", name_tok(&r.name), u16::from(r.dns_class), r.ttl, rdata_tok(&r.data, &name_tok))
}

fn rec_norm(r: &Record) -> String {
    format!(
        "{}/{}/{}/{}/{}",
        lower_name_tok(&r.name),
        u16::from(r.record_type()),
        u16::from(r.dns_class),
        r.ttl,
        rdata_tok(&r.data, &lower_name_tok)
    )
}

fn dump(origin: &Name, map: &BTreeMap<RrKey, RecordSet>) -> (String, Vec<String>, usize, String) {
    let mut sets = vec![];
    let mut norm = vec![];
    let mut nrec = 0;
    for rs in map.values() {
        let recs: Vec<String> = rs.records_without_rrsigs().map(rec_tok).collect();
        nrec += recs.len();
        norm.extend(rs.records_without_rrsigs().map(rec_norm));
        sets.push(format!(
            "{}/{}/{}/{}={}",
            name_tok(rs.name()),
            u16::from(rs.record_type()),
            u16::from(rs.dns_class()),
            rs.ttl(),
            recs.join(";")
        ));
    }
    sets.sort();
    norm.sort();
    let mut out = vec!["ok".to_string(), name_tok(origin)];
    out.extend(sets);
    (out.join(" "), norm, nrec, lower_name_tok(origin))
}

// ------------------------------------------------------------------------------------------------
// which texts have a model side

const UNMODELLED_TYPES: &[&str] = &[
    "csync", "https", "naptr", "svcb",
];

fn has_backslash_digit(t: &str) -> bool {
    t.as_bytes().windows(2).any(|w| w[0] == b'\\' && w[1].is_ascii_digit())
}

/// The Lean model covers ASCII texts in which no label reaches IDNA with an `xn--` prefix or a
/// non-ASCII character, no unmodelled record type is parsed and `$INCLUDE` names no absolute path.
/// This is a conservative *textual* over-approximation of "outside the model".
fn model_applicable(flag: &str, text: &str) -> bool {
    if flag == "i" || !text.is_ascii() {
        return false;
    }
    let low = text.to_ascii_lowercase();
    if low.contains("xn--") {
        return false;
    }
    if flag != "e" && has_backslash_digit(text) {
        return false;
    }
    if low.contains("$include") && text.contains('/') {
        return false;
    }
    !low.split(|c: char| !c.is_ascii_alphanumeric()).any(|w| UNMODELLED_TYPES.contains(&w))
}

/// `$INCLUDE` of an absolute path reads the file system: only a path that cannot exist is let through.
fn include_is_safe(text: &str) -> bool {
    if !text.to_ascii_uppercase().contains("INCLUDE") {
        return true;
    }
    let b = text.as_bytes();
    (0..b.len()).filter(|&i| b[i] == b'/').all(|i| text[i..].starts_with("/nonexistent-c20"))
}

// ------------------------------------------------------------------------------------------------
// known-finding classes (mirrored by decidable predicates in Proofs/C20.lean)

/// What an RFC 1035 §5.1 reader sees in the text: comments (`;` to end of line) and quoted strings
/// with backslash escapes.  Mirrored by `Spec.MasterFile.scan` in Lean.
#[derive(Default, Clone, Copy)]
struct Scan {
    /// a quoted string (inside parentheses or not) contains `\DDD` with DDD >= 10
    decimal_escape: bool,
}

fn scan(t: &[u8]) -> Scan {
    #[derive(PartialEq)]
    enum M {
        Normal,
        Comment,
        Quote,
    }
    let mut s = Scan::default();
    let (mut mode, mut i) = (M::Normal, 0);
    while i < t.len() {
        let c = t[i];
        match mode {
            M::Normal => match c {
                b';' => mode = M::Comment,
                b'"' => mode = M::Quote,
                b'\\' => i += 1,
                _ => {}
            },
            M::Comment => {
                if c == b'\n' {
                    mode = M::Normal
                }
            }
            M::Quote => match c {
                b'"' => mode = M::Normal,
                b'\\' => {
                    if i + 3 < t.len() && t[i + 1..i + 4].iter().all(u8::is_ascii_digit) {
                        if !(t[i + 1] == b'0' && t[i + 2] == b'0') {
                            s.decimal_escape = true;
                        }
                        i += 3;
                    } else {
                        i += 1;
                    }
                }
                _ => {}
            },
        }
        i += 1;
    }
    s
}

/// can `Label::from_utf8` produce this label at all?  (letters, digits, `-`, `.`, not starting
/// with `-`; or a `_`-label of letters, digits, `-`, `_`, `.`; or `*`)
fn label_loadable(l: &[u8]) -> bool {
    if l == b"*" {
        return true;
    }
    if l.first() == Some(&b'_') {
        return l.iter().all(|c| c.is_ascii_alphanumeric() || matches!(c, b'-' | b'_' | b'.'));
    }
    l.first() != Some(&b'-') && l.iter().all(|c| c.is_ascii_alphanumeric() || matches!(c, b'-' | b'.'))
}

fn expected_labels(expected: &str) -> Vec<Vec<u8>> {
    // every name token in an expected record is `F:<hex>.<hex>…`
    expected
        .split(|c| c == '/' || c == ',' || c == '|')
        .filter(|t| t.starts_with("F:"))
        .filter_map(|t| parse_labels(&t[2..]))
        .flatten()
        .collect()
}

/// Known-finding classes, narrowest first (each mirrored by a decidable predicate in
/// Spec/MasterFile.lean): a stated name has a label with `;` (`nameHasSemicolon`), a label hickory
/// cannot produce (`nameNotLdh`), a quoted string has `\DDD` with DDD >= 10 (`scan`).
fn classify(text: &str, expected: &str) -> &'static str {
    let labels = expected_labels(expected);
    if labels.iter().any(|l| l.contains(&b';')) {
        "escaped-semicolon-in-item"
    } else if labels.iter().any(|l| !label_loadable(l)) {
        "name-label-not-ldh"
    } else if scan(text.as_bytes()).decimal_escape {
        "decimal-escape-arithmetic"
    } else {
        ""
    }
}

// ------------------------------------------------------------------------------------------------
// running the implementation

enum Ran {
    Ok(String, Vec<String>, usize, String),
    Err(String),
    Panic(String),
    Hang,
}

fn err_kind(e: &ParseError) -> String {
    let s = format!("{e:?}");
    s.split(|c: char| !c.is_ascii_alphanumeric()).next().unwrap_or("?").to_string()
}

/// per-case budget: a looping parser usually also allocates without bound, so keep it short
const WATCHDOG_S: u64 = 10;

fn run_impl(text: String, origin: Option<Name>) -> Ran {
    let (tx, rx) = mpsc::channel();
    let _ = std::thread::Builder::new().stack_size(16 << 20).spawn(move || {
        let r = catch(|| match Parser::new(text, None, origin).parse() {
            Ok((o, m)) => {
                let (a, b, c, d) = dump(&o, &m);
                Ran::Ok(a, b, c, d)
            }
            Err(e) => Ran::Err(err_kind(&e)),
        });
        let _ = tx.send(match r {
            Ok(x) => x,
            Err(p) => Ran::Panic(p),
        });
    });
    // watchdog: a hang is reported, the stuck thread is abandoned
    rx.recv_timeout(Duration::from_secs(WATCHDOG_S)).unwrap_or(Ran::Hang)
}

/// `tanchor <text-hex>` : `serialize::txt::trust_anchor::Parser::new(text).parse()` — the other
/// parser in serialize/txt; no model side; oracle: Ok or Err, never a panic or a hang.
/// `zonep <path-hex> <origin|-> <text-hex>` : the zone parser with `path = Some(..)` (for `$INCLUDE`).
fn exec_other(t: &[&str], line: &str, rec: &mut Recorder) {
    let text_tok = if t[0] == "tanchor" { t.get(1) } else { t.get(3) };
    let Some(bytes) = text_tok.and_then(|x| unhex(x)) else { return rec.stat("skipped.unparsable-case") };
    let Ok(text) = String::from_utf8(bytes) else { return rec.stat("skipped.not-utf8") };
    rec.announce(line);
    let (tx, rx) = mpsc::channel();
    let op = t[0].to_string();
    let path = if op == "zonep" { unhex(t[1]).and_then(|b| String::from_utf8(b).ok()) } else { None };
    let origin = if op == "zonep" && t[2] != "-" { parse_name(t[2]) } else { None };
    if op == "zonep" && !(include_is_safe(&text) && path.as_deref().map(|p| p.is_empty() || p == "/" || p.starts_with("/nonexistent-c20")).unwrap_or(false)) {
        return rec.stat("skipped.include-of-existing-path");
    }
    let text2 = text.clone();
    let _ = std::thread::Builder::new().stack_size(16 << 20).spawn(move || {
        let r = catch(|| {
            if op == "tanchor" {
                hickory_proto::serialize::txt::trust_anchor::Parser::new(text2).parse().map(|_| ()).map_err(|e| err_kind(&e))
            } else {
                Parser::new(text2, path.map(std::path::PathBuf::from), origin).parse().map(|_| ()).map_err(|e| err_kind(&e))
            }
        });
        let _ = tx.send(r);
    });
    let idx = rec.case(line.to_string(), "~".into());
    rec.impl_only += 1;
    rec.stat(&format!("op.{}", t[0]));
    match rx.recv_timeout(Duration::from_secs(WATCHDOG_S)) {
        Err(_) => {
            let _ = std::fs::write(rec.out_dir.join("HANG.case"), format!("{line}\n"));
            eprintln!("HANG: no result within {WATCHDOG_S} s on: {}", &line[..line.len().min(300)]);
            std::process::exit(3);
        }
        Ok(Err(p)) => {
            let class = "";
            rec.fail(idx, format!("panic: {p}"), class)
        }
        Ok(Ok(Ok(()))) => rec.stat("outcome.ok"),
        Ok(Ok(Err(k))) => {
            rec.stat("outcome.err");
            rec.stat(&format!("err.{k}"))
        }
    }
    if text.len() >= 10 {
        rec.nontrivial(idx);
    }
}

/// runs `f` on its own thread under catch_unwind and the watchdog; a hang names the case and stops
fn guarded<T: Send + 'static>(line: &str, rec: &mut Recorder, f: impl FnOnce() -> T + Send + 'static) -> Result<T, String> {
    rec.announce(line);
    let (tx, rx) = mpsc::channel();
    let _ = std::thread::Builder::new().stack_size(16 << 20).spawn(move || {
        let _ = tx.send(catch(f));
    });
    match rx.recv_timeout(Duration::from_secs(WATCHDOG_S)) {
        Ok(r) => r,
        Err(_) => {
            let _ = std::fs::write(rec.out_dir.join("HANG.case"), format!("{line}\n"));
            eprintln!("HANG: no result within {WATCHDOG_S} s on: {}", &line[..line.len().min(300)]);
            std::process::exit(3);
        }
    }
}

fn dump_arc(map: &BTreeMap<RrKey, std::sync::Arc<RecordSet>>) -> Vec<String> {
    let mut v = vec![];
    for rs in map.values() {
        for r in rs.records_without_rrsigs() {
            v.push(format!("{}|rrset-ttl={}", rec_norm(r), rs.ttl()));
        }
    }
    v.sort();
    v
}

/// types whose RDATA text holds no domain name relative to an origin (for comparing entry points)
const NAMELESS_TYPES: &[&str] = &["A", "AAAA", "TXT", "HINFO", "CAA", "TLSA", "SMIMEA", "DS", "SSHFP", "CERT", "OPENPGPKEY", "CSYNC"];

/// Further entry points to the same logic (no model side):
/// `rdata <TYPE> <text-hex>` : `RData::try_from_str(type, text)` (lexer + `from_tokens` without the line
///     machine); oracle: no panic / hang, and when both this and the zone parser accept the text for a type
///     without names, the same RDATA;
/// `zonefile <origin> <text-hex>` : the text written to `<out>/zf/z.zone` and loaded by the server's
///     `FileZoneHandler::try_from_config` (store/file.rs, in_memory::zone_from_path, InMemoryZoneHandler::new);
///     oracle: no panic / hang; if the zone parser accepts the text, it has an SOA at the origin, every record is
///     class IN and no CNAME shares its owner, the store holds exactly the parsed records; if the parser
///     refuses the text, so does the store;
/// `zoneinc <origin> <main-hex> <name:hex,name:hex|-> <expected-origin|-> <expected-records|-|!>` : the files
///     written to `<out>/zf/inc/`, `main.zone` parsed with its path so that `$INCLUDE` reads the others.
fn exec_more(t: &[&str], line: &str, rec: &mut Recorder) {
    use std::str::FromStr;
    let dir = rec.out_dir.join("zf");
    match t[0] {
        "rdata" => {
            let Ok(rt) = hickory_proto::rr::RecordType::from_str(&t[1].to_ascii_uppercase()) else { return rec.stat("skipped.unparsable-case") };
            let Some(Ok(text)) = unhex(t[2]).map(String::from_utf8) else { return rec.stat("skipped.unparsable-case") };
            let idx = rec.case(line.to_string(), "~".into());
            rec.impl_only += 1;
            rec.stat("op.rdata");
            let (ty, text2) = (t[1].to_string(), text.clone());
            let r = guarded(line, rec, move || {
                let a = RData::try_from_str(rt, &text2).map(|d| rdata_tok(&d, &name_tok)).map_err(|e| err_kind(&e));
                let zone = format!("a 60 IN {ty} {text2}\n");
                let b = Parser::new(zone, None, Some(Name::from_ascii("example.com.").unwrap())).parse().map_err(|e| err_kind(&e)).map(|(_, m)| {
                    m.values().flat_map(|rs| rs.records_without_rrsigs().map(|r| rdata_tok(&r.data, &name_tok)).collect::<Vec<_>>()).collect::<Vec<_>>()
                });
                (a, b)
            });
            match r {
                Err(p) => rec.fail(idx, format!("panic: {p}"), ""),
                Ok((a, b)) => {
                    rec.stat(if a.is_ok() { "rdata.ok" } else { "rdata.err" });
                    if let (Ok(a), Ok(b)) = (&a, &b) {
                        let simple = !text.contains(|c: char| "\n\r;()@$".contains(c));
                        if simple && NAMELESS_TYPES.contains(&t[1].to_ascii_uppercase().as_str()) && b.len() == 1 && b[0] != *a {
                            rec.fail(idx, format!("RData::try_from_str and the zone parser read the same RDATA text differently: {a} vs {}", b[0]), "");
                        }
                        rec.stat("rdata.both-ok");
                    }
                }
            }
            if text.len() >= 3 {
                rec.nontrivial(idx);
            }
        }
        "zonefile" => {
            let Some(origin) = parse_name(t[1]) else { return rec.stat("skipped.unparsable-case") };
            let Some(Ok(text)) = unhex(t[2]).map(String::from_utf8) else { return rec.stat("skipped.unparsable-case") };
            if !include_is_safe(&text) || text.to_ascii_uppercase().contains("$INCLUDE") {
                return rec.stat("skipped.include-of-existing-path");
            }
            let idx = rec.case(line.to_string(), "~".into());
            rec.impl_only += 1;
            rec.stat("op.zonefile");
            let _ = std::fs::create_dir_all(&dir);
            let _ = std::fs::write(dir.join("z.zone"), &text);
            let (dir2, origin2, text2) = (dir.clone(), origin.clone(), text.clone());
            let r = guarded(line, rec, move || {
                use hickory_server::store::file::{FileConfig, FileZoneHandler};
                use hickory_server::zone_handler::{AxfrPolicy, ZoneType};
                let direct = Parser::new(text2, Some(dir2.join("z.zone")), Some(origin2.clone())).parse().map_err(|e| err_kind(&e));
                let cfg = FileConfig { zone_path: "z.zone".into() };
                let h = FileZoneHandler::try_from_config(origin2.clone(), ZoneType::Primary, AxfrPolicy::Deny, Some(&dir2), &cfg, None);
                let stored = h.map(|h| {
                    let rt = tokio::runtime::Builder::new_current_thread().build().unwrap();
                    rt.block_on(async { dump_arc(&*h.records().await) })
                });
                let direct = direct.map(|(_, m)| {
                    let soa = m.iter().any(|(k, _)| k.record_type == hickory_proto::rr::RecordType::SOA && *k.name() == hickory_proto::rr::LowerName::new(&origin2));
                    let all_in = m.values().all(|rs| rs.records_without_rrsigs().all(|r| u16::from(r.dns_class) == 1));
                    let cname_alone = m.keys().all(|k| {
                        k.record_type != hickory_proto::rr::RecordType::CNAME || m.keys().filter(|k2| k2.name() == k.name()).count() == 1
                    });
                    let mut v = vec![];
                    for rs in m.values() {
                        for r in rs.records_without_rrsigs() {
                            v.push(format!("{}|rrset-ttl={}", rec_norm(r), rs.ttl()));
                        }
                    }
                    v.sort();
                    (v, soa && all_in && cname_alone)
                });
                (direct, stored)
            });
            match r {
                Err(p) => rec.fail(idx, format!("panic: {p}"), ""),
                Ok((direct, stored)) => match (direct, stored) {
                    (Err(_), Ok(_)) => rec.fail(idx, "the zone parser refuses the text but FileZoneHandler::try_from_config loads the file", ""),
                    (Err(_), Err(_)) => rec.stat("zonefile.both-err"),
                    (Ok((_, true)), Err(e)) => rec.fail(idx, format!("a zone file with SOA, class IN, no CNAME clash is parsed but not loaded by the store: {}", &e[..e.len().min(120)]), ""),
                    (Ok((want, true)), Ok(got)) => {
                        if want != got {
                            let missing = want.iter().filter(|w| !got.contains(w)).count();
                            let extra = got.iter().filter(|g| !want.contains(g)).count();
                            rec.fail(idx, format!("the store holds other records than the zone parser produced ({missing} missing, {extra} unexpected)"), "");
                        } else {
                            rec.stat("zonefile.loaded-equal");
                            rec.nontrivial(idx);
                        }
                    }
                    (Ok((_, false)), Ok(_)) => rec.stat("zonefile.loaded-unjudged"),
                    (Ok((_, false)), Err(_)) => rec.stat("zonefile.store-refused"),
                },
            }
        }
        "zoneinc" => {
            let Some(origin) = parse_name(t[1]) else { return rec.stat("skipped.unparsable-case") };
            let Some(Ok(main)) = unhex(t[2]).map(String::from_utf8) else { return rec.stat("skipped.unparsable-case") };
            let idir = dir.join("inc");
            let _ = std::fs::remove_dir_all(&idir);
            let _ = std::fs::create_dir_all(&idir);
            let mut all = main.clone();
            if t[3] != "-" {
                for f in t[3].split(',') {
                    let Some((n, h)) = f.split_once(':') else { return rec.stat("skipped.unparsable-case") };
                    let Some(b) = unhex(h) else { return rec.stat("skipped.unparsable-case") };
                    if !n.chars().all(|c| c.is_ascii_alphanumeric() || c == '.') || n.contains("..") {
                        return rec.stat("skipped.unparsable-case");
                    }
                    all.push_str(&String::from_utf8_lossy(&b));
                    let _ = std::fs::write(idir.join(n), &b);
                }
            }
            // every $INCLUDE must name a plain file of this directory
            if all.split_whitespace().zip(all.split_whitespace().skip(1)).any(|(a, b)| a.eq_ignore_ascii_case("$INCLUDE") && !b.chars().all(|c| c.is_ascii_alphanumeric() || c == '.')) {
                return rec.stat("skipped.include-of-existing-path");
            }
            let _ = std::fs::write(idir.join("main.zone"), &main);
            let idx = rec.case(line.to_string(), "~".into());
            rec.impl_only += 1;
            rec.stat("op.zoneinc");
            let (exp_origin, expected) = (t.get(4).copied().unwrap_or("-"), t.get(5).copied().unwrap_or("-"));
            let path = idir.join("main.zone");
            let r = guarded(line, rec, move || {
                Parser::new(main, Some(path), Some(origin)).parse().map_err(|e| err_kind(&e)).map(|(o, m)| dump(&o, &m))
            });
            match r {
                Err(p) => rec.fail(idx, format!("panic: {p}"), ""),
                Ok(Err(k)) => {
                    rec.stat(&format!("zoneinc.err.{k}"));
                    if expected != "-" && expected != "!" {
                        rec.fail(idx, "a well-formed zone file with $INCLUDE was rejected", "");
                    }
                }
                Ok(Ok((_, norm, nrec, lo))) => {
                    rec.stat("zoneinc.ok");
                    if expected == "!" {
                        rec.fail(idx, "$INCLUDE nested beyond the limit / of itself was accepted", "");
                    } else if expected != "-" {
                        let mut want: Vec<String> = if expected == "0" { vec![] } else { expected.split('|').map(String::from).collect() };
                        want.sort();
                        let class = include_class(t[3]);
                        if norm != want {
                            let missing = want.iter().filter(|w| !norm.contains(w)).count();
                            let extra = norm.iter().filter(|g| !want.contains(g)).count();
                            rec.fail(idx, format!("loaded records differ from the denoted ones ({missing} missing, {extra} unexpected)"), class);
                        } else if exp_origin != "-" && lo != exp_origin {
                            rec.fail(idx, "zone origin differs from the denoted one", class);
                        } else {
                            rec.stat("expect.met");
                        }
                    }
                    if nrec > 0 {
                        rec.nontrivial(idx);
                    }
                }
            }
        }
        _ => {}
    }
}

/// class of a `zoneinc` failure: an included file contains `$ORIGIN` (RFC 1035 5.1: "a $INCLUDE entry
/// never changes the relative origin of the parent file, regardless of changes to the relative origin
/// made within the included file")
fn include_class(files: &str) -> &'static str {
    let has_origin = files.split(',').filter_map(|f| f.split_once(':')).filter_map(|(_, h)| unhex(h)).any(|b| String::from_utf8_lossy(&b).to_ascii_uppercase().contains("$ORIGIN"));
    if has_origin { "include-origin-leaks" } else { "" }
}

pub fn exec(line: &str, rec: &mut Recorder) {
    let t: Vec<&str> = line.split_whitespace().collect();
    if (t.len() >= 2 && t[0] == "tanchor") || (t.len() >= 4 && t[0] == "zonep") {
        return exec_other(&t, line, rec);
    }
    if (t.len() >= 3 && matches!(t[0], "rdata" | "zonefile")) || (t.len() >= 4 && t[0] == "zoneinc") {
        return exec_more(&t, line, rec);
    }
    if t.len() < 4 || t[0] != "zone" {
        rec.stat("skipped.unparsable-case");
        return;
    }
    let flag = t[1];
    let origin = if t[2] == "-" {
        None
    } else {
        match parse_name(t[2]) {
            Some(n) => Some(n),
            None => return rec.stat("skipped.unparsable-case"),
        }
    };
    let Some(bytes) = unhex(t[3]) else { return rec.stat("skipped.unparsable-case") };
    let Ok(text) = String::from_utf8(bytes) else { return rec.stat("skipped.not-utf8") };
    if !include_is_safe(&text) {
        return rec.stat("skipped.include-of-existing-path");
    }
    let exp_origin = t.get(4).copied().unwrap_or("-");
    let expected = t.get(5).copied().unwrap_or("-");

    rec.announce(line);
    let ran = run_impl(text.clone(), origin);
    if matches!(ran, Ran::Hang) {
        // the implementation does not return on this text: name it and stop (the stuck thread cannot be
        // killed; bin/check turns HANG.case into a VIOLATION whose replay is this case line)
        let _ = std::fs::write(rec.out_dir.join("HANG.case"), format!("{line}\n"));
        eprintln!("HANG: no result within {WATCHDOG_S} s on: {}", &line[..line.len().min(300)]);
        std::process::exit(3);
    }
    let has_model = model_applicable(flag, &text);
    let (out, norm, nrec) = match &ran {
        Ran::Ok(a, b, c, _) => (a.clone(), Some(b.clone()), *c),
        Ran::Err(k) => {
            rec.stat(&format!("err.{k}"));
            ("err".to_string(), None, 0)
        }
        Ran::Panic(p) => (format!("panic {}", p.replace('\n', " ")), None, 0),
        Ran::Hang => ("hang".to_string(), None, 0),
    };
    let bad = matches!(ran, Ran::Panic(_) | Ran::Hang);
    // a panic is an oracle failure; it is also a model disagreement when the text has a model side
    // (the model never panics: theorem no_panic)
    let idx = if has_model {
        rec.case(line.to_string(), out.clone())
    } else {
        rec.impl_only += 1;
        rec.case(line.to_string(), "~".into())
    };
    rec.stat(if has_model { "side.model+oracle" } else { "side.oracle-only" });
    rec.stat(match &ran {
        Ran::Ok(..) => "outcome.ok",
        Ran::Err(_) => "outcome.err",
        Ran::Panic(_) => "outcome.panic",
        Ran::Hang => "outcome.hang",
    });
    rec.stat(&format!(
        "text.len.{}",
        match text.len() {
            0..=63 => "0-63",
            64..=255 => "64-255",
            256..=1023 => "256-1023",
            1024..=4094 => "1024-4094",
            _ => "4095+",
        }
    ));
    // ---- the property's oracle, on the implementation's answer only
    match &ran {
        Ran::Panic(p) => rec.fail(idx, format!("panic: {p}"), ""),
        Ran::Hang => rec.fail(idx, "hang: no result within 30 s", ""),
        _ => {}
    }
    if expected == "!" && !bad {
        rec.stat("expect.error");
        if norm.is_some() {
            rec.fail(idx, "a zone file stating an invalid name (more than 255 octets, or a label of more than 63) was accepted", "");
        } else {
            rec.stat("expect.met");
        }
    } else if expected != "-" && !bad {
        rec.stat("expect.records");
        let mut want: Vec<String> = if expected == "0" { vec![] } else { expected.split('|').map(String::from).collect() };
        want.sort();
        let class = classify(&text, expected);
        match &norm {
            None => rec.fail(idx, "a well-formed zone file was rejected", class),
            Some(got) => {
                if *got != want {
                    let missing = want.iter().filter(|w| !got.contains(w)).count();
                    let extra = got.iter().filter(|g| !want.contains(g)).count();
                    rec.fail(
                        idx,
                        format!("loaded records differ from the denoted ones ({missing} missing, {extra} unexpected)"),
                        class,
                    );
                } else if exp_origin != "-" && !matches!(&ran, Ran::Ok(_, _, _, o) if o == exp_origin) {
                    rec.fail(idx, "zone origin differs from the denoted one", class);
                } else {
                    rec.stat("expect.met");
                }
            }
        }
    }
    rec.stat(&format!("records.{}", match nrec { 0 => "0", 1 => "1", 2..=4 => "2-4", _ => "5+" }));
    if nrec > 0 || (expected == "-" && text.len() >= 10) {
        rec.nontrivial(idx);
    }
}

// ------------------------------------------------------------------------------------------------
// generator: record sets

#[derive(Clone, PartialEq, Eq, Debug)]
struct GName(Vec<Vec<u8>>); // absolute, first label first

#[derive(Clone, Debug)]
enum GData {
    A([u8; 4]),
    Aaaa([u16; 8]),
    N(GName),
    Mx(u16, GName),
    Soa(GName, GName, u32, u32, u32, u32, u32),
    Srv(u16, u16, u16, GName),
    Txt(Vec<Vec<u8>>),
    Hinfo(Vec<u8>, Vec<u8>),
    Caa(u8, Vec<u8>, Vec<u8>),
    /// TLSA / SMIMEA / DS / SSHFP / CERT / OPENPGPKEY: numeric fields, then binary data written in
    /// hex or base64 — which the RFCs allow to be divided by white space anywhere
    Blob(&'static str, Vec<u32>, Vec<u8>),
}

#[derive(Clone, Debug)]
struct GRec {
    owner: GName,
    rtype: &'static str,
    code: u16,
    class: u16,
    ttl: u32,
    data: GData,
}

fn lower(l: &[u8]) -> Vec<u8> {
    l.to_ascii_lowercase()
}

impl GName {
    fn tok_lower(&self) -> String {
        format!("F:{}", self.0.iter().map(|l| hex(&lower(l))).collect::<Vec<_>>().join("."))
    }
    fn tok(&self) -> String {
        format!("F:{}", self.0.iter().map(|l| hex(l)).collect::<Vec<_>>().join("."))
    }
    fn wire_len(&self) -> usize {
        self.0.iter().map(|l| l.len() + 1).sum::<usize>() + 1
    }
    fn ends_with(&self, o: &GName) -> bool {
        self.0.len() >= o.0.len()
            && self.0[self.0.len() - o.0.len()..].iter().zip(&o.0).all(|(a, b)| lower(a) == lower(b))
    }
}

impl GData {
    fn norm(&self) -> String {
        match self {
            GData::A(o) => format!("A,{}", hex(o)),
            GData::Aaaa(g) => {
                let b: Vec<u8> = g.iter().flat_map(|x| x.to_be_bytes()).collect();
                format!("AAAA,{}", hex(&b))
            }
            GData::N(n) => format!("N,{}", n.tok_lower()),
            GData::Mx(p, n) => format!("MX,{p},{}", n.tok_lower()),
            GData::Soa(m, r, a, b, c, d, e) => format!("SOA,{},{},{a},{b},{c},{d},{e}", m.tok_lower(), r.tok_lower()),
            GData::Srv(p, w, q, n) => format!("SRV,{p},{w},{q},{}", n.tok_lower()),
            GData::Txt(ss) => {
                let mut v = vec!["TXT".to_string()];
                v.extend(ss.iter().map(|s| hex(s)));
                v.join(",")
            }
            GData::Hinfo(c, o) => format!("HINFO,{},{}", hex(c), hex(o)),
            GData::Caa(f, t, v) => format!("CAA,{},{},{},{}", f >> 7, f & 127, hex(t), hex(v)),
            GData::Blob(k, nums, d) => {
                let mut v = vec![k.to_string()];
                v.extend(nums.iter().map(|n| n.to_string()));
                v.push(hex(d));
                v.join(",")
            }
        }
    }
    fn names(&self) -> Vec<&GName> {
        match self {
            GData::N(n) | GData::Mx(_, n) | GData::Srv(_, _, _, n) => vec![n],
            GData::Soa(m, r, ..) => vec![m, r],
            _ => vec![],
        }
    }
}

impl GRec {
    fn norm(&self) -> String {
        format!("{}/{}/{}/{}/{}", self.owner.tok_lower(), self.code, self.class, self.ttl, self.data.norm())
    }
}

fn gen_ldh_label(r: &mut Rng) -> Vec<u8> {
    let n = match r.below(10) {
        0 => r.range(10, 63),
        _ => r.range(1, 8),
    } as usize;
    let mut l: Vec<u8> = (0..n)
        .map(|_| *r.pick(b"abcdefghijklmnopqrstuvwxyzABCDEFGHIJKLMNOPQRSTUVWXYZ0123456789--"))
        .collect();
    if l[0] == b'-' {
        l[0] = b'a';
    }
    // keep clear of IDNA's punycode path (outside the model and not what this property is about)
    if l.len() >= 4 && l[..4].eq_ignore_ascii_case(b"xn--") {
        l[0] = b'y';
    }
    l
}

/// `wild`: arbitrary octets allowed (such names cannot be loaded by hickory: known finding)
fn gen_label(r: &mut Rng, first: bool, wild: bool) -> Vec<u8> {
    if wild && r.chance(1, 2) {
        let n = r.range(1, 6) as usize;
        return (0..n)
            .map(|_| match r.below(6) {
                0 => r.byte(),
                1 => *r.pick(b" ;()\"\\@$.\t"),
                2 => *r.pick(b"_+=/:!#%&'*,<>?[]^`{|}~"),
                _ => *r.pick(b"abcXYZ019-"),
            })
            .collect();
    }
    match r.below(20) {
        0 if first => b"*".to_vec(),
        1 | 2 => {
            let mut l = gen_ldh_label(r);
            l.truncate(20);
            l.insert(0, b'_');
            if r.chance(1, 3) {
                l.push(b'_');
                l.push(b'x');
            }
            l
        }
        3 => {
            // a dot inside a label
            let mut l = gen_ldh_label(r);
            l.truncate(20);
            let i = r.below(l.len() as u64 + 1) as usize;
            l.insert(i, b'.');
            if l[0] == b'.' && r.chance(1, 2) {
                l.insert(0, b'a');
            }
            l
        }
        _ => gen_ldh_label(r),
    }
}

fn gen_name_under(r: &mut Rng, base: &GName, wild: bool) -> GName {
    let k = match r.below(8) {
        0 => 0,
        1..=5 => 1,
        6 => 2,
        _ => 3,
    };
    let mut ls = vec![];
    for i in 0..k {
        ls.push(gen_label(r, i == 0, wild));
    }
    ls.extend(base.0.iter().cloned());
    let n = GName(ls);
    if n.wire_len() > 255 { base.clone() } else { n }
}

fn gen_abs_name(r: &mut Rng, wild: bool) -> GName {
    let k = r.range(0, 3);
    let n = GName((0..k).map(|i| gen_label(r, i == 0, wild)).collect());
    if n.wire_len() > 255 { GName(vec![b"x".to_vec()]) } else { n }
}

fn gen_string(r: &mut Rng, clean: bool) -> Vec<u8> {
    let n = match r.below(12) {
        0 => 0,
        1 => r.range(100, 255),
        _ => r.range(1, 20),
    } as usize;
    let style = if clean { r.range(1, 9) } else { r.below(10) };
    (0..n)
        .map(|_| match style {
            0 => r.byte(),                                                   // arbitrary octets
            1 | 2 => *r.pick(b"abc \"\\;()@$.\t=-_"),                        // special characters
            3 => *r.pick(b"v=spf1 include:_spf.example.com ~all; k=rsa"),    // realistic TXT
            _ => *r.pick(b"abcdefghijklmnopqrstuvwxyzABCXYZ0123456789-_.=+/:"), // plain
        })
        .collect()
}

fn gen_ttl(r: &mut Rng) -> u32 {
    match r.below(12) {
        0 => 0,
        1 => u32::MAX,
        2 => r.next() as u32,
        3 => *r.pick(&[60u32, 3600, 86400, 604800, 1209600]),
        _ => r.range(1, 100000) as u32,
    }
}

const NAME_TYPES: &[(&str, u16)] = &[("NS", 2), ("CNAME", 5), ("PTR", 12), ("ANAME", 65305)];

fn gen_blob(r: &mut Rng, kind: &'static str) -> (&'static str, u16, GData) {
    let n = match r.below(6) {
        0 => 1,
        1 => 2,
        2 => 20,
        3 => 32,
        4 => r.range(48, 70),
        _ => r.range(1, 40),
    } as usize;
    let data = r.bytes(n);
    let b = |r: &mut Rng| if r.chance(1, 3) { r.byte() as u32 } else { r.below(5) as u32 };
    let (code, nums): (u16, Vec<u32>) = match kind {
        "TLSA" => (52, vec![b(r), b(r), b(r)]),
        "SMIMEA" => (53, vec![b(r), b(r), b(r)]),
        "DS" => (43, vec![r.next() as u16 as u32, if r.chance(1, 2) { *r.pick(&[1u32, 2, 3, 4, 5, 8, 13, 15, 252, 253, 254]) } else { r.byte() as u32 }, b(r)]),
        "SSHFP" => (44, vec![b(r), b(r)]),
        "CERT" => (37, vec![r.next() as u16 as u32, r.next() as u16 as u32, r.byte() as u32]),
        _ => (61, vec![]),
    };
    (kind, code, GData::Blob(kind, nums, data))
}

fn base64(d: &[u8]) -> String {
    const T: &[u8] = b"ABCDEFGHIJKLMNOPQRSTUVWXYZabcdefghijklmnopqrstuvwxyz0123456789+/";
    let mut o = String::new();
    for c in d.chunks(3) {
        let v = (c[0] as u32) << 16 | (*c.get(1).unwrap_or(&0) as u32) << 8 | *c.get(2).unwrap_or(&0) as u32;
        o.push(T[(v >> 18) as usize & 63] as char);
        o.push(T[(v >> 12) as usize & 63] as char);
        o.push(if c.len() > 1 { T[(v >> 6) as usize & 63] as char } else { '=' });
        o.push(if c.len() > 2 { T[v as usize & 63] as char } else { '=' });
    }
    o
}

fn gen_records(r: &mut Rng, origin: &GName, wild: bool, clean: bool) -> Vec<GRec> {
    let class = *r.pick(&[1u16, 1, 1, 1, 1, 1, 1, 1, 3, 4]);
    let nsets = r.range(1, 5);
    let mut out: Vec<GRec> = vec![];
    let mut have_soa = false;
    let mut owners: Vec<GName> = vec![];
    for _ in 0..nsets {
        let owner = if !owners.is_empty() && r.chance(1, 3) {
            r.pick(&owners).clone()
        } else if r.chance(5, 6) {
            gen_name_under(r, origin, wild)
        } else {
            gen_abs_name(r, wild)
        };
        owners.push(owner.clone());
        let ttl = gen_ttl(r);
        let tname = |r: &mut Rng| if r.chance(3, 4) { gen_name_under(r, origin, wild) } else { gen_abs_name(r, wild) };
        let kind = r.below(16);
        let n = if matches!(kind, 2 | 4) { 1 } else { r.range(1, 3) };
        for _ in 0..n {
            let (rtype, code, data): (&'static str, u16, GData) = match kind {
                0 => ("A", 1, GData::A([r.byte(), r.byte(), r.byte(), r.byte()])),
                1 => {
                    let mut g = [0u16; 8];
                    let style = r.below(4);
                    for x in g.iter_mut() {
                        *x = match style {
                            0 => r.next() as u16,
                            1 => if r.chance(1, 2) { 0 } else { r.next() as u16 },
                            2 => 0,
                            _ => r.below(256) as u16,
                        };
                    }
                    ("AAAA", 28, GData::Aaaa(g))
                }
                2 => {
                    let (t, c) = *r.pick(&[("CNAME", 5u16), ("ANAME", 65305)]);
                    (t, c, GData::N(tname(r)))
                }
                3 => {
                    let (t, c) = *r.pick(&NAME_TYPES[..1]);
                    let (t, c) = if r.chance(1, 3) { ("PTR", 12) } else { (t, c) };
                    (t, c, GData::N(tname(r)))
                }
                4 => {
                    if have_soa {
                        ("A", 1, GData::A([10, 0, 0, r.byte()]))
                    } else {
                        have_soa = true;
                        let big = |r: &mut Rng| if r.chance(1, 4) { r.next() as u32 } else { r.below(1_000_000) as u32 };
                        let i31 = |r: &mut Rng| if r.chance(1, 6) { (r.next() as u32) >> 1 } else { r.below(1_000_000) as u32 };
                        ("SOA", 6, GData::Soa(tname(r), tname(r), big(r), i31(r), i31(r), i31(r), big(r)))
                    }
                }
                5 => ("MX", 15, GData::Mx(if r.chance(1, 5) { r.next() as u16 } else { r.below(100) as u16 }, tname(r))),
                6 => ("SRV", 33, GData::Srv(r.below(100) as u16, r.next() as u16, r.next() as u16, tname(r))),
                10 => ("HINFO", 13, GData::Hinfo(gen_string(r, clean), gen_string(r, clean))),
                12 => {
                    let k = *r.pick(&["TLSA", "SMIMEA"]);
                    gen_blob(r, k)
                }
                13 => gen_blob(r, "DS"),
                14 => gen_blob(r, "SSHFP"),
                15 => {
                    let k = *r.pick(&["CERT", "OPENPGPKEY"]);
                    gen_blob(r, k)
                }
                11 => {
                    let tag: Vec<u8> = if r.chance(3, 4) {
                        r.pick(&[&b"issue"[..], b"issuewild", b"iodef", b"contactemail"]).to_vec()
                    } else {
                        (0..r.range(1, 8)).map(|_| *r.pick(b"abcxyzABC019")).collect()
                    };
                    let value: Vec<u8> = if r.chance(1, 2) {
                        r.pick(&[&b"letsencrypt.org"[..], b";", b"ca.example.net; account=230123", b"mailto:security@example.com", b"ca.example.net; validationmethods=dns-01"]).to_vec()
                    } else {
                        gen_string(r, clean)
                    };
                    ("CAA", 257, GData::Caa(*r.pick(&[0u8, 0, 0, 128, 1, 255]), tag, value))
                }
                _ => {
                    let k = match r.below(8) { 0 => 3, 1 => 2, _ => 1 };
                    ("TXT", 16, GData::Txt((0..k).map(|_| gen_string(r, clean)).collect()))
                }
            };
            // a set: no two records with the same owner, type and data; one CNAME/ANAME per owner
            let rec = GRec { owner: owner.clone(), rtype, code, class, ttl, data };
            let key = |x: &GRec| format!("{}/{}/{}", x.owner.tok_lower(), x.code, x.data.norm());
            let same_set = |x: &GRec| x.owner.tok_lower() == rec.owner.tok_lower() && x.code == rec.code;
            if out.iter().any(|x| key(x) == key(&rec)) {
                continue;
            }
            if out.iter().any(|x| same_set(x) && (x.ttl != rec.ttl || matches!(rec.code, 5 | 6 | 65305))) {
                continue;
            }
            out.push(rec);
        }
    }
    out
}

// ------------------------------------------------------------------------------------------------
// generator: the independent master-file printer (RFC 1035 §5.1, RFC 2308 §4 for $TTL)

struct Printer<'a> {
    r: &'a mut Rng,
    out: String,
    origin: GName,
    default_ttl: Option<u32>,
    last_ttl: Option<u32>,
    last_class: Option<u16>,
    last_owner: Option<GName>,
    tags: Vec<&'static str>,
    /// a name was printed with a `\DDD` escape (the model does not cover what IDNA does with it)
    name_ddd: bool,
    /// how names under the origin are written: 0 = random, 1 = always relative (never `@`),
    /// 2 = always absolute
    name_policy: u8,
    /// put RDATA in parentheses more often than not
    paren_bias: bool,
    /// avoid the layout hickory is known to mishandle (`\DDD` with DDD >= 10; and no names with
    /// arbitrary octets): every oracle failure in such a file is a new violation
    clean: bool,
}

fn needs_ddd(b: u8) -> bool {
    b <= 0x20 || b >= 0x7f
}

impl<'a> Printer<'a> {
    fn tag(&mut self, t: &'static str) {
        if !self.tags.contains(&t) {
            self.tags.push(t);
        }
    }

    fn sp(&mut self) -> String {
        match self.r.below(8) {
            0 => "\t".into(),
            1 => "  ".into(),
            2 => " \t ".into(),
            _ => " ".into(),
        }
    }

    fn eol(&mut self) -> &'static str {
        if self.r.chance(1, 8) { "\r\n" } else { "\n" }
    }

    fn comment(&mut self) -> String {
        let n = self.r.below(20) as usize;
        let noisy = self.r.chance(1, 3);
        let body: String = (0..n)
            .map(|_| if noisy { *self.r.pick(b"abc xyz 123 ;\"()\\$@.\t-") } else { *self.r.pick(b"abc xyz 123 .-") } as char)
            .collect();
        format!(";{body}")
    }

    /// RFC 1035 §5.1 label text: `\.` and friends as `\X`, octets without a graphic as `\DDD`
    fn label_text(&mut self, l: &[u8]) -> String {
        let mut s = String::new();
        for &b in l {
            if needs_ddd(b) {
                s.push_str(&format!("\\{b:03}"));
                self.name_ddd = true;
            } else if b".;()\"\\@$".contains(&b) {
                if b == b'.' {
                    self.tag("name.escaped-dot");
                }
                s.push('\\');
                s.push(b as char);
            } else {
                s.push(b as char);
            }
        }
        s
    }

    fn name_abs(&mut self, n: &GName) -> String {
        if n.0.is_empty() {
            return ".".into();
        }
        let mut s = String::new();
        for l in &n.0 {
            s.push_str(&self.label_text(l));
            s.push('.');
        }
        s
    }

    /// a name in RDATA or owner position: absolute, or relative to the current origin
    fn name(&mut self, n: &GName, owner: bool) -> String {
        let origin = self.origin.clone();
        let under = n.ends_with(&origin) && n.0.len() > origin.0.len();
        if self.name_policy == 0 && owner && n.0.len() == origin.0.len() && n.ends_with(&origin) && self.r.chance(1, 2) {
            self.tag("owner.at");
            return "@".into();
        }
        if under && self.name_policy != 2 && (self.name_policy == 1 || self.r.chance(1, 2)) {
            self.tag(if owner { "owner.relative" } else { "rdata-name.relative" });
            let k = n.0.len() - origin.0.len();
            let parts: Vec<String> = n.0[..k].iter().map(|l| self.label_text(l)).collect();
            return parts.join(".");
        }
        self.tag(if owner { "owner.absolute" } else { "rdata-name.absolute" });
        self.name_abs(n)
    }

    fn ttl_text(&mut self, t: u32) -> String {
        if t > 0 && self.r.chance(1, 10) {
            for (u, m) in [("w", 604800u32), ("d", 86400), ("h", 3600), ("m", 60)] {
                if t % m == 0 {
                    self.tag("ttl.unit-suffix");
                    let u = if self.r.chance(1, 2) { u.to_uppercase() } else { u.to_string() };
                    return format!("{}{u}", t / m);
                }
            }
        }
        t.to_string()
    }

    fn mixed_case(&mut self, s: &str) -> String {
        match self.r.below(4) {
            0 => s.to_lowercase(),
            1 => s.chars().map(|c| if self.r.chance(1, 2) { c.to_ascii_lowercase() } else { c }).collect(),
            _ => s.to_string(),
        }
    }

    /// <character-string>: contiguous characters, or `"`-delimited with `\"`, `\\`, `\DDD`
    fn char_string(&mut self, s: &[u8]) -> String {
        let plain = !s.is_empty()
            && s.iter().all(|&b| (0x21..0x7f).contains(&b) && !b"\"();\\".contains(&b))
            && !matches!(s[0], b'@' | b'$');
        if plain && self.r.chance(1, 2) {
            self.tag("string.unquoted");
            return String::from_utf8(s.to_vec()).unwrap();
        }
        self.tag("string.quoted");
        let mut o = String::from("\"");
        for &b in s {
            if b == b'"' {
                self.tag("string.escaped-quote");
                o.push_str("\\\"");
            } else if b == b'\\' {
                self.tag("string.escaped-backslash");
                o.push_str("\\\\");
            } else if b >= 0x7f || (b < 0x20 && !(matches!(b, b'\t' | b'\n' | b'\r') && self.r.chance(1, 2))) {
                self.tag("string.decimal-escape");
                o.push_str(&format!("\\{b:03}"));
            } else if self.r.chance(1, 60) && (0x20..0x7f).contains(&b) && !(self.clean && b.is_ascii_digit()) {
                if !self.clean && (b.is_ascii_digit() || self.r.chance(1, 2)) {
                    self.tag("string.decimal-escape");
                    o.push_str(&format!("\\{b:03}"));
                } else {
                    self.tag("string.escaped-char");
                    o.push('\\');
                    o.push(b as char);
                }
            } else {
                if b < 0x20 {
                    self.tag("string.raw-control");
                }
                o.push(b as char);
            }
        }
        o.push('"');
        o
    }

    fn aaaa_text(&mut self, g: &[u16; 8]) -> String {
        let full = |g: &[u16]| g.iter().map(|x| format!("{x:x}")).collect::<Vec<_>>().join(":");
        match self.r.below(5) {
            0 => g.iter().map(|x| format!("{x:04X}")).collect::<Vec<_>>().join(":"),
            1 => {
                // embedded IPv4 for the last 32 bits
                self.tag("aaaa.embedded-v4");
                let v4 = format!("{}.{}.{}.{}", g[6] >> 8, g[6] & 255, g[7] >> 8, g[7] & 255);
                if g[..6].iter().all(|x| *x == 0) { format!("::{v4}") } else { format!("{}:{v4}", full(&g[..6])) }
            }
            2 | 3 => {
                // compress the first run of zero groups
                if let Some(i) = g.iter().position(|x| *x == 0) {
                    let mut j = i;
                    while j < 8 && g[j] == 0 {
                        j += 1;
                    }
                    self.tag("aaaa.compressed");
                    format!("{}::{}", full(&g[..i]), full(&g[j..]))
                } else {
                    full(g)
                }
            }
            _ => full(g),
        }
    }

    fn rdata_fields(&mut self, d: &GData) -> Vec<String> {
        match d {
            GData::A(o) => vec![format!("{}.{}.{}.{}", o[0], o[1], o[2], o[3])],
            GData::Aaaa(g) => vec![self.aaaa_text(g)],
            GData::N(n) => vec![self.name(n, false)],
            GData::Mx(p, n) => vec![p.to_string(), self.name(n, false)],
            GData::Soa(m, rn, a, b, c, d, e) => vec![
                self.name(m, false),
                self.name(rn, false),
                a.to_string(),
                b.to_string(),
                c.to_string(),
                d.to_string(),
                e.to_string(),
            ],
            GData::Srv(p, w, q, n) => vec![p.to_string(), w.to_string(), q.to_string(), self.name(n, false)],
            GData::Txt(ss) => ss.iter().map(|s| self.char_string(s)).collect(),
            GData::Hinfo(c, o) => vec![self.char_string(c), self.char_string(o)],
            GData::Caa(f, t, v) => vec![f.to_string(), String::from_utf8(t.clone()).unwrap(), self.char_string(v)],
            GData::Blob(kind, nums, data) => {
                let mut v: Vec<String> = nums.iter().map(|n| n.to_string()).collect();
                if *kind == "DS" && self.r.chance(1, 2) {
                    // RFC 4034 appendix A.1 mnemonics
                    if let Some(m) = [(1u32, "RSAMD5"), (2, "DH"), (3, "DSA"), (4, "ECC"), (5, "RSASHA1"), (252, "INDIRECT"), (253, "PRIVATEDNS"), (254, "PRIVATEOID")]
                        .iter()
                        .find(|(n, _)| *n == nums[1])
                    {
                        self.tag("ds.algorithm-mnemonic");
                        v[1] = m.1.to_string();
                    }
                }
                let b64 = matches!(*kind, "CERT" | "OPENPGPKEY");
                let text: String = if b64 {
                    base64(data)
                } else {
                    data.iter()
                        .flat_map(|b| [b >> 4, b & 15])
                        .map(|n| {
                            let c = b"0123456789abcdef"[n as usize] as char;
                            if self.r.chance(1, 3) { c.to_ascii_uppercase() } else { c }
                        })
                        .collect()
                };
                // "whitespace is allowed within the hexadecimal text" (RFC 4034 5.3, RFC 6698 2.2), "may be
                // divided into any number of white-space-separated substrings" (RFC 4398 2.2): hickory
                // joins the pieces for TLSA / SMIMEA / DS and (since fix 1479f5a) CERT; it refuses more than
                // one piece for SSHFP / OPENPGPKEY (no RFC text allows splitting those: written in one piece)
                let splittable = matches!(*kind, "TLSA" | "SMIMEA" | "DS" | "CERT");
                let mut cuts: Vec<usize> = vec![];
                if splittable && text.len() > 1 && self.r.chance(3, 4) {
                    let k = self.r.range(1, 5.min(text.len() as u64 - 1)) as usize;
                    for _ in 0..k {
                        cuts.push(self.r.range(1, text.len() as u64 - 1) as usize);
                    }
                    let unit = if b64 { 4 } else { 2 };
                    if self.r.chance(1, 2) && text.len() > unit {
                        // force a break inside a byte / a base64 quantum
                        let q = self.r.below((text.len() / unit) as u64) as usize;
                        cuts.push(q * unit + 1 + self.r.below(unit as u64 - 1) as usize);
                    }
                    if self.r.chance(1, 8) {
                        // "down to single base-64 digits": cut a stretch into single characters
                        let from = self.r.below(text.len() as u64) as usize;
                        let to = (from + self.r.range(2, 6) as usize).min(text.len());
                        cuts.extend(from.max(1)..to);
                        self.tag("data.split-single-digits");
                    }
                    cuts.sort();
                    cuts.dedup();
                    cuts.retain(|c| *c > 0 && *c < text.len());
                    self.tag("data.split");
                    if cuts.iter().any(|c| c % unit != 0) {
                        self.tag("data.split-inside-unit");
                    }
                }
                let mut prev = 0;
                for c in cuts.iter().chain(std::iter::once(&text.len())) {
                    v.push(text[prev..*c].to_string());
                    prev = *c;
                }
                v
            }
        }
    }

    fn filler(&mut self) {
        for _ in 0..self.r.below(3) {
            match self.r.below(4) {
                0 => {
                    self.tag("line.blank");
                    let e = self.eol();
                    self.out.push_str(e);
                }
                1 => {
                    self.tag("line.whitespace-only");
                    let s = self.sp();
                    let e = self.eol();
                    self.out.push_str(&format!("{s}{e}"));
                }
                2 => {
                    self.tag("line.comment-only");
                    let c = self.comment();
                    let e = self.eol();
                    self.out.push_str(&format!("{c}{e}"));
                }
                _ => {
                    self.tag("line.indented-comment");
                    let s = self.sp();
                    let c = self.comment();
                    let e = self.eol();
                    self.out.push_str(&format!("{s}{c}{e}"));
                }
            }
        }
    }

    fn directive_origin(&mut self, o: &GName) {
        self.tag("$ORIGIN");
        let s = self.sp();
        let n = self.name_abs(o);
        let tail = if self.r.chance(1, 4) { format!("{}{}", self.sp(), self.comment()) } else { String::new() };
        let e = self.eol();
        self.out.push_str(&format!("$ORIGIN{s}{n}{tail}{e}"));
        self.origin = o.clone();
    }

    fn directive_ttl(&mut self, t: u32) {
        self.tag("$TTL");
        let s = self.sp();
        let tt = self.ttl_text(t);
        let tail = if self.r.chance(1, 4) { format!("{}{}", self.sp(), self.comment()) } else { String::new() };
        let e = self.eol();
        self.out.push_str(&format!("$TTL{s}{tt}{tail}{e}"));
        self.default_ttl = Some(t);
    }

    fn record(&mut self, rec: &GRec, last: bool) {
        // owner: inherited from the previous line, `@`, relative, absolute
        let inherit = self.last_owner.as_ref() == Some(&rec.owner) && self.r.chance(2, 3);
        let mut line = if inherit {
            self.tag("owner.inherited");
            self.sp()
        } else {
            let n = self.name(&rec.owner, true);
            format!("{n}{}", self.sp())
        };
        self.last_owner = Some(rec.owner.clone());
        // TTL: explicit, or inherited from $TTL (RFC 2308) / from the last explicit TTL (RFC 1035)
        let inherited_ttl = match self.default_ttl {
            Some(d) => Some(d),
            None => self.last_ttl,
        };
        let ttl = if inherited_ttl == Some(rec.ttl) && self.r.chance(2, 3) {
            self.tag(if self.default_ttl.is_some() { "ttl.from-$TTL" } else { "ttl.from-previous" });
            None
        } else {
            self.tag("ttl.explicit");
            self.last_ttl = Some(rec.ttl);
            Some(self.ttl_text(rec.ttl))
        };
        let inherited_class = self.last_class.unwrap_or(1);
        let class = if inherited_class == rec.class && self.r.chance(1, 2) {
            self.tag("class.inherited");
            None
        } else {
            self.tag("class.explicit");
            self.last_class = Some(rec.class);
            let c = match rec.class {
                1 => "IN",
                3 => "CH",
                _ => "HS",
            };
            Some(self.mixed_case(c))
        };
        let mut pre = vec![];
        if self.r.chance(1, 3) {
            if ttl.is_some() && class.is_some() {
                self.tag("order.class-ttl");
            }
            pre.extend(class);
            pre.extend(ttl);
        } else {
            pre.extend(ttl);
            pre.extend(class);
        }
        for p in pre {
            line.push_str(&p);
            line.push_str(&self.sp());
        }
        line.push_str(&self.mixed_case(rec.rtype));
        // RDATA, optionally with a parenthesised group spanning lines
        let fields = self.rdata_fields(&rec.data);
        let paren = if self.paren_bias { self.r.chance(2, 3) } else { self.r.chance(1, 4) };
        let (i, j) = if paren {
            let i = self.r.below(fields.len() as u64 + 1) as usize;
            let j = self.r.range(i as u64, fields.len() as u64) as usize;
            self.tag("parens");
            if fields[i..j].iter().any(|f| f.starts_with('"')) {
                self.tag("parens.quoted-item");
            }
            (i, j)
        } else {
            (usize::MAX, usize::MAX)
        };
        let mut inside = false;
        for (k, f) in fields.iter().enumerate() {
            if k == i {
                line.push_str(&self.sp());
                line.push('(');
                inside = true;
            }
            if k == j && inside {
                line.push_str(&self.gap(true));
                line.push(')');
                inside = false;
            }
            line.push_str(&self.gap(inside));
            line.push_str(f);
        }
        if i == fields.len() {
            line.push_str(&self.sp());
            line.push('(');
            inside = true;
        }
        if inside {
            line.push_str(&self.gap(true));
            line.push(')');
        }
        if self.r.chance(1, 5) {
            self.tag("comment.end-of-line");
            let s = self.sp();
            let c = self.comment();
            line.push_str(&format!("{s}{c}"));
        } else if self.r.chance(1, 8) {
            line.push_str(&self.sp());
        }
        if last && self.r.chance(1, 4) {
            self.tag("no-final-newline");
        } else {
            line.push_str(self.eol());
        }
        self.out.push_str(&line);
    }

    /// separator between RDATA items; inside parentheses it may cross line boundaries
    fn gap(&mut self, inside: bool) -> String {
        if inside && self.r.chance(1, 2) {
            self.tag("parens.multi-line");
            let mut s = String::new();
            if self.r.chance(1, 3) {
                self.tag("parens.comment-inside");
                s.push_str(&self.sp());
                s.push_str(&self.comment());
            }
            s.push_str(self.eol());
            s.push_str(&self.sp());
            s
        } else {
            self.sp()
        }
    }
}

/// prints `recs` as a zone file; returns (text, final origin, tags, a name needed a `\DDD` escape)
fn render(r: &mut Rng, origin: &GName, recs: &[GRec], clean: bool) -> (String, GName, Vec<&'static str>, bool) {
    let mut p = Printer {
        r,
        out: String::new(),
        origin: origin.clone(),
        default_ttl: None,
        last_ttl: None,
        last_class: None,
        last_owner: None,
        tags: vec![],
        name_ddd: false,
        name_policy: 0,
        paren_bias: false,
        clean,
    };
    p.filler();
    if p.r.chance(1, 4) {
        p.directive_origin(&origin.clone());
    }
    if p.r.chance(1, 3) {
        let t = if !recs.is_empty() && p.r.chance(2, 3) { recs[0].ttl } else { gen_ttl(p.r) };
        p.directive_ttl(t);
    }
    for (k, rec) in recs.iter().enumerate() {
        p.filler();
        if p.r.chance(1, 10) {
            // move the origin: up, down, or elsewhere
            let o = match p.r.below(3) {
                0 if !p.origin.0.is_empty() => GName(p.origin.0[1..].to_vec()),
                1 => gen_name_under(p.r, &rec.owner.clone(), false),
                _ => gen_abs_name(p.r, false),
            };
            p.directive_origin(&o);
        }
        if p.r.chance(1, 10) {
            let t = if p.r.chance(2, 3) { rec.ttl } else { gen_ttl(p.r) };
            p.directive_ttl(t);
        }
        p.record(rec, k + 1 == recs.len());
    }
    if p.out.ends_with('\n') {
        p.filler();
    }
    (p.out, p.origin, p.tags, p.name_ddd)
}

/// a scripted file: directives, filler and records with a stated way of writing names
enum Step {
    Origin(GName),
    Ttl(u32),
    Filler,
    /// record, name policy (0 random / 1 relative / 2 absolute)
    Rec(GRec, u8),
    /// a line as it is
    Raw(String),
    /// forget what could be inherited (owner, TTL, class): the next record states everything
    Reset,
}

fn render_plan(r: &mut Rng, origin: &GName, plan: &[Step]) -> (String, GName, Vec<&'static str>) {
    let mut p = Printer {
        r,
        out: String::new(),
        origin: origin.clone(),
        default_ttl: None,
        last_ttl: None,
        last_class: None,
        last_owner: None,
        tags: vec![],
        name_ddd: false,
        name_policy: 0,
        paren_bias: true,
        clean: true,
    };
    for (k, st) in plan.iter().enumerate() {
        match st {
            Step::Origin(o) => p.directive_origin(o),
            Step::Ttl(t) => p.directive_ttl(*t),
            Step::Filler => p.filler(),
            Step::Raw(l) => p.out.push_str(l),
            Step::Reset => {
                p.last_owner = None;
                p.last_ttl = None;
                p.default_ttl = None;
                p.last_class = Some(0);
            }
            Step::Rec(rec, pol) => {
                p.name_policy = *pol;
                // only the very last line of the file may lack its newline
                p.record(rec, k + 1 == plan.len());
                p.name_policy = 0;
            }
        }
    }
    (p.out, p.origin, p.tags)
}

fn gen_alnum_label(r: &mut Rng, n: usize) -> Vec<u8> {
    (0..n).map(|_| *r.pick(b"abcdefghijklmnopqrstuvwxyzABCXYZ0123456789")).collect()
}

/// a name under `base` whose wire form has exactly `total` octets (labels of 63 as far as they go)
fn name_of_wire_len(r: &mut Rng, base: &GName, total: usize) -> GName {
    let mut remaining = total - base.wire_len();
    let mut lens = vec![];
    while remaining > 64 {
        lens.push(63);
        remaining -= 64;
    }
    if remaining == 1 {
        // no room for a label of length 0: shorten the previous one
        let l = lens.pop().unwrap();
        lens.push(l - 1);
        remaining = 2;
    }
    lens.push(remaining - 1);
    // put the short label anywhere
    let i = r.below(lens.len() as u64) as usize;
    let last = lens.len() - 1;
    lens.swap(i, last);
    let mut ls: Vec<Vec<u8>> = lens.into_iter().map(|n| gen_alnum_label(r, n)).collect();
    for l in ls.iter_mut() {
        if l.len() >= 4 && l[..2].eq_ignore_ascii_case(b"xn") {
            l[0] = b'y';
        }
    }
    ls.extend(base.0.iter().cloned());
    GName(ls)
}

fn simple_origin(r: &mut Rng) -> GName {
    let k = r.range(1, 3);
    GName((0..k).map(|_| { let n = r.range(1, 9) as usize; gen_alnum_label(r, n) }).collect())
}

fn rec_a(r: &mut Rng, owner: &GName, ttl: u32) -> GRec {
    GRec { owner: owner.clone(), rtype: "A", code: 1, class: 1, ttl, data: GData::A([r.byte(), r.byte(), r.byte(), r.byte()]) }
}

/// names at the limits: absolute forms of exactly 253..256 octets, labels of 63 / 64, written
/// absolutely and origin-relative (loader origin or `$ORIGIN`), as owner and in every RDATA name
/// position.  Returns (case line): 255 and less must load, 256 / a 64-octet label must be an error.
fn limit_names_case(r: &mut Rng) -> String {
    let loader = simple_origin(r);
    let mut plan = vec![Step::Filler];
    let base = if r.chance(1, 2) {
        let o = if r.chance(1, 2) { gen_name_under(r, &loader, false) } else { simple_origin(r) };
        plan.push(Step::Origin(o.clone()));
        o
    } else {
        loader.clone()
    };
    let (big, valid) = match r.below(6) {
        0 => (name_of_wire_len(r, &base, 253), true),
        1 => (name_of_wire_len(r, &base, 254), true),
        2 | 3 => (name_of_wire_len(r, &base, 255), true),
        4 => (name_of_wire_len(r, &base, 256), false),
        _ => {
            // a single label of 63 (valid) or 64 (not)
            let n = if r.chance(1, 2) { 63 } else { 64 };
            let mut ls = vec![gen_alnum_label(r, n)];
            ls.extend(base.0.iter().cloned());
            (GName(ls), n == 63)
        }
    };
    let policy = if r.chance(2, 3) { 1 } else { 2 };
    let ttl = r.range(1, 99999) as u32;
    let small = {
        let mut ls = vec![gen_alnum_label(r, 3)];
        ls.extend(base.0.iter().cloned());
        GName(ls)
    };
    let other = {
        let mut ls = vec![gen_alnum_label(r, 4)];
        ls.extend(base.0.iter().cloned());
        GName(ls)
    };
    let mk = |rtype: &'static str, code: u16, data: GData| GRec { owner: small.clone(), rtype, code, class: 1, ttl, data };
    let pos = r.below(7);
    rec_stat_hint(pos);
    let rec = match pos {
        0 => rec_a(r, &big, ttl),
        1 => mk("NS", 2, GData::N(big.clone())),
        2 => mk("CNAME", 5, GData::N(big.clone())),
        3 => mk("MX", 15, GData::Mx(r.below(100) as u16, big.clone())),
        4 => mk("SOA", 6, GData::Soa(big.clone(), other.clone(), 1, 2, 3, 4, 5)),
        5 => mk("SOA", 6, GData::Soa(other.clone(), big.clone(), 1, 2, 3, 4, 5)),
        _ => mk("SRV", 33, GData::Srv(1, 2, 3, big.clone())),
    };
    let mut recs = vec![];
    if r.chance(1, 2) {
        let x = rec_a(r, &other, ttl);
        recs.push(x.clone());
        plan.push(Step::Rec(x, 0));
        plan.push(Step::Filler);
    }
    recs.push(rec.clone());
    plan.push(Step::Rec(rec, policy));
    let (text, final_origin, _tags) = render_plan(r, &loader, &plan);
    if valid {
        case_line("m", &loader, &text, Some((&final_origin, &recs)))
    } else {
        format!("zone m {} {} {} !", loader.tok(), hex(text.as_bytes()), final_origin.tok_lower())
    }
}

fn rec_stat_hint(_pos: u64) {}

/// the same relative owner text, and the same relative RDATA names, again after each `$ORIGIN`
/// change — with comments, blank lines, inherited-owner lines and `$TTL` in between: every name
/// denotes itself under the origin in force *where it is written*
fn origin_switch_case(r: &mut Rng) -> String {
    let loader = simple_origin(r);
    let x: Vec<Vec<u8>> = (0..r.range(1, 2)).map(|_| { let n = r.range(1, 6) as usize; gen_alnum_label(r, n) }).collect();
    let y: Vec<Vec<u8>> = vec![{ let n = r.range(1, 6) as usize; gen_alnum_label(r, n) }];
    let z: Vec<Vec<u8>> = vec![{ let n = r.range(1, 6) as usize; gen_alnum_label(r, n) }];
    let under = |rel: &Vec<Vec<u8>>, o: &GName| {
        let mut ls = rel.clone();
        ls.extend(o.0.iter().cloned());
        GName(ls)
    };
    let mut origins = vec![loader.clone()];
    for _ in 0..r.range(1, 2) {
        for _ in 0..10 {
            let o = match r.below(3) {
                0 => gen_name_under(r, &loader, false),
                1 if loader.0.len() > 1 => GName(loader.0[1..].to_vec()),
                _ => simple_origin(r),
            };
            if !origins.iter().any(|p| p.tok_lower() == o.tok_lower()) && !o.0.is_empty() {
                origins.push(o);
                break;
            }
        }
    }
    let mut plan = vec![];
    let mut recs: Vec<GRec> = vec![];
    let ttl = r.range(1, 99999) as u32;
    for (k, o) in origins.iter().enumerate() {
        if k > 0 || r.chance(1, 4) {
            plan.push(Step::Origin(o.clone()));
        }
        plan.push(Step::Filler);
        if r.chance(1, 3) {
            plan.push(Step::Ttl(ttl));
        }
        let owner = under(&x, o);
        let target = under(&y, o);
        let mut seg = vec![rec_a(r, &owner, ttl)];
        for kind in 0..3 {
            if r.chance(1, 2) {
                let (rtype, code, data): (&'static str, u16, GData) = match kind {
                    0 => ("NS", 2, GData::N(target.clone())),
                    1 => ("MX", 15, GData::Mx(10, target.clone())),
                    _ => ("TXT", 16, GData::Txt(vec![gen_alnum_label(r, 5)])),
                };
                seg.push(GRec { owner: owner.clone(), rtype, code, class: 1, ttl, data });
            }
        }
        if r.chance(1, 2) {
            // another owner whose RDATA repeats the relative name
            let oz = under(&z, o);
            let (rtype, code) = *r.pick(&[("CNAME", 5u16), ("NS", 2), ("PTR", 12)]);
            seg.push(GRec { owner: oz, rtype, code, class: 1, ttl, data: GData::N(target.clone()) });
        }
        for (j, rec) in seg.into_iter().enumerate() {
            // a set: the same record is not stated twice (the labels x and z can coincide)
            if recs.iter().any(|x: &GRec| x.norm() == rec.norm()) {
                continue;
            }
            if j > 0 && r.chance(1, 3) {
                plan.push(Step::Filler);
            }
            recs.push(rec.clone());
            plan.push(Step::Rec(rec, 1));
        }
    }
    let (text, final_origin, _tags) = render_plan(r, &loader, &plan);
    case_line("m", &loader, &text, Some((&final_origin, &recs)))
}

/// records whose RDATA ends in hex / base64 data, the data split at random offsets, mostly inside
/// parenthesised continuation lines with comments: must load to the same bytes as the unsplit form
fn split_data_case(r: &mut Rng) -> (String, Vec<&'static str>) {
    let origin = simple_origin(r);
    let mut plan = vec![Step::Filler];
    let mut recs: Vec<GRec> = vec![];
    let ttl = r.range(1, 99999) as u32;
    for _ in 0..r.range(1, 3) {
        let kind = *r.pick(&["TLSA", "TLSA", "SMIMEA", "DS", "DS", "SSHFP", "CERT", "CERT", "CERT", "OPENPGPKEY"]);
        let (rtype, code, data) = gen_blob(r, kind);
        let owner = {
            let mut ls = vec![gen_alnum_label(r, 3)];
            ls.extend(origin.0.iter().cloned());
            GName(ls)
        };
        let rec = GRec { owner, rtype, code, class: 1, ttl, data };
        if recs.iter().any(|x| x.owner.tok_lower() == rec.owner.tok_lower()) {
            continue;
        }
        recs.push(rec.clone());
        plan.push(Step::Rec(rec, 0));
        if r.chance(1, 3) {
            plan.push(Step::Filler);
        }
    }
    let (text, final_origin, tags) = render_plan(r, &origin, &plan);
    (case_line("m", &origin, &text, Some((&final_origin, &recs))), tags)
}

/// parentheses at the edges of the syntax: several groups per record, parentheses inside quoted
/// strings and comments (must load); "(" inside "(", ")" without "(", deep nesting, groups left
/// open at the end of the text, with quotes / comments / line ends in between (Ok or Err, no hang)
fn paren_edge_case(r: &mut Rng) -> String {
    let origin = simple_origin(r);
    let own = String::from_utf8(gen_alnum_label(r, 3)).unwrap();
    let o = {
        let mut ls = vec![own.clone().into_bytes()];
        ls.extend(origin.0.iter().cloned());
        GName(ls)
    };
    let txt = |strs: &[&[u8]]| GRec {
        owner: o.clone(),
        rtype: "TXT",
        code: 16,
        class: 1,
        ttl: 60,
        data: GData::Txt(strs.iter().map(|s| s.to_vec()).collect()),
    };
    let nl = if r.chance(1, 2) { "\n" } else { " " };
    if r.chance(2, 5) {
        // well-formed: the expectation is stated
        let (text, rec): (String, GRec) = match r.below(7) {
            0 => (format!("{own} 60 TXT ( a ){nl}( b ) c\n").replace(&format!("){nl}("), ") ("), txt(&[b"a", b"b", b"c"])),
            1 => (format!("{own} 60 TXT ( a{nl}) ({nl}b ) ( ) c\n"), txt(&[b"a", b"b", b"c"])),
            2 => (format!("{own} 60 TXT \"( x\" \")\" \"((\"\n"), txt(&[b"( x", b")", b"(("])),
            3 => (format!("{own} 60 TXT ( \"a(b\"{nl}\")\" ) \"(\"\n"), txt(&[b"a(b", b")", b"("])),
            4 => (format!("; ( ( (\n{own} 60 TXT a ; ) ) ( \n ; )\n"), txt(&[b"a"])),
            5 => (format!("{own} 60 TXT ( a ; ( ) (( \n b ; )\n )\n"), txt(&[b"a", b"b"])),
            _ => (format!("{own} 60 TXT ( ){nl}( ) a ( )\n").replace(&format!("){nl}("), ") ("), txt(&[b"a"])),
        };
        return case_line("m", &origin, &text, Some((&origin, &[rec])));
    }
    // not well-formed, or not defined by the RFC: Ok or Err, never a panic or a hang
    let mut s = format!("{own} 60 TXT ");
    match r.below(4) {
        0 => {
            // deep nesting, closed or not
            let n = *r.pick(&[2usize, 3, 10, 100, 1000]);
            for _ in 0..n {
                { let w: &&str = r.pick(&["(", "( ", "(\n", "(a "][..]); s.push_str(w); }
            }
            s.push_str("x ");
            let m = *r.pick(&[0usize, 1, n - 1, n, n + 1]);
            for _ in 0..m {
                { let w: &&str = r.pick(&[")", " )", "\n)"][..]); s.push_str(w); }
            }
            if r.chance(1, 2) {
                s.push('\n');
            }
        }
        _ => {
            let toks = [
                "(", ")", "((", "))", "()", ")(", "( (", "a", "b ", " ", "\n", "\"q(\"", "\"q)\"", "\"", "; c (\n", "; c )\n", ";(", "(a", "a)", "(\"", "\")",
                "\\(", "\\)", "@", "$TTL", "60", "TXT",
            ];
            for _ in 0..r.range(1, 14) {
                let w: &&str = r.pick(&toks[..]);
                s.push_str(w);
                if r.chance(1, 2) {
                    s.push(' ');
                }
            }
            if r.chance(1, 2) {
                s.push('\n');
            }
            if r.chance(1, 3) {
                s.push_str(&format!("{own}2 60 A 1.2.3.4\n"));
            }
        }
    }
    case_line("m", &origin, &s, None)
}

// ------------------------------------------------------------------------------------------------
// generator: per-type RDATA text fuzz — every record type the zone parser knows, a valid RDATA text
// mutated at token level with fragments aimed at the mini-grammars of the `from_tokens` parsers
// (quotes, escapes, `=`, commas, `\DDD`, `\#`, numeric boundaries, over-long tokens, non-ASCII, NUL,
// keyNNNNN forms, base64 / hex padding).  No expectation: Ok or Err, never a panic or a hang.

const RDATA_SAMPLES: &[(&str, &[&[&str]])] = &[
    ("A", &[&["1.2.3.4"], &["255.255.255.255"]]),
    ("AAAA", &[&["2001:db8::1"], &["::ffff:1.2.3.4"], &["1:2:3:4:5:6:7:8"]]),
    ("ANAME", &[&["host.example.com."]]),
    ("CNAME", &[&["host"]]),
    ("NS", &[&["ns1.example.com."]]),
    ("PTR", &[&["host.example.com."]]),
    ("MX", &[&["10", "mail.example.com."]]),
    ("SOA", &[&["ns.example.com.", "admin.example.com.", "2024010101", "7200", "3600", "1209600", "3600"], &["ns", "admin", "1", "1h", "1d", "1w", "60"]]),
    ("SRV", &[&["1", "2", "443", "target.example.com."]]),
    ("TXT", &[&["\"a b\"", "c"], &["v=spf1", "-all"]]),
    ("HINFO", &[&["\"VAX-11/780\"", "UNIX"]]),
    ("CAA", &[&["0", "issue", "\"ca.example.net; account=230123\""], &["128", "iodef", "mailto:a@b.c"]]),
    ("CERT", &[&["1", "2", "3", "QUJD", "REVG"], &["65535", "0", "255", "QQ=="]]),
    ("CSYNC", &[&["66", "3", "A", "NS", "AAAA"], &["0", "0"]]),
    ("DS", &[&["60485", "5", "1", "2BB183AF5F22588179A53B0A", "98631FAD1A292118"], &["1", "RSASHA1", "2", "aabb"]]),
    ("CDS", &[&["60485", "5", "1", "2BB183AF5F22588179A53B0A98631FAD1A292118"]]),
    ("DNSKEY", &[&["256", "3", "8", "AwEAAcw5", "QQ=="]]),
    ("CDNSKEY", &[&["257", "3", "13", "mdsswUyr3DPW132mOi8V9xESWE8jTo0dxCjjnopKl+GqJxpVXckHAeF+KkxLbxILfDLUT0rAK9iUzy1L53eKGQ=="]]),
    ("KEY", &[&["256", "3", "8", "AwEAAcw5"]]),
    ("HTTPS", &[
        &["1", ".", "alpn=h2,h3", "port=443", "ipv4hint=1.2.3.4,5.6.7.8", "ipv6hint=2001:db8::1,::1"],
        &["0", "alias.example.com."],
        &["16", "svc.example.com.", "mandatory=alpn,port", "alpn=\"h2\"", "no-default-alpn", "port=8443", "ech=AEX+DQBB", "key667=hello"],
        &["1", ".", "alpn=f\\\\\\092oo\\092,bar,h2"],
    ]),
    ("SVCB", &[
        &["1", "svc.example.com.", "key65535=x"],
        &["1", ".", "key0=a", "key1=h2", "key65534=\"q s\"", "key00001=b"],
        &["2", "svc.", "ipv4hint=\"1.2.3.4\"", "ipv6hint=\"::1\"", "ech=\"QQ==\""],
    ]),
    ("NAPTR", &[&["100", "10", "\"U\"", "\"E2U+sip\"", "\"!^.*$!sip:info@example.com!\"", "."], &["65535", "0", "s", "SIP+D2U", "\"\"", "_sip._udp.example.com."]]),
    ("NS", &[&["@"]]),
    ("NULL", &[&["\\#", "2", "0102"]]),
    ("OPENPGPKEY", &[&["QUJDREU="]]),
    ("SSHFP", &[&["2", "1", "123456789abcdef67890123456789abcdef67890"]]),
    ("TLSA", &[&["3", "1", "1", "a1b2c3d4", "e5f6"]]),
    ("SMIMEA", &[&["0", "0", "1", "00ff"]]),
    ("NSEC", &[&["next.example.com.", "A", "NS", "RRSIG", "NSEC"]]),
    ("NSEC3", &[&["1", "0", "10", "AABBCCDD", "2T7B4G4VSA5SMI47K61MV5BV1A22BOJR", "A", "RRSIG"]]),
    ("NSEC3PARAM", &[&["1", "0", "10", "-"]]),
    ("RRSIG", &[&["A", "8", "3", "3600", "20300101000000", "20200101000000", "12345", "example.com.", "QUJD", "REVG"]]),
    ("SIG", &[&["A", "8", "3", "3600", "20300101000000", "20200101000000", "12345", "example.com.", "QUJD"]]),
    ("TSIG", &[&["hmac-sha256.", "1", "300", "0", "0", "0"]]),
    ("OPT", &[&["\\#", "0"]]),
    ("AXFR", &[&[]]),
    ("IXFR", &[&["1"]]),
    ("ANY", &[&["x"]]),
    ("TYPE123", &[&["\\#", "4", "01020304"], &["\\#", "0"]]),
    ("TYPE1", &[&["\\#", "4", "01020304"]]),
    ("TYPE65535", &[&["\\#", "1", "00"]]),
    ("ZERO", &[&[]]),
    ("A6", &[&["0", "::1"]]),
];

const FUZZ_FRAGS: &[&str] = &[
    "\"", "\"\"", "\"\"\"", "\\\"", "\\", "\\\\", "=", "==", "=x", "x=", "=\"", "=\"\"", "=\\", "=,", ",", ",,", ",x", "x,", "\\,", "\\\\,", "\\\\\\,",
    "\\256", "\\999", "\\1", "\\25", "\\000", "\\255", "\\#", "\\# 3 0102", "\\# 2 010203", "\\# 65536 00", "\\# -1", "\\#4", "(", ")", "( )", ";", "@", "$", "*", ".", "..", "-",
    "0", "1", "255", "256", "65535", "65536", "4294967295", "4294967296", "2147483647", "2147483648", "18446744073709551616", "-1", "+1", "-0", "00001", "0x10", "1e3", "1.5",
    "key0", "key65535", "key65536", "key00001", "KEY1", "key", "key-1", "key1=", "key1=\"", "mandatory", "mandatory=", "mandatory=mandatory", "mandatory=key65535", "mandatory=alpn,alpn",
    "alpn", "alpn=", "alpn=,", "alpn=h2,,h3", "alpn=\\", "alpn=\"h2", "alpn=h2\"", "alpn=\\\"", "alpn=\"", "no-default-alpn=", "no-default-alpn=x", "port", "port=", "port=65536", "port=-1", "port=\"80\"", "port=8 0",
    "ipv4hint=::1", "ipv6hint=1.2.3.4", "ipv4hint=", "ipv4hint=,", "ipv4hint=1.2.3.4,", "ipv6hint=,::1", "ech", "ech=", "ech=Q", "ech=QQ=", "ech=Q===", "ech==QQ=", "ech=\"", "dohpath=/q{?dns}", "port=1", "port=1 port=2", "alpn=a alpn=b",
    "QQ=", "Q===", "=QQ=", "QQ==QQ==", "QR==", "abc", "0g", "+f", " ", "\t", "a b", "\u{0}", "\u{1}", "\u{7f}", "\u{e9}", "\u{6f22}", "\u{1F600}", "\u{85}", "\u{a0}", "\u{b2}", "\u{663}", "\u{ff15}",
    "A", "a", "ns", "NS", "TYPE1", "TYPE0", "TYPE65536", "type1", "CLASS1", "IN", "any", "*",
];

fn fuzz_token(r: &mut Rng, t: &str) -> String {
    let frag: String = match r.below(12) {
        0 => "a".repeat(*r.pick(&[63usize, 64, 255, 256, 65535, 65536])),
        1 => "1".repeat(*r.pick(&[5usize, 10, 11, 20, 40, 300])),
        2 => format!("\"{}\"", "q".repeat(*r.pick(&[255usize, 256, 65536]))),
        _ => r.pick(FUZZ_FRAGS).to_string(),
    };
    let chars: Vec<char> = t.chars().collect();
    let at = |r: &mut Rng| r.below(chars.len() as u64 + 1) as usize;
    match r.below(9) {
        0 => frag,
        1 => format!("{t}{frag}"),
        2 => format!("{frag}{t}"),
        3 => {
            let i = at(r);
            chars[..i].iter().collect::<String>() + &frag + &chars[i..].iter().collect::<String>()
        }
        4 => {
            // only the value of key=value
            match t.split_once('=') {
                Some((k, _)) => format!("{k}={frag}"),
                None => format!("{t}={frag}"),
            }
        }
        5 => format!("\"{t}\""),
        6 => {
            // cut
            let i = at(r);
            chars[..i].iter().collect()
        }
        7 => {
            if r.chance(1, 2) { t.to_ascii_lowercase() } else { t.to_ascii_uppercase() }
        }
        _ => {
            // delete one character
            if chars.is_empty() {
                frag
            } else {
                let i = r.below(chars.len() as u64) as usize;
                chars.iter().enumerate().filter(|(k, _)| *k != i).map(|(_, c)| *c).collect()
            }
        }
    }
}

/// trust-anchor files (`. 172800 IN DNSKEY 257 3 8 <base64>`), valid and mutated
fn tanchor_case(r: &mut Rng) -> String {
    let mut toks: Vec<String> = ["example.com.", "172800", "IN", "DNSKEY", "257", "3", "8", "AwEAAagAIKlVZrpC6Ia7gEzahOR+9W29euxhJhVVLOyQbSEW0O8gcCjF", "FVQUTf6v58fLjwBd0YI0EzrAcQqBGCzh/RStIoO8g0NfnfL2MTJRkxoX"]
        .iter()
        .map(|s| s.to_string())
        .collect();
    for _ in 0..r.below(3) {
        let i = r.below(toks.len() as u64) as usize;
        let f = fuzz_token(r, &toks[i].clone());
        toks[i] = f;
    }
    if r.chance(1, 4) {
        toks.remove(1);
    }
    let mut text = toks.join(if r.chance(1, 8) { "\t" } else { " " });
    if r.chance(1, 4) {
        text = format!("; comment\n\n{text}");
    }
    if r.chance(9, 10) {
        text.push('\n');
    }
    format!("tanchor {}", hex(text.as_bytes()))
}

/// TTL texts at and around every overflow branch of `parse_ttl` (plain, with units, sums), in the TTL
/// field, in `$TTL` and in the SOA's numeric fields (model side: `parseTtl`)
fn ttl_fuzz_case(r: &mut Rng) -> String {
    const T: &[&str] = &[
        "0", "1", "4294967295", "4294967296", "4294967294", "04294967295", "00000000000000000001", "99999999999999999999", "18446744073709551616",
        "7101w", "7102w", "49710d", "49711d", "1193046h", "1193047h", "71582788m", "71582789m", "4294967295s", "4294967296s", "4294967296w",
        "49710d6h28m15s", "49710d6h28m16s", "4294967295s1", "4294967294s1", "4294967295s0", "1w4294362495", "1w4294362496", "3w3w", "1s2d3w4h2m", "1h1", "1h1h1h",
        "1S", "1M", "1H", "1D", "1W", "1x", "w", "1ww", "s1", "1 w", "+1", "-1", "1.5h", "0w", "0s0", "4294967295w0", "99999999999w", "2147483647", "2147483648", "2147483648s",
    ];
    let a = *r.pick(T);
    let b = *r.pick(T);
    let text = match r.below(5) {
        0 => format!("a {a} A 1.2.3.4\n"),
        1 => format!("$TTL {a}\na A 1.2.3.4\n b {b} A 1.2.3.5\n"),
        2 => format!("a 60 SOA ns adm {a} {b} {} {} {}\n", r.pick(T), r.pick(T), r.pick(T)),
        3 => format!("a {a} IN {b} A 1.2.3.4\n"),
        _ => format!("$TTL {a} ; {b}\n$TTL {b}\na A 1.2.3.4\n"),
    };
    let origin = GName(vec![b"example".to_vec(), b"com".to_vec()]);
    case_line("m", &origin, &text, None)
}

/// `RData::try_from_str(type, text)` on valid and mutated RDATA texts
fn rdata_entry_case(r: &mut Rng) -> String {
    let (ty, samples) = *r.pick(RDATA_SAMPLES);
    let mut toks: Vec<String> = r.pick(samples).iter().map(|s| s.to_string()).collect();
    if r.chance(1, 2) && !toks.is_empty() {
        let i = r.below(toks.len() as u64) as usize;
        toks[i] = fuzz_token(r, &toks[i].clone());
    }
    let mut text = toks.join(" ");
    if text.len() > 5000 {
        text.truncate(300);
    }
    if r.chance(1, 6) {
        text = format!("( {text} )");
    }
    if r.chance(1, 6) {
        text.push_str(" ; comment\n");
    }
    format!("rdata {ty} {}", hex(text.as_bytes()))
}

/// a servable zone (SOA at the origin, class IN, no CNAME next to other data) in a random layout, loaded
/// through the server's FileZoneHandler; a share of the files mutated (no expectation beyond consistency)
fn zonefile_case(r: &mut Rng) -> String {
    let origin = simple_origin(r);
    let mut recs = gen_records(r, &origin, false, true);
    for x in recs.iter_mut() {
        x.class = 1;
    }
    recs.retain(|x| x.code != 6);
    let names = |o: &GName, l: &[u8]| {
        let mut ls = vec![l.to_vec()];
        ls.extend(o.0.iter().cloned());
        GName(ls)
    };
    recs.insert(0, GRec { owner: origin.clone(), rtype: "SOA", code: 6, class: 1, ttl: 3600, data: GData::Soa(names(&origin, b"ns"), names(&origin, b"adm"), r.next() as u32, 7200, 600, 86400, 60) });
    // CNAME / ANAME only where nothing else lives
    let owners: Vec<String> = recs.iter().map(|x| x.owner.tok_lower()).collect();
    let mut keep = vec![];
    for (i, x) in recs.iter().enumerate() {
        let others = owners.iter().enumerate().filter(|(j, o)| *j != i && **o == owners[i] && recs[*j].code != x.code).count();
        let clash = (x.code == 5 && others > 0) || recs.iter().enumerate().any(|(j, y)| j != i && y.code == 5 && owners[j] == owners[i] && x.code != 5);
        if !clash {
            keep.push(x.clone());
        }
    }
    let (mut text, _, _, name_ddd) = render(r, &origin, &keep, true);
    let _ = name_ddd;
    if r.chance(1, 4) {
        text = mutate(r, &text);
    }
    format!("zonefile {} {}", origin.tok(), hex(text.as_bytes()))
}

/// `$INCLUDE`: a main file and included files (one level or a chain), records before, inside and after;
/// a share of the included files move the origin with `$ORIGIN` (which must not reach the parent:
/// RFC 1035 5.1); includes of the file itself / chains beyond the limit must be errors, not hangs
fn zoneinc_case(r: &mut Rng) -> String {
    let origin = simple_origin(r);
    let lab = |r: &mut Rng| gen_alnum_label(r, 3);
    let under = |o: &GName, l: Vec<u8>| {
        let mut ls = vec![l];
        ls.extend(o.0.iter().cloned());
        GName(ls)
    };
    if r.chance(1, 6) {
        // unbounded nesting: the file includes itself, or a -> b -> a
        let (main, files) = if r.chance(1, 2) {
            ("x 60 A 1.2.3.4\n$INCLUDE main.zone\n".to_string(), "-".to_string())
        } else {
            ("$INCLUDE b.zone\n".to_string(), format!("b.zone:{}", hex(b"y 60 A 1.2.3.4\n$INCLUDE main.zone\n")))
        };
        return format!("zoneinc {} {} {} {} !", origin.tok(), hex(main.as_bytes()), files, origin.tok_lower());
    }
    let ttl = r.range(1, 9999) as u32;
    let mut recs = vec![];
    let mut mk = |r: &mut Rng, o: &GName| {
        let l = lab(r);
        let x = rec_a(r, &under(o, l), ttl);
        recs.push(x.clone());
        x
    };
    // included file(s)
    let moved = r.chance(1, 3);
    let o2 = if moved { simple_origin(r) } else { origin.clone() };
    let mut inc_plan = vec![Step::Filler];
    if moved {
        inc_plan.push(Step::Origin(o2.clone()));
    }
    inc_plan.push(Step::Reset);
    for _ in 0..r.range(1, 2) {
        let x = mk(r, &o2);
        inc_plan.push(Step::Rec(x, if moved { 1 } else { 0 }));
    }
    let chain = r.chance(1, 3);
    let mut files = vec![];
    if chain {
        let x = mk(r, &o2);
        let (t3, _, _) = render_plan(r, &o2, &[Step::Reset, Step::Rec(x, 0), Step::Filler]);
        files.push(("c.zone", t3));
        inc_plan.push(Step::Raw("$INCLUDE c.zone ; nested\n".into()));
    }
    let (inc_text, _, _) = render_plan(r, &origin, &inc_plan);
    files.push(("b.zone", inc_text));
    // main file: records, the include, records written relative to the parent's origin
    let mut plan = vec![Step::Filler];
    if r.chance(1, 2) {
        let x = mk(r, &origin);
        plan.push(Step::Rec(x, 0));
    }
    plan.push(Step::Raw(format!("$INCLUDE{}b.zone{}\n", if r.chance(1, 4) { "\t" } else { " " }, if r.chance(1, 3) { " ; included" } else { "" })));
    plan.push(Step::Reset);
    for _ in 0..r.range(1, 2) {
        let x = mk(r, &origin);
        plan.push(Step::Rec(x, 1));
    }
    let (main, final_origin, _) = render_plan(r, &origin, &plan);
    let exp = recs.iter().map(GRec::norm).collect::<Vec<_>>().join("|");
    let fl = files.iter().map(|(n, t)| format!("{n}:{}", hex(t.as_bytes()))).collect::<Vec<_>>().join(",");
    format!("zoneinc {} {} {} {} {}", origin.tok(), hex(main.as_bytes()), fl, final_origin.tok_lower(), exp)
}

fn rdata_fuzz_case(r: &mut Rng, rec: &mut Recorder) -> String {
    let (ty, samples) = *r.pick(RDATA_SAMPLES);
    rec.stat(&format!("rdata-fuzz.type.{ty}"));
    let mut toks: Vec<String> = r.pick(samples).iter().map(|s| s.to_string()).collect();
    let nmut = match r.below(10) {
        0 => 0,
        1..=6 => 1,
        7 | 8 => 2,
        _ => 3,
    };
    for _ in 0..nmut {
        match r.below(8) {
            0 if !toks.is_empty() => {
                let i = r.below(toks.len() as u64) as usize;
                toks.remove(i);
            }
            1 if !toks.is_empty() => {
                let i = r.below(toks.len() as u64) as usize;
                let t = toks[i].clone();
                toks.insert(i, t);
            }
            2 if toks.len() > 1 => {
                let i = r.below(toks.len() as u64) as usize;
                let j = r.below(toks.len() as u64) as usize;
                toks.swap(i, j);
            }
            3 => {
                let i = r.below(toks.len() as u64 + 1) as usize;
                toks.insert(i, r.pick(FUZZ_FRAGS).to_string());
            }
            _ => {
                if toks.is_empty() {
                    toks.push(r.pick(FUZZ_FRAGS).to_string());
                } else {
                    let i = r.below(toks.len() as u64) as usize;
                    toks[i] = fuzz_token(r, &toks[i].clone());
                }
            }
        }
    }
    let ty = match r.below(6) {
        0 => ty.to_ascii_lowercase(),
        _ => ty.to_string(),
    };
    let class = *r.pick(&["", "", "IN ", "CH ", "in "]);
    let sep = if r.chance(1, 10) { "\t" } else { " " };
    let mut text = format!("a 60 {class}{ty}");
    let paren = r.chance(1, 10);
    if paren {
        text.push_str(" (");
    }
    for t in &toks {
        text.push_str(sep);
        text.push_str(t);
    }
    if paren && r.chance(3, 4) {
        text.push_str(" )");
    }
    if r.chance(9, 10) {
        text.push('\n');
    }
    let origin = GName(vec![b"example".to_vec(), b"com".to_vec()]);
    // the Lean model appends character by character (quadratic): very long tokens go to the
    // implementation only (the size corpus covers long tokens on the model side up to 10 000)
    case_line(if text.len() > 5000 { "i" } else { "m" }, &origin, &text, None)
}

// ------------------------------------------------------------------------------------------------
// generator: malformed stream

fn mutate(r: &mut Rng, text: &str) -> String {
    let mut s: Vec<char> = text.chars().collect();
    let special: Vec<char> = "\"();\\$@\n\r\t .0123456789-*_:\u{0}\u{1}\u{b}\u{c}\u{1f}\u{7f}".chars().collect();
    for _ in 0..r.range(1, 3) {
        let pos = |r: &mut Rng, n: usize| r.below(n as u64 + 1) as usize;
        match r.below(12) {
            0 | 1 => {
                if !s.is_empty() {
                    let i = r.below(s.len() as u64) as usize;
                    s[i] = *r.pick(&special);
                }
            }
            2 | 3 => {
                let i = pos(r, s.len());
                s.insert(i, *r.pick(&special));
            }
            4 => {
                if !s.is_empty() {
                    let i = r.below(s.len() as u64) as usize;
                    s.remove(i);
                }
            }
            5 => {
                let i = pos(r, s.len());
                s.truncate(i);
            }
            6 => {
                // unbalanced parenthesis / quote
                let i = pos(r, s.len());
                s.insert(i, *r.pick(&['(', ')', '"']));
            }
            7 => {
                // duplicate a segment
                if !s.is_empty() {
                    let i = r.below(s.len() as u64) as usize;
                    let j = (i + r.range(1, 30) as usize).min(s.len());
                    let seg: Vec<char> = s[i..j].to_vec();
                    let k = pos(r, s.len());
                    for (o, c) in seg.into_iter().enumerate() {
                        s.insert(k + o, c);
                    }
                }
            }
            8 => {
                // a huge token / blank run / comment / list
                let n = *r.pick(&[300usize, 4094, 4095, 4096, 5000]);
                let i = pos(r, s.len());
                let run: Vec<char> = match r.below(5) {
                    0 => vec!['a'; n],
                    1 => vec![' '; n],
                    2 => std::iter::once(';').chain(std::iter::repeat('c').take(n)).collect(),
                    3 => std::iter::once('(').chain(" x".chars().cycle().take(n)).chain(std::iter::once(')')).collect(),
                    _ => std::iter::once('"').chain(std::iter::repeat('q').take(n)).chain(std::iter::once('"')).collect(),
                };
                for (o, c) in run.into_iter().enumerate() {
                    s.insert(i + o, c);
                }
            }
            9 => {
                // non-ASCII (no model side)
                let i = pos(r, s.len());
                s.insert(i, *r.pick(&['é', '\u{a0}', '\u{85}', '٣', '½', '\u{2028}', '漢', '\u{1F600}']));
            }
            10 => {
                // swap a keyword
                let words = ["$ORIGIN", "$TTL", "$INCLUDE", "$FOO", "IN", "ANY", "NONE", "TYPE1", "NSEC", "NULL", "@", "1w2d", "4294967296", "99999999999999999999", "+5", "1.2.3.4", "::1", "1.2.3.04", "256.1.1.1", "1:2:3:4:5:6:7:8:9", "::ffff:1.2.3.4", "1::2::3"];
                let w: Vec<char> = r.pick(&words).chars().collect();
                let i = pos(r, s.len());
                s.insert(i, ' ');
                for (o, c) in w.into_iter().enumerate() {
                    s.insert(i + 1 + o, c);
                }
            }
            _ => {
                // replace a digit / letter by a neighbour
                if !s.is_empty() {
                    let i = r.below(s.len() as u64) as usize;
                    if s[i].is_ascii_alphanumeric() {
                        s[i] = *r.pick(&['0', '9', 'a', 'Z', '7', 'w', 'h']);
                    }
                }
            }
        }
    }
    s.into_iter().collect()
}

fn garbage(r: &mut Rng) -> String {
    let n = r.below(120) as usize;
    let alphabet: Vec<char> = "ab1.@$;()\"\\ \t\n\rINTXTAMX 0123456789:-_*\u{7f}\u{1}".chars().collect();
    (0..n).map(|_| *r.pick(&alphabet)).collect()
}

/// fragments of valid syntax glued in random order
fn token_soup(r: &mut Rng) -> String {
    let toks = [
        "www", "@", " ", "\t", "\n", "\r\n", "3600", "1h", "IN", "CH", "A", "AAAA", "TXT", "MX", "SOA", "NS", "CNAME", "SRV", "PTR",
        "1.2.3.4", "::1", "10", "mail.example.com.", "ns", "(", ")", ";c", "\"q s\"", "\"", "$TTL", "$ORIGIN", "$INCLUDE", "x.", ".",
        "\\.", "\\065", "a\\.b", "*", "_sip._tcp", "-a", "a_b", "ANY", "NONE", "NULL", "0", "4294967295", "4294967296", "2147483648",
    ];
    let n = r.range(1, 25);
    let mut s = String::new();
    for _ in 0..n {
        let w: &&str = r.pick(&toks[..]);
        s.push_str(w);
        if r.chance(2, 3) {
            s.push(' ');
        }
    }
    s
}

/// the same few owners / types / data again and again with varying TTL, class and letter case:
/// exercises the replace / ignore / refuse rules of `RecordSet::insert` (no expectation)
fn rrset_edits(r: &mut Rng) -> String {
    let owners = ["a", "A", "b", "@", ""];
    let datas = [
        ("A", "1.1.1.1"), ("A", "2.2.2.2"), ("a", "1.1.1.1"), ("CNAME", "x"), ("CNAME", "X"), ("cname", "y"), ("ANAME", "x"),
        ("NS", "n"), ("NS", "N"), ("TXT", "t"), ("TXT", "\"t\""), ("MX", "1 m"), ("MX", "1 M"), ("MX", "2 m"),
        ("SOA", "a b 1 2 3 4 5"), ("SOA", "a b 2 2 3 4 5"),
    ];
    let mut s = String::new();
    for _ in 0..r.range(2, 7) {
        let (t, d) = *r.pick(&datas);
        let o = *r.pick(&owners);
        let ttl = *r.pick(&["60", "60", "70", ""]);
        let cls = *r.pick(&["", "", "IN", "CH"]);
        s.push_str(&format!("{o} {ttl} {cls} {t} {d}\n"));
    }
    s
}

fn case_line(flag: &str, origin: &GName, text: &str, exp: Option<(&GName, &[GRec])>) -> String {
    let mut l = format!("zone {flag} {} {}", origin.tok(), hex(text.as_bytes()));
    if let Some((o, recs)) = exp {
        let e = if recs.is_empty() { "0".to_string() } else { recs.iter().map(GRec::norm).collect::<Vec<_>>().join("|") };
        l.push_str(&format!(" {} {e}", o.tok_lower()));
    }
    l
}

fn adversarial() -> Vec<String> {
    // regression cases of the repaired iteration cap are in corpus/C20; these are built
    // programmatically because of their size
    let o = GName(vec![b"example".to_vec(), b"com".to_vec()]);
    let mut v = vec![];
    for n in [4094usize, 4095, 4096, 10000] {
        for (name, text) in [
            ("comment", format!("; {}\nwww 60 IN A 1.2.3.4\n", "c".repeat(n))),
            ("blank", format!("www 60 IN A{}1.2.3.4\n", " ".repeat(n))),
            ("quoted", format!("www 60 IN TXT \"{}\"\n", "q".repeat(n))),
            ("list", format!("www 60 IN TXT ({})\n", " x".repeat(n / 2))),
            ("token", format!("www 60 IN TXT {}\n", "t".repeat(n))),
            ("crs", format!("www 60 IN A 1.2.3.4{}\n", "\r".repeat(n))),
        ] {
            let _ = name;
            v.push(case_line("m", &o, &text, None));
        }
    }
    v
}

pub fn run(o: &Opts, rec: &mut Recorder) {
    rec.rule = "zone texts: (a) random record sets of A/AAAA/NS/CNAME/PTR/ANAME/MX/SOA/SRV/TXT/HINFO/CAA printed by an independent RFC 1035 §5 printer with per-line random layout, (a') names at the length limits (253-256 octets, labels of 63/64) written absolutely and origin-relative in every name position, and the same relative names repeated across $ORIGIN changes, (a'') records with hex / base64 data split at random offsets over parenthesised lines, and parenthesis edge cases (several groups, parentheses in strings and comments, nesting, groups open at the end), (b) mutations of those, (b') per-type RDATA text fuzz: for every record type the parser knows a valid RDATA text mutated at token level with fragments aimed at the type's mini-grammar, (c) token soup, repeated RRset edits and garbage; a case is non-trivial when the text loaded to >= 1 record or is a malformed-stream text of >= 10 characters; distinct by case line".into();
    for l in o.pre_lines.clone() {
        exec(&l, rec);
    }
    rec.corpus_cases = rec.cases.len();
    if o.replay_only {
        return;
    }
    for l in adversarial() {
        exec(&l, rec);
    }
    let mut r = Rng::new(o.seed);
    let n = o.n(3000, 120_000);
    for i in 0..n {
        let origin = {
            let k = r.range(1, 3);
            GName((0..k).map(|_| gen_ldh_label(&mut r)).collect())
        };
        // 1 file in 25 contains names with arbitrary octets (not loadable: known finding)
        let clean = r.chance(7, 10);
        let wild = !clean && r.chance(1, 8);
        let recs = gen_records(&mut r, &origin, wild, clean);
        let (text, final_origin, tags, name_ddd) = render(&mut r, &origin, &recs, clean);
        match i % 10 {
            5 if (i / 10) % 2 == 0 => {
                rec.stat("stream.limit-names");
                exec(&limit_names_case(&mut r), rec);
            }
            5 => {
                rec.stat("stream.origin-switch");
                exec(&origin_switch_case(&mut r), rec);
            }
            4 if (i / 10) % 2 == 0 => {
                rec.stat("stream.split-data");
                let (line, tags) = split_data_case(&mut r);
                for t in &tags {
                    if t.starts_with("data.") || t.starts_with("parens") {
                        rec.stat(&format!("split-data.{t}"));
                    }
                }
                exec(&line, rec);
            }
            4 => {
                rec.stat("stream.paren-edges");
                exec(&paren_edge_case(&mut r), rec);
            }
            0..=3 => {
                rec.stat(if clean { "stream.rendered-clean" } else { "stream.rendered-any" });
                for t in &tags {
                    rec.stat(&format!("layout.{t}"));
                }
                for x in &recs {
                    rec.stat(&format!("rtype.{}", x.rtype));
                }
                let flag = if name_ddd { "i" } else { "e" };
                exec(&case_line(flag, &origin, &text, Some((&final_origin, &recs))), rec);
            }
            6 | 7 => {
                rec.stat("stream.mutated");
                let m = mutate(&mut r, &text);
                let with_origin = !r.chance(1, 10);
                let mut l = case_line("m", &origin, &m, None);
                if !with_origin {
                    l = l.replacen(&origin.tok(), "-", 1);
                }
                exec(&l, rec);
            }
            8 => {
                rec.stat("stream.token-soup");
                exec(&case_line("m", &origin, &token_soup(&mut r), None), rec);
            }
            _ if r.chance(1, 2) => {
                rec.stat("stream.rrset-edits");
                exec(&case_line("m", &origin, &rrset_edits(&mut r), None), rec);
            }
            _ => {
                rec.stat("stream.garbage");
                exec(&case_line("m", &origin, &garbage(&mut r), None), rec);
            }
        }
    }
    // per-type RDATA text fuzz (its own PRNG stream, so that the cases above do not move)
    let mut r2 = Rng::new(o.seed ^ 0x5244_4154_4146_555a);
    for _ in 0..o.n(4000, 200_000) {
        rec.stat("stream.rdata-fuzz");
        let line = rdata_fuzz_case(&mut r2, rec);
        exec(&line, rec);
    }
    for k in 0..o.n(2400, 40_000) {
        let line = match k % 8 {
            0 | 1 => {
                rec.stat("stream.ttl-fuzz");
                ttl_fuzz_case(&mut r2)
            }
            2..=4 => {
                rec.stat("stream.rdata-entry");
                rdata_entry_case(&mut r2)
            }
            5 | 6 => {
                rec.stat("stream.zonefile");
                zonefile_case(&mut r2)
            }
            _ => {
                rec.stat("stream.zoneinc");
                zoneinc_case(&mut r2)
            }
        };
        exec(&line, rec);
    }
    for _ in 0..o.n(300, 20_000) {
        rec.stat("stream.trust-anchor-fuzz");
        let line = tanchor_case(&mut r2);
        exec(&line, rec);
    }
}
