//! C20 — not built yet.
use crate::common::*;

pub fn run(_o: &Opts, rec: &mut Recorder) {
    rec.rule = "stub".into();
}
